ENGINES = [
 {"name": "A-history", "path": "mc/core.py + mc/props/*.py", "serves_properties": ["C06"],
  "kind_free_text": "explicit-state exploration of operation histories on the real objects against a reference model (graph mode to fixpoint / tree mode to depth d), hand-written, parallel over work units"},
]
NOTES = ("All checks are bounded-exhaustive explorations executed on the real code from /repo/lib (current working tree). "
         "VERIF_SEED rotates class representatives and unit scheduling only; the explored shape set depends on the tier only.")
PENDING = "check not built yet in this session (planned in DESIGN.md); listed here until its module exists"
CHECKS = {
 "C06": {"engine": "A-history", "technique": "explicit-state model checking: reachable-state fixpoint over member cursors + exhaustive operation histories to depth d, BytesIO reference model",
         "text": "Every archive of 0-2 members over 9 contents (and 3 members over a core), both name styles, both open modes: complete reachable cursor-state space under the 20-operation alphabet with adversarial shared-file position, plus all histories to depth 2-4 replayed from fresh archives; each step compared with io.BytesIO.",
         "note": "Bounded member sizes (<=4 bytes) and seek targets in [0,size+1]; BytesIO is the trusted reference; arwriter cross-checked with /usr/bin/ar."},
}
NOT_APPLICABLE = [{"property_id": "C%02d" % i, "reason": PENDING} for i in range(1, 21) if "C%02d" % i not in CHECKS]
