ENGINES = [
 {"name": "A-history", "path": "mc/core.py + mc/props/*.py", "serves_properties": ["C05", "C06", "C10", "C11"],
  "kind_free_text": "explicit-state exploration of operation histories on the real objects against a reference model (graph mode to fixpoint / tree mode to depth d), hand-written, parallel over work units"},
]
NOTES = ("All checks are bounded-exhaustive explorations executed on the real code from /repo/lib (current working tree). "
         "VERIF_SEED rotates class representatives and unit scheduling only; the explored shape set depends on the tier only.")
PENDING = "check not built yet in this session (planned in DESIGN.md); listed here until its module exists"
CHECKS = {
 "C06": {"engine": "A-history", "technique": "explicit-state model checking: reachable-state fixpoint over member cursors + exhaustive operation histories to depth d, BytesIO reference model",
         "text": "Every archive of 0-2 members over 9 contents (and 3 members over a core), both name styles, both open modes: complete reachable cursor-state space under the 20-operation alphabet with adversarial shared-file position, plus all histories to depth 2-4 replayed from fresh archives; each step compared with io.BytesIO.",
         "note": "Bounded member sizes (<=4 bytes) and seek targets in [0,size+1]; BytesIO is the trusted reference; arwriter cross-checked with /usr/bin/ar."},
 "C05": {"engine": "A-history", "technique": "explicit-state model checking: exhaustive set/add/delete histories (tree depth 2-3, graph depth 3-4) on segment-generated documents against a byte-ownership document model",
         "text": "102 generated documents (7 field layouts x positions, 1-2 paragraphs, separators, comments, with and without final newline); every history of dict-style set/add/delete to the stated depth is executed on the real parser; after every step the dump must equal the model's untouched bytes around a field text that reads back as the assigned value, live lookups and a fresh parse must agree with the model.",
         "note": "Bounds: documents <= 2 paragraphs x 3 fields, 5 values, depth <= 4. The model's field reader (15 lines) defines 'value'. Choices the statement leaves open are accepted both ways (see assumptions in evidence)."},
 "C10": {"engine": "A-history", "technique": "explicit-state model checking: exhaustive histories of structural operations (tree depth 2-3, graph depth 3-4) against a document-order list model",
         "text": "32 generated documents with unique and duplicated field names, attached and free comments, every kind of last line; all histories of order_first/last/before/after (indexed and unindexed), sort_fields, indexed/unindexed set and delete, insert/append of paragraphs to the stated depth; dump compared byte for byte with the list model, (name,i) lookups on the live object and a fresh parse compared with the model.",
         "note": "Bounds: <= 5 fields per paragraph, <= 3 occurrences of a name, depth <= 4; a missing final newline may be supplied by any operation (statement's liberty)."},
 "C11": {"engine": "A-history", "technique": "bounded-exhaustive enumeration of list-field layouts (input trie over layout pieces) x exhaustive edit histories (depth 1-3, one or several `with` blocks, with and without intermediate reads) against a split oracle and a Python list",
         "text": "Every valid field value built from <= 4-5 layout pieces (words, blanks, tabs, separators, line breaks, comment lines) for the whitespace and the comma interpretation is read and compared with an independent split; no-op views must leave the dump byte-identical; every append/remove/replace/reference edit history to the stated depth is applied to a Python list and to the real view, then the dump is re-parsed: still one paragraph X F Y, X and Y untouched, list equal to the model (also on the live object).",
         "note": "Bounds: <= 5 pieces per value, edit depth <= 3; empty values and removing the only value are outside the domain."},
}
NOT_APPLICABLE = [{"property_id": "C%02d" % i, "reason": PENDING} for i in range(1, 21) if "C%02d" % i not in CHECKS]
