#!/venv/bin/python
"""tools/seed_eval.py PROP WORKTREE N NAME [--tier quick|thorough] [--in-repo]

Confirms one independently written property-breaking change and runs the property's check against it.

  WORKTREE/seedN.diff, seedN_demo.py, seedN.txt  were written by a sub-agent that saw only the property text.
  1. in WORKTREE (a scratch git worktree of /repo): clean tree -> demo must pass; apply the patch -> the repository's
     suite must still pass and the demo must fail; then the tree is restored.
  2. the check of PROP (quick, then thorough if quick misses it) is run against the patched tree
     (VERIF_REPO=WORKTREE, or with --in-repo: git -C /repo apply / checkout).
  3. everything is recorded in /verif/seeded/PROP-NAME/{patch.diff, demo.py, meta.json}.
"""
import json
import os
import shutil
import subprocess
import sys
import tempfile

VERIF = os.path.dirname(os.path.dirname(os.path.abspath(__file__)))


def sh(cmd, cwd=None, env=None, timeout=3600):
    e = dict(os.environ)
    e.update(env or {})
    p = subprocess.run(cmd, shell=True, cwd=cwd, env=e, capture_output=True, text=True, timeout=timeout)
    return p.returncode, p.stdout + p.stderr


def main():
    args = [a for a in sys.argv[1:] if not a.startswith("--")]
    prop, wt, n, name = args[:4]
    in_repo = "--in-repo" in sys.argv
    only_tier = None
    if "--tier" in sys.argv:
        only_tier = sys.argv[sys.argv.index("--tier") + 1]
    patch = os.path.join(wt, "seed%s.diff" % n)
    demo = os.path.join(wt, "seed%s_demo.py" % n)
    desc = os.path.join(wt, "seed%s.txt" % n)
    meta = {"property": prop, "name": name, "source": "fresh sub-agent given only the property record and a scratch worktree",
            "needs_to_manifest": open(desc).read().strip() if os.path.exists(desc) else "", "ran": []}
    pyenv = {"PYTHONPATH": os.path.join(wt, "lib"), "PYTHONDONTWRITEBYTECODE": "1"}
    sh("git checkout -- .", cwd=wt)
    rc, out = sh("/venv/bin/python -B %s" % demo, cwd=wt, env=pyenv)
    meta["demo_passes_without_change"] = rc == 0
    meta["ran"].append("clean tree: demo rc=%d" % rc)
    rc, out = sh("git apply %s" % patch, cwd=wt)
    if rc != 0:
        meta["error"] = "patch does not apply: " + out[-300:]
        print(json.dumps(meta, indent=1))
        return 2
    try:
        rc, out = sh("/venv/bin/python -B -m pytest -q -p no:cacheprovider --timeout=900 2>&1 | tail -1", cwd=wt, env=pyenv)
        meta["suite_with_change"] = out.strip()
        meta["suite_passes_with_change"] = "passed" in out and "failed" not in out and "error" not in out
        rc, out = sh("/venv/bin/python -B %s" % demo, cwd=wt, env=pyenv)
        meta["demo_fails_with_change"] = rc != 0
        meta["demo_output_with_change"] = out.strip()[-400:]
        meta["ran"].append("patched tree: suite '%s', demo rc=%d" % (meta["suite_with_change"], rc))
        tiers = [only_tier] if only_tier else ["quick", "thorough"]
        scratch = tempfile.mkdtemp(prefix="verif-seed-", dir="/var/tmp")
        try:
            for tier in tiers:
                env = {"VERIF_EVIDENCE_DIR": os.path.join(scratch, "ev"), "VERIF_REPLAY_DIR": os.path.join(scratch, "rp")}
                if in_repo:
                    sh("git checkout -- .", cwd=wt)
                    rc, out = sh("git -C /repo apply %s" % patch)
                    assert rc == 0, out
                    try:
                        rc, out = sh("./check %s %s" % (prop, tier), cwd=VERIF, env=env)
                    finally:
                        sh("git -C /repo checkout -- .")
                    sh("git apply %s" % patch, cwd=wt)
                else:
                    env["VERIF_REPO"] = wt
                    rc, out = sh("./check %s %s" % (prop, tier), cwd=VERIF, env=env)
                viol = [l for l in out.splitlines() if l.startswith("VIOLATION")]
                sigs = sorted({w[4:] for l in out.splitlines() for w in l.split() if w.startswith("sig=")})
                meta["check_%s" % tier] = {"exit": rc, "violation_lines": len(viol), "signatures": sigs[:8],
                                           "summary": [l for l in out.splitlines() if l.startswith(prop + " ")][:1],
                                           "first": [l.strip()[:300] for l in out.splitlines() if "first:" in l][:2],
                                           "harness_error": "HARNESS-ERROR" in out}
                meta["ran"].append("./check %s %s against the patched tree (%s): exit %d" % (
                    prop, tier, "/repo with the patch applied" if in_repo else "VERIF_REPO=worktree", rc))
                if viol:
                    meta["detected_at"] = tier
                    break
            else:
                meta["detected_at"] = None
        finally:
            shutil.rmtree(scratch, ignore_errors=True)
    finally:
        sh("git checkout -- .", cwd=wt)
    valid = meta.get("demo_passes_without_change") and meta.get("suite_passes_with_change") and meta.get("demo_fails_with_change")
    meta["confirmed_valid_seed"] = bool(valid)
    d = os.path.join(VERIF, "seeded", "%s-%s" % (prop, name))
    os.makedirs(d, exist_ok=True)
    shutil.copy(patch, os.path.join(d, "patch.diff"))
    shutil.copy(demo, os.path.join(d, "demo.py"))
    with open(os.path.join(d, "meta.json"), "w") as f:
        json.dump(meta, f, indent=1, ensure_ascii=False)
    print("%s %s: valid=%s detected_at=%s sigs=%s" % (prop, name, meta["confirmed_valid_seed"], meta.get("detected_at"),
                                                     (meta.get("check_quick") or meta.get("check_thorough") or {}).get("signatures")))
    return 0


if __name__ == "__main__":
    sys.exit(main())
