#!/bin/bash
# validates MANIFEST.json and evidence/*.json against the schemas (uses the tooling venv; not part of any check)
cd "$(dirname "$0")/.." && python3-vt - <<'PY'
import json, glob, jsonschema, sys
ok = True
m = json.load(open("MANIFEST.json")); jsonschema.validate(m, json.load(open("/root/.vp/MANIFEST.schema.json")))
es = json.load(open("/root/.vp/EVIDENCE.schema.json"))
for c in m["checks"]:
    f = c["evidence_file"]
    try:
        e = json.load(open(f)); jsonschema.validate(e, es)
        assert e["level"] == c["level_claimed"]["category"], (f, e["level"])
        assert e["property_id"] == c["property_id"]
    except Exception as ex:
        ok = False; print("BAD", f, str(ex)[:300])
ids = {c["property_id"] for c in m["checks"]} | {n["property_id"] for n in m.get("not_applicable", [])}
assert ids == {"C%02d" % i for i in range(1, 21)}, sorted(ids)
print("manifest ok, %d checks, evidence %s" % (len(m["checks"]), "ok" if ok else "BAD")); sys.exit(0 if ok else 1)
PY
