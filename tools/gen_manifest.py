#!/venv/bin/python
"""Regenerates MANIFEST.json from tools/manifest_src.py (so the file is always schema-shaped)."""
import json, os, sys
here = os.path.dirname(os.path.abspath(__file__))
sys.path.insert(0, here)
import manifest_src as S
checks = []
for pid, d in sorted(S.CHECKS.items()):
    checks.append({
        "property_id": pid,
        "quick_cmd": "./check %s quick" % pid,
        "thorough_cmd": "./check %s thorough" % pid,
        "evidence_file": "/verif/evidence/%s.json" % pid,
        "replay_cmd_template": "./check %s --replay {path}" % pid,
        "engine": d["engine"],
        "level_claimed": {"category": d.get("category", "model_checking"), "text": d["text"] + S.EXTENSIONS_TEXT,
                          "design_ref": "DESIGN.md section 2, " + pid + "; section 6.3 for the families added since"},
        "level_note": d["note"],
        "technique": d["technique"] + S.EXTENSIONS_TECHNIQUE,
    })
m = {
    "version": 1,
    "setup_cmd": "./check --setup",
    "hooks": {"guard": "PYTHON_DEBIAN_VERIF", "enable": "no source hooks exist: every observation is made through the public API, harness-owned file objects and run-time name shadowing inside the harness process; checks import /repo/lib directly (VERIF_REPO overrides)",
              "baseline_off_cmd": "cd /repo && /venv/bin/python -m pytest -ra -q -p no:cacheprovider --timeout=900 --continue-on-collection-errors",
              "source_commits": [], "add_only": True},
    "engines": S.ENGINES,
    "checks": checks,
    "notes": S.NOTES,
    "not_applicable": S.NOT_APPLICABLE,
}
json.dump(m, open(os.path.join(os.path.dirname(here), "MANIFEST.json"), "w"), indent=1)
print("MANIFEST.json: %d checks, %d not_applicable" % (len(checks), len(S.NOT_APPLICABLE)))
