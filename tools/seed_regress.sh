#!/bin/bash
# tools/seed_regress.sh [name-prefix ...]  - re-runs the quick check of every kept seeded change (seeded/<PROP>-<name>/patch.diff)
# against a scratch copy of /repo with the patch applied; every line must say CAUGHT.
cd "$(dirname "$(readlink -f "$0")")/.." || exit 3
SCR=$(mktemp -d /var/tmp/verif-seedreg.XXXXXX); trap 'rm -rf "$SCR"' EXIT
sel="$@"; [ -z "$sel" ] && sel="C"
rc=0
for d in seeded/*/; do
  n=$(basename "$d"); ok=0; for s in $sel; do case "$n" in $s*) ok=1;; esac; done; [ $ok = 1 ] || continue
  id=${n%%-*}
  rm -rf "$SCR/r"; mkdir -p "$SCR/r" "$SCR/ev" "$SCR/rp"
  (cd /repo && tar --exclude=.git --exclude=__pycache__ -cf - .) | tar -xf - -C "$SCR/r"
  if ! (cd "$SCR/r" && patch -p1 -s --no-backup-if-mismatch < "$OLDPWD/$d/patch.diff") >/dev/null 2>&1; then
    printf '%-10s %s\n' "$n" "PATCH-DOES-NOT-APPLY"; rc=1; continue; fi
  out=$(VERIF_REPO=$SCR/r VERIF_EVIDENCE_DIR=$SCR/ev VERIF_REPLAY_DIR=$SCR/rp ./check "$id" quick 2>&1); c=$?
  if echo "$out" | grep -q '^VIOLATION'; then det=CAUGHT; else det="MISSED(rc=$c)"; rc=1; fi
  printf '%-10s %-14s %s\n' "$n" "$det" "$(echo "$out" | grep -o 'sig=[^ ]*' | sort -u | head -2 | tr '\n' ' ')"
done
exit $rc
