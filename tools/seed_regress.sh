#!/bin/bash
# tools/seed_regress.sh [-j N] [name-prefix ...]  - re-runs the quick check of every kept seeded change
# (seeded/<PROP>-<name>/patch.diff) against a scratch copy of /repo with the patch applied; every line must say CAUGHT.
# -j N: N seeds at a time (each check then uses 16/N worker processes).
cd "$(dirname "$(readlink -f "$0")")/.." || exit 3
J=1; if [ "$1" = "-j" ]; then J=$2; shift 2; fi
if [ "$1" = "--one" ]; then
  # internal: one seed directory, one output line
  d=$2; SCR=$3; n=$(basename "$d"); id=${n%%-*}; W="$SCR/$n"
  mkdir -p "$W/r" "$W/ev" "$W/rp"
  (cd /repo && tar --exclude=.git --exclude=__pycache__ -cf - .) | tar -xf - -C "$W/r"
  if ! (cd "$W/r" && patch -p1 -s --no-backup-if-mismatch < "$OLDPWD/$d/patch.diff") >/dev/null 2>&1; then
    printf '%-10s %s\n' "$n" "PATCH-DOES-NOT-APPLY"; rm -rf "$W"; exit 1; fi
  out=$(VERIF_REPO=$W/r VERIF_EVIDENCE_DIR=$W/ev VERIF_REPLAY_DIR=$W/rp VERIF_NPROC=${VERIF_NPROC:-16} ./check "$id" quick 2>&1); c=$?
  if echo "$out" | grep -q '^VIOLATION'; then det=CAUGHT; r=0; else det="MISSED(rc=$c)"; r=1; fi
  printf '%-10s %-14s %s\n' "$n" "$det" "$(echo "$out" | grep -o 'sig=[^ ]*' | sort -u | head -2 | tr '\n' ' ')"
  rm -rf "$W"; exit $r
fi
SCR=$(mktemp -d /var/tmp/verif-seedreg.XXXXXX); trap 'rm -rf "$SCR"' EXIT
sel="$@"; [ -z "$sel" ] && sel="C"
list=()
for d in seeded/*/; do
  n=$(basename "$d"); ok=0; for s in $sel; do case "$n" in $s*) ok=1;; esac; done; [ $ok = 1 ] && list+=("${d%/}")
done
export VERIF_NPROC=$(( 16 / J )); [ "$VERIF_NPROC" -lt 1 ] && VERIF_NPROC=1
printf '%s\n' "${list[@]}" | xargs -P "$J" -I{} "$0" --one {} "$SCR" > "$SCR/out.txt"; rc=$?
sort "$SCR/out.txt"
[ $rc = 0 ] || exit 1
exit 0
