"""Runner core: work-unit parallelism, accumulation, evidence, replay files, known findings.

Every check is a module ``mc.props.cNN`` with

    ID, LEVEL ("model_checking" | "fault_enumeration"), RULE (text)
    units(tier, seed)            -> list of picklable work units, canonical (simplest-first) order
    run_unit(unit, tier, seed)   -> Part          (executed in a worker process)
    replay(case)                 -> list of (sig, expected, observed)   (empty = case passes)
    optional: bounds(tier) -> dict, assumptions() -> list, selfcheck() -> dict, repro_py(case) -> str

The set of cases explored is a function of the tier only.  The seed rotates the representatives of a
few symbol classes and the scheduling order of the units; violations are reported in canonical order.
"""
import ast
import collections
import hashlib
import json
import multiprocessing as mp
import os
import random
import sys
import time
import traceback

VERIF = os.path.dirname(os.path.dirname(os.path.abspath(__file__)))
REPO = os.environ.get("VERIF_REPO", "/repo")
KNOWN_FINDINGS = os.path.join(VERIF, "KNOWN_FINDINGS.txt")

MAX_STORED_PER_SIG = 3
MAX_SAMPLES = 12


def install_repo_path():
    lib = os.path.join(REPO, "lib")
    if not os.path.isdir(os.path.join(lib, "debian")):
        raise SystemExit("harness: %s/debian not found" % lib)
    # an editable install of /repo may already be importable; the chosen tree must win
    sys.path.insert(0, lib)
    for name in list(sys.modules):
        if name == "debian" or name.startswith("debian."):
            del sys.modules[name]
    import debian  # noqa
    got = os.path.dirname(os.path.abspath(debian.__file__))
    want = os.path.abspath(os.path.join(lib, "debian"))
    if os.path.realpath(got) != os.path.realpath(want):
        raise SystemExit("harness: imported debian from %s, wanted %s" % (got, want))


class Part(object):
    """What one work unit covered.  Picklable, mergeable."""

    def __init__(self):
        self.states = 0
        self.transitions = 0
        self.traces = 0          # complete inputs / histories executed on the implementation
        self.evaluations = 0     # oracle evaluations
        self.nontrivial = 0      # distinct non-trivial cases (units partition the space, so sums are distinct counts)
        self.outcomes = collections.Counter()
        self.extra = collections.Counter()
        self.samples = []
        self.viol = []           # stored violations (dicts)
        self.viol_sigs = collections.Counter()
        self.max_depth = 0
        self._seq = 0

    def sample(self, case, every=None):
        if len(self.samples) < 3:
            self.samples.append(case)

    def violation(self, sig, case, expected, observed, note="", rank=0):
        """rank: size of the case (smaller = simpler); the reported case of a signature is the one with the
        smallest (rank, unit, sequence number)"""
        self.viol_sigs[sig] += 1
        self._seq += 1
        mine = [v for v in self.viol if v["sig"] == sig]
        v = {"sig": sig, "case": case, "expected": _short(expected), "observed": _short(observed),
             "note": note, "seq": self._seq, "rank": rank}
        if len(mine) < MAX_STORED_PER_SIG:
            self.viol.append(v)
        else:
            worst = max(mine, key=lambda x: (x["rank"], x["seq"]))
            if (rank, self._seq) < (worst["rank"], worst["seq"]):
                self.viol[self.viol.index(worst)] = v

    def merge(self, other, unit_index):
        self.states += other.states
        self.transitions += other.transitions
        self.traces += other.traces
        self.evaluations += other.evaluations
        self.nontrivial += other.nontrivial
        self.outcomes.update(other.outcomes)
        self.extra.update(other.extra)
        self.max_depth = max(self.max_depth, other.max_depth)
        self.viol_sigs.update(other.viol_sigs)
        for v in other.viol:
            v = dict(v)
            v["order"] = (v.get("rank", 0), unit_index, v.pop("seq"))
            self.viol.append(v)
        if other.samples:
            self.samples.append((unit_index, other.samples))


def _short(x, n=600):
    s = x if isinstance(x, str) else repr(x)
    return s if len(s) <= n else s[:n] + "...<%d chars>" % len(s)


def rep(seed, choices):
    """Representative of a symbol class: seed 0 always gives the first (simplest) one."""
    return choices[seed % len(choices)]


# ------------------------------------------------------------------------------------------------

_WORK = {}


def _worker(args):
    idx, unit = args
    mod, tier, seed = _WORK["mod"], _WORK["tier"], _WORK["seed"]
    t0 = time.time()
    try:
        part = mod.run_unit(unit, tier, seed)
        return idx, part, None, time.time() - t0
    except BaseException:  # harness bug, never a verdict
        return idx, None, traceback.format_exc(), time.time() - t0


def run_check(mod, tier, seed, budget_s=None, nproc=None):
    """Returns (exit_code)."""
    t0 = time.time()
    units = list(mod.units(tier, seed))
    order = list(range(len(units)))
    random.Random(seed).shuffle(order) if seed else None
    if hasattr(mod, "unit_cost"):
        # longest first (after the seed shuffle) for better packing; set of units unchanged
        order.sort(key=lambda i: -mod.unit_cost(units[i], tier))
    nproc = nproc or int(os.environ.get("VERIF_NPROC", "0")) or len(os.sched_getaffinity(0))
    nproc = max(1, min(nproc, len(units)))
    _WORK.update(mod=mod, tier=tier, seed=seed)
    total = Part()
    done = 0
    errors = []
    capped = []
    results = {}
    if nproc == 1:
        it = map(_worker, [(i, units[i]) for i in order])
        pool = None
    else:
        ctx = mp.get_context("fork")
        pool = ctx.Pool(nproc)
        it = pool.imap_unordered(_worker, [(i, units[i]) for i in order], chunksize=1)
    try:
        for idx, part, err, dt in it:
            done += 1
            if err:
                errors.append((idx, err))
                continue
            results[idx] = part
            if budget_s and time.time() - t0 > budget_s:
                capped.append("wall-clock budget %ds reached after %d of %d work units" % (budget_s, done, len(units)))
                break
    finally:
        if pool is not None:
            pool.terminate()
            pool.join()
    for idx in sorted(results):
        total.merge(results[idx], idx)
    if errors:
        sys.stderr.write("HARNESS-ERROR in %d unit(s); first:\n%s\n" % (len(errors), errors[0][1]))
        return 3
    wall = time.time() - t0
    return finish(mod, tier, seed, total, wall, len(units), len(results), capped, units)


# ------------------------------------------------------------------------------------------------

def load_known():
    open_, fixed = [], []
    if os.path.exists(KNOWN_FINDINGS):
        for line in open(KNOWN_FINDINGS, encoding="utf-8"):
            line = line.strip()
            if not line or line.startswith("#"):
                continue
            kind, _, rest = line.partition(":")
            fields = rest.split()
            d = {"text": rest.strip()}
            for f in fields:
                if f.startswith("property="):
                    d["property"] = f[9:]
                elif f.startswith("sig="):
                    d["sig"] = f[4:]
            (open_ if kind == "open" else fixed).append(d)
    return open_, fixed


def case_to_json(case):
    try:
        json.dumps(case)
        return case
    except (TypeError, ValueError):
        return repr(case)


def write_replay(pid, v):
    d = os.path.join(os.environ.get("VERIF_REPLAY_DIR", os.path.join(VERIF, "replays")), pid)
    os.makedirs(d, exist_ok=True)
    body = {"property": pid, "sig": v["sig"], "case_repr": repr(v["case"]), "case": case_to_json(v["case"]),
            "expected": v["expected"], "observed": v["observed"], "note": v.get("note", ""),
            "repro_py": v.get("repro_py", "")}
    h = hashlib.sha1(body["case_repr"].encode("utf-8", "backslashreplace") + pid.encode() +
                     str(v["sig"]).encode("utf-8", "backslashreplace")).hexdigest()[:16]
    path = os.path.join(d, h + ".json")
    with open(path, "w", encoding="utf-8") as f:
        json.dump(body, f, indent=1, ensure_ascii=True)
    return path


def load_replay(path):
    body = json.load(open(path, encoding="utf-8"))
    return body, ast.literal_eval(body["case_repr"])


def finish(mod, tier, seed, total, wall, n_units, n_done, capped, units_list=None):
    pid = mod.ID
    open_, _fixed = load_known()
    open_sigs = {d.get("sig"): d for d in open_ if d.get("property") == pid}
    total.viol.sort(key=lambda v: v["order"])
    first_by_sig = collections.OrderedDict()
    for v in total.viol:
        first_by_sig.setdefault(v["sig"], v)
    lines = []
    known_hit = {}
    unknown = 0
    exit_code = 0
    for sig, v in first_by_sig.items():
        n = total.viol_sigs[sig]
        if sig in open_sigs:
            known_hit[sig] = n
            lines.append("KNOWN-FINDING: property=%s %s (sig=%s, %d case(s) this run)" % (
                pid, open_sigs[sig]["text"].split("sig=" + sig, 1)[-1].strip(), sig, n))
            continue
        # reproduce twice from scratch before believing it
        r1 = _safe_replay(mod, v["case"])
        r2 = _safe_replay(mod, v["case"])
        if r1 != r2 or not r1 or isinstance(r1, str):
            # The single case does not reproduce on fresh objects.  If the library keeps state across calls the
            # failure may need the work unit's whole (deterministic) sequence of calls: re-run that unit twice in
            # fresh processes and believe the violation only if its signature shows up both times.
            unit = units_list[v["order"][1]] if units_list is not None else None
            u1 = _unit_sigs(mod, unit, tier, seed) if unit is not None else None
            u2 = _unit_sigs(mod, unit, tier, seed) if unit is not None else None
            if u1 and u1 == u2 and not isinstance(u1, str):
                usig = sig if sig in u1 else u1[0]
                v = dict(v, sig=usig, case={"__unit__": unit, "tier": tier, "seed": seed, "sig": usig,
                                            "first_case": v["case"]},
                         note="history-dependent: reproduces only within the work unit's call sequence")
                sig = usig
            else:
                # not even the unit reproduces it in a fresh process: the failure needs state left behind by earlier
                # work units of the same worker.  Run the units sequentially (canonical order, one fresh process)
                # until the first violation; that run is deterministic.
                s1 = _sequential_first(mod, tier, seed, 150, units=units_list)
                s2 = _sequential_first(mod, tier, seed, 150, units=units_list) if s1 and not isinstance(s1, str) else None
                if isinstance(s1, str) or isinstance(u1, str) or isinstance(r1, str):
                    sys.stderr.write("HARNESS-ERROR while replaying violation sig=%s:\n case=%r\n r1=%r\n unit re-run: %r\n"
                                     " sequential run: %r\n" % (sig, v["case"], r1, u1, s1))
                    return 3
                if s1 and s1 == s2:
                    v = dict(v, sig=s1[1], case={"__sequential__": s1[0], "tier": tier, "seed": seed, "sig": s1[1],
                                                 "first_case": v["case"]},
                             note="history-dependent across work units: reproduces when the units are run sequentially "
                                  "in one process (first violation in unit #%d)" % s1[0])
                    sig = s1[1]
                else:
                    # The wrong answer was observed on the real code during the exploration, but it depends on which
                    # work units the worker process had run before (library state that outlives a unit).  It is
                    # reported - with the case as observed - rather than dropped; the replay file says so.
                    sys.stderr.write("NOTE: violation sig=%s was observed during the parallel exploration but reproduces "
                                     "neither alone, nor in its work unit, nor in a sequential run (schedule-dependent "
                                     "library state)\n" % sig)
                    v = dict(v, note="observed during the parallel exploration; NOT reproducible in isolation: depends on "
                                     "library state left behind by other work units of the same worker process")
            if any(l.startswith("VIOLATION") and ("sig=%s " % sig) in lines[i + 1] for i, l in enumerate(lines[:-1])):
                continue      # already reported under this signature
        if hasattr(mod, "repro_py"):
            try:
                v["repro_py"] = mod.repro_py(v["case"])
            except Exception:
                pass
        path = write_replay(pid, v)
        unknown += n
        exit_code = 1
        lines.append("VIOLATION property=%s replay=%s" % (pid, path))
        lines.append("  sig=%s cases=%d first: %s" % (sig, n, _short(v["case"], 300)))
        lines.append("  expected: %s" % _short(v["expected"], 300))
        lines.append("  observed: %s" % _short(v["observed"], 300))
    samples = []
    for _idx, ss in sorted(total.samples, key=lambda t: t[0]):
        samples.extend(ss)
    if len(samples) > MAX_SAMPLES:
        step = len(samples) / float(MAX_SAMPLES)
        samples = [samples[int(i * step)] for i in range(MAX_SAMPLES - 1)] + [samples[-1]]
    exhaustive = (n_done == n_units) and not capped
    cov = {
        "states": total.states, "transitions": total.transitions,
        "traces_validated_against_impl": total.traces,
        "evaluations": total.evaluations, "distinct_nontrivial": total.nontrivial,
        "rule": getattr(mod, "RULE", ""),
        "samples": [case_to_json(s) for s in samples] or ["<none>"],
        "exhaustive": exhaustive,
        "bounds": mod.bounds(tier) if hasattr(mod, "bounds") else {},
        "caps_hit": capped,
        "work_units": n_units, "work_units_completed": n_done,
        "max_depth": total.max_depth,
        "outcome_classes": {str(k): c for k, c in sorted(total.outcomes.items(), key=lambda kv: str(kv[0]))},
        "distinct_outcomes": len(total.outcomes),
        "extra": {str(k): c for k, c in sorted(total.extra.items(), key=lambda kv: str(kv[0]))},
        "known_findings_hit": known_hit,
        "violation_signatures": {s: c for s, c in total.viol_sigs.items()},
        "repo": REPO,
    }
    if hasattr(mod, "selfcheck_result"):
        cov["model_selfcheck"] = mod.selfcheck_result
    ev = {"property_id": pid, "tier": tier, "seed": seed, "level": mod.LEVEL, "coverage": cov,
          "assumptions": mod.assumptions() if hasattr(mod, "assumptions") else [],
          "wall_s": round(wall, 2), "violations": unknown}
    evdir = os.environ.get("VERIF_EVIDENCE_DIR", os.path.join(VERIF, "evidence"))
    os.makedirs(evdir, exist_ok=True)
    tmp = os.path.join(evdir, ".%s.json.tmp%d" % (pid, os.getpid()))
    with open(tmp, "w", encoding="utf-8") as f:
        json.dump(ev, f, indent=1, ensure_ascii=True, sort_keys=True)
        f.write("\n")
    os.replace(tmp, os.path.join(evdir, pid + ".json"))
    print("%s %s seed=%d: units=%d/%d states=%d transitions=%d traces=%d evaluations=%d nontrivial=%d outcomes=%d "
          "exhaustive=%s wall=%.1fs" % (pid, tier, seed, n_done, n_units, total.states, total.transitions, total.traces,
                                        total.evaluations, total.nontrivial, len(total.outcomes), exhaustive, wall))
    for c in capped:
        print("CAP: " + c)
    for l in lines:
        print(l)
    if exit_code == 0:
        print("OK property=%s held on everything explored" % pid)
    sys.stdout.flush()
    return exit_code


_UNIT_ARGS = {}


def _unit_child(_ignored):
    a = _UNIT_ARGS
    try:
        part = a["mod"].run_unit(a["unit"], a["tier"], a["seed"])
        return sorted(part.viol_sigs)
    except BaseException:
        return "EXC " + traceback.format_exc()


def _unit_sigs(mod, unit, tier, seed):
    """signatures reported by one work unit executed in a fresh (forked) process"""
    _UNIT_ARGS.update(mod=mod, unit=unit, tier=tier, seed=seed)
    ctx = mp.get_context("fork")
    with ctx.Pool(1) as pool:
        return pool.apply(_unit_child, (None,))


def _seq_child(_ignored):
    a = _UNIT_ARGS
    t0 = time.time()
    try:
        units = a.get("units")
        if units is None:
            units = a["mod"].units(a["tier"], a["seed"])
        for i, unit in enumerate(units):
            part = a["mod"].run_unit(unit, a["tier"], a["seed"])
            if part.viol_sigs:
                return (i, sorted(part.viol_sigs)[0])
            if a.get("stop_after") is not None and i >= a["stop_after"]:
                return None
            if time.time() - t0 > a["cap"]:
                return None
        return None
    except BaseException:
        return "EXC " + traceback.format_exc()


def _sequential_first(mod, tier, seed, cap_s, stop_after=None, units=None):
    """(unit index, signature) of the first violation when all units run in canonical order in ONE fresh process"""
    _UNIT_ARGS.update(mod=mod, tier=tier, seed=seed, cap=cap_s, stop_after=stop_after, units=units)
    ctx = mp.get_context("fork")
    with ctx.Pool(1) as pool:
        return pool.apply(_seq_child, (None,))


def _replay_child(_ignored):
    a = _UNIT_ARGS
    try:
        return [(_s, _short(e), _short(o)) for (_s, e, o) in a["mod"].replay(a["case"])]
    except BaseException:
        return "EXC " + traceback.format_exc()


def _safe_replay(mod, case):
    """replay one case in a process forked from this one, which never runs library code itself: every replay sees the
    library in the state it has right after import (as `./check --replay` does)"""
    _UNIT_ARGS.update(mod=mod, case=case)
    ctx = mp.get_context("fork")
    with ctx.Pool(1) as pool:
        return pool.apply(_replay_child, (None,))


def do_replay(mod, path):
    body, case = load_replay(path)
    if isinstance(case, dict) and "__sequential__" in case:
        r = _sequential_first(mod, case["tier"], case["seed"], 600, stop_after=case["__sequential__"],
                              units=list(mod.units(case["tier"], case["seed"])))
        res = [(r[1], "no violation", "violation in unit #%d of the sequential run" % r[0])] if r and not isinstance(r, str) else []
    elif isinstance(case, dict) and "__unit__" in case:
        part = mod.run_unit(case["__unit__"], case["tier"], case["seed"])
        res = [(x["sig"], x["expected"], x["observed"]) for x in part.viol if x["sig"] == case["sig"]][:1]
    else:
        res = mod.replay(case)
    if res:
        for sig, exp, obs in res:
            print("VIOLATION property=%s replay=%s" % (mod.ID, path))
            print("  sig=%s\n  expected: %s\n  observed: %s" % (sig, _short(exp), _short(obs)))
        return 1
    print("replay passes: property=%s case=%s" % (mod.ID, _short(case, 300)))
    return 0
