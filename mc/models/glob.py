"""Reference model for the glob dialect of machine-readable debian/copyright `Files` fields (C16).

The dialect, as stated by the property:
  '*'   matches any run of characters (empty run, '/', newline included);
  '?'   matches exactly one character (any character);
  '\\*', '\\?', '\\\\'  match a literal '*', '?', '\\';
  any other character matches itself;
  a backslash followed by anything else, or a backslash at the end, makes the pattern invalid;
  a pattern matches a name only if it matches the WHOLE name.

Plain Python on purpose: no `re`, no `fnmatch`, nothing from the code under test.  Two independent
matchers are provided (recursive backtracking and a dynamic-programming table) so that the harness can
check the model against itself.
"""

LIT, STAR, ANY = "L", "S", "Q"

TRAILING_BACKSLASH = "trailing-backslash"
BAD_ESCAPE = "bad-escape"


class GlobError(ValueError):
    """The pattern is not valid in the dialect; .kind is TRAILING_BACKSLASH or BAD_ESCAPE."""

    def __init__(self, kind, pattern):
        ValueError.__init__(self, "%s in %r" % (kind, pattern))
        self.kind = kind


def tokens(pattern):
    """pattern -> list of (LIT, char) | (STAR,) | (ANY,); raises GlobError."""
    out = []
    i = 0
    n = len(pattern)
    while i < n:
        c = pattern[i]
        i += 1
        if c == "\\":
            if i == n:
                raise GlobError(TRAILING_BACKSLASH, pattern)
            c = pattern[i]
            i += 1
            if c != "\\" and c != "*" and c != "?":
                raise GlobError(BAD_ESCAPE, pattern)
            out.append((LIT, c))
        elif c == "*":
            out.append((STAR,))
        elif c == "?":
            out.append((ANY,))
        else:
            out.append((LIT, c))
    return out


def validity(pattern):
    """None if the pattern is valid, else the kind of the first error."""
    try:
        tokens(pattern)
    except GlobError as e:
        return e.kind
    return None


def kinds(pattern):
    """The set of token kinds used by a valid pattern plus 'E' when an escape is used (for outcome classes)."""
    ks = set()
    i = 0
    while i < len(pattern):
        c = pattern[i]
        if c == "\\":
            ks.add("E")
            i += 2
            continue
        ks.add(STAR if c == "*" else ANY if c == "?" else LIT)
        i += 1
    return ks


def _bt(toks, ti, name, si):
    if ti == len(toks):
        return si == len(name)
    t = toks[ti]
    if t[0] == STAR:
        k = si
        while k <= len(name):
            if _bt(toks, ti + 1, name, k):
                return True
            k += 1
        return False
    if si == len(name):
        return False
    if t[0] == ANY or t[1] == name[si]:
        return _bt(toks, ti + 1, name, si + 1)
    return False


def match_tokens(toks, name):
    return _bt(toks, 0, name, 0)


def match(pattern, name):
    """True iff the pattern matches the whole name (backtracking).  Raises GlobError on an invalid pattern."""
    return _bt(tokens(pattern), 0, name, 0)


def match_dp(pattern, name):
    """Same relation, computed independently by a table: reach[j] = 'tokens so far can consume name[:j]'."""
    toks = tokens(pattern)
    n = len(name)
    reach = [j == 0 for j in range(n + 1)]
    for t in toks:
        nxt = [False] * (n + 1)
        if t[0] == STAR:
            on = False
            for j in range(n + 1):
                on = on or reach[j]
                nxt[j] = on
        else:
            for j in range(n):
                if reach[j] and (t[0] == ANY or t[1] == name[j]):
                    nxt[j + 1] = True
        reach = nxt
    return reach[n]


def matches_prefix(pattern, name):
    """True iff the (valid) pattern matches some PROPER prefix of name (used only to classify failures)."""
    toks = tokens(pattern)
    for k in range(len(name)):
        if _bt(toks, 0, name[:k], 0):
            return True
    return False


def list_verdict(patterns, name):
    """Verdict for a pattern list: ('error', kind) if any pattern is invalid (first invalid one decides the
    kind), else ('match', index of first matching pattern) or ('nomatch', None)."""
    toks = []
    for p in patterns:
        try:
            toks.append(tokens(p))
        except GlobError as e:
            return ("error", e.kind)
    for i, t in enumerate(toks):
        if _bt(t, 0, name, 0):
            return ("match", i)
    return ("nomatch", None)
