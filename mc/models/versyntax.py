"""Hand-written recogniser for Debian version strings ``[epoch:]upstream[-revision]`` (the model side of
C14, and the definition of "valid version string" for C03).  No regular expressions, no ``debian``.

Character sets (Policy 5.6.12): epoch = ASCII digits; upstream = ASCII letters, digits and ``. + - ~``,
plus ``:`` when (and only when) there is an epoch; revision = ASCII letters, digits and ``. + ~``.

Where a hyphen is involved the grammar can be read two ways:

  R1  "some split works, and a body with hyphens may have no revision at all"
  R2  "split at the last hyphen; both sides must be valid"                       (what dpkg does)

R1 and R2 differ exactly on bodies (the text after the epoch) whose text before the last hyphen is empty,
or whose text after it is empty or contains ``:``.  The property statement does not choose, so
``classify`` answers None (don't care) for those, True where both readings accept, False where both reject.
"""
import unicodedata


def char_class(c):
    if "0" <= c <= "9":
        return "digit"
    if "a" <= c <= "z" or "A" <= c <= "Z":
        return "letter"
    if c in ".+~":
        return "punct"
    if c == "-":
        return "hyphen"
    if c == ":":
        return "colon"
    if c == "\n":
        return "newline"
    if ord(c) < 128:
        return "space" if c in " \t\r\f\v" else "ascii-other"
    cat = unicodedata.category(c)
    if cat == "Nd":
        return "nonascii-digit"
    if cat.startswith("L"):
        return "nonascii-letter"
    return "nonascii-other"


def classify(s):
    """-> (verdict, reason): verdict True (valid under R1 and R2), False (invalid under both) or None
    (R1 accepts, R2 rejects).  For True the reason is the shape: plain / epoch / rev / epoch+rev."""
    if s == "":
        return False, "empty"
    epoch = None
    body = s
    if ":" in s:
        i = s.index(":")
        e, rest = s[:i], s[i + 1:]
        if e == "":
            return False, "colon/empty-epoch"
        for c in e:
            k = char_class(c)
            if k != "digit":
                # a colon is only allowed together with an epoch, and this is not one
                return False, "colon/epoch-has-" + k
        epoch, body = e, rest
    if body == "":
        return False, "upstream/empty"
    for c in body:
        k = char_class(c)
        if k in ("digit", "letter", "punct", "hyphen"):
            continue
        if k == "colon" and epoch is not None:
            continue
        return False, "body/" + k
    # every character is fine for an upstream version: R1 accepts from here on
    if "-" in body:
        j = len(body) - 1
        while body[j] != "-":
            j -= 1
        up, rev = body[:j], body[j + 1:]
        if up == "":
            return None, "dontcare/nothing-before-last-hyphen"
        if rev == "":
            return None, "dontcare/nothing-after-last-hyphen"
        if ":" in rev:
            return None, "dontcare/colon-after-last-hyphen"
        return True, "epoch+rev" if epoch is not None else "rev"
    return True, "epoch" if epoch is not None else "plain"


def valid(s):
    return classify(s)[0]


def parts(s):
    """(epoch, upstream, revision) of a string with classify(s)[0] is True; absent parts are None."""
    epoch = None
    body = s
    if ":" in s:
        i = s.index(":")
        epoch, body = s[:i], s[i + 1:]
    if "-" in body:
        j = body.rindex("-")
        return epoch, body[:j], body[j + 1:]
    return epoch, body, None


def recompose(epoch, upstream, revision, omit_empty_revision=False):
    out = ""
    if epoch is not None:
        out += epoch + ":"
    out += upstream
    if revision is not None and not (omit_empty_revision and revision == ""):
        out += "-" + revision
    return out


# ------------------------------------------------------------------------------------------------
# numeric boundaries: the syntax puts no limit on the length or value of a digit run

def digit_runs(tier="quick"):
    """Digit runs (strings, in canonical simplest-first order) at the limits of the machine integer types and of
    round decimal lengths.  The grammar does not know numbers, only digits: every one of them is valid wherever a digit
    run may stand (epoch, upstream version, a component of it, revision), with any number of leading zeros."""
    vals = [2 ** 15 - 1, 2 ** 15, 2 ** 16 - 1, 2 ** 16, 10 ** 9 - 1, 10 ** 9, 2 ** 31 - 1, 2 ** 31, 2 ** 32 - 1, 2 ** 32,
            2 ** 63 - 1, 2 ** 63, 10 ** 19 - 1, 2 ** 64 - 1, 2 ** 64, 10 ** 19, 10 ** 20 - 1]
    if tier != "quick":
        for k in (7, 8, 15, 16, 24, 31, 32, 48, 53, 62, 63, 64, 65, 96, 127, 128, 256):
            vals += [2 ** k - 1, 2 ** k, 2 ** k + 1]
        for k in (4, 5, 8, 9, 10, 11, 18, 19, 20, 21, 38, 39, 40, 100, 308, 309):
            vals += [10 ** k - 1, 10 ** k]
    runs = [str(v) for v in sorted(set(vals))]
    runs += ["1234567890" * 4, "1234567890" * 30]    # 40 and 300 digits
    if tier != "quick":
        runs += ["1234567890" * 10, "9" * 1000]      # far below the 4300 digits at which int() / str() give up
    runs += ["0" * 12 + "1", "0" * 20]               # long runs with a small value
    return runs


def zero_padded(run):
    return [run, "0" + run, "0" * 10 + run]


# (position, template): every %s is replaced by the run
DIGIT_RUN_TEMPLATES = [
    ("epoch", "%s:1"), ("upstream", "%s"), ("component", "1.%s"), ("revision", "1-%s"),
    ("epoch of a full version", "%s:1.0-1"), ("upstream of a full version", "1:%s-1"),
    ("component of a full version", "1:1.%s~a-1"), ("revision of a full version", "1:2.0-%s"),
    ("component after a letter", "1.a%s"), ("component of the revision", "1-1.%s"),
    ("first component", "%s.1"), ("everywhere", "%s:%s.%s-%s"),
]


def digit_run_string(template, run):
    return template.replace("%s", run)


# ------------------------------------------------------------------------------------------------
# optional cross-check of the recogniser against dpkg's own parser

DPKG = "/usr/bin/dpkg"


def _dpkg_validates(s):
    import subprocess
    try:
        return subprocess.run([DPKG, "--validate-version", "--", s], stdout=subprocess.DEVNULL, stderr=subprocess.DEVNULL,
                              env={"LC_ALL": "C", "PATH": "/usr/bin:/bin"}).returncode
    except OSError:
        return None


def crosscheck_dpkg(strings, procs=16):
    """dpkg --validate-version accepts (exit 0) exactly the strings that are valid under R2 *and* whose
    upstream version starts with a digit (dpkg's extra rule, not part of the grammar checked here).
    `strings` must not contain blanks (dpkg trims them).  A missing dpkg only drops the cross-check."""
    import os
    if not os.path.exists(DPKG):
        return {"tool": "dpkg --validate-version", "available": False, "strings": 0, "agree": 0, "disagreements": []}
    import multiprocessing
    procs = max(1, min(procs, len(os.sched_getaffinity(0))))
    pool = multiprocessing.get_context("fork").Pool(procs)
    try:
        rcs = pool.map(_dpkg_validates, strings, chunksize=16)
    finally:
        pool.terminate()
        pool.join()
    bad = []
    accepted = 0
    for s, rc in zip(strings, rcs):
        verdict = classify(s)[0]
        body = s[s.index(":") + 1:] if ":" in s else s
        expect_ok = verdict is True and "0" <= body[:1] <= "9"
        accepted += rc == 0
        if (rc == 0) != expect_ok or rc is None:
            bad.append((s, verdict, rc))
    return {"tool": "dpkg --validate-version", "available": True, "strings": len(strings), "dpkg_accepts": accepted,
            "agree": len(strings) - len(bad), "disagreements": [repr(b) for b in bad[:5]]}
