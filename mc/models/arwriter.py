"""Independent writer for the common ar format (the model side of C06/C07).

Layout per member: 60-byte header (name[16] mtime[12] uid[6] gid[6] mode[8] size[10] magic "`\\n"),
the data, and one "\\n" pad byte if the size is odd.  GNU style terminates short names with "/",
BSD style pads them with blanks only.
"""
import os
import subprocess
import tempfile

MAGIC = b"!<arch>\n"


def header(name, size, mtime=0, owner=0, group=0, mode=0o100644, style="gnu"):
    nm = name.encode("utf-8") + (b"/" if style == "gnu" else b"")
    assert len(nm) <= 16
    h = (nm.ljust(16) + str(mtime).encode().ljust(12) + str(owner).encode().ljust(6) +
         str(group).encode().ljust(6) + ("%o" % mode).encode().ljust(8) + str(size).encode().ljust(10) + b"`\n")
    assert len(h) == 60, (len(h), h)
    return h


def build(members, style="gnu"):
    """members: list of (name, data[, mtime, owner, group])"""
    out = [MAGIC]
    for m in members:
        name, data = m[0], m[1]
        mtime, owner, group = (tuple(m[2:5]) + (0, 0, 0))[:3] if len(m) > 2 else (0, 0, 0)
        out.append(header(name, len(data), mtime, owner, group, style=style))
        out.append(data)
        if len(data) % 2:
            out.append(b"\n")
    return b"".join(out)


def crosscheck_with_binutils(members, style="gnu"):
    """Ask /usr/bin/ar what it sees in an archive written by build(); None if ar is not installed."""
    if not os.path.exists("/usr/bin/ar"):
        return None
    d = tempfile.mkdtemp(prefix="verif-ar-")
    try:
        p = os.path.join(d, "x.a")
        with open(p, "wb") as f:
            f.write(build(members, style))
        names = subprocess.run(["/usr/bin/ar", "t", p], capture_output=True, check=True).stdout.decode().split("\n")[:-1]
        ok = names == [m[0] for m in members]
        seen = {}
        for m in members:
            seen.setdefault(m[0], m[1])   # "ar p name" prints the first member of that name
        for n, data in seen.items():
            got = subprocess.run(["/usr/bin/ar", "p", p, n], capture_output=True, check=True).stdout
            ok = ok and got == data
        return ok
    finally:
        for f in os.listdir(d):
            os.unlink(os.path.join(d, f))
        os.rmdir(d)
