"""Independent ed-script model (the model side of C18 and C19).

Three plain pieces, none of which imports the code under test:

* ``hunks(a, b)``  - change hunks of a longest-common-subsequence diff of two line lists;
* ``diff(a, b)``   - the ed script for them, hunks emitted bottom-up exactly as ``diff -e`` does, so that
                     line numbers of earlier commands are not disturbed by later ones;
* ``apply(lines, script)`` - a small ed interpreter (``a``, ``c``, ``d`` only) used to self-check the two
                     functions above and to validate scripts obtained from ``/usr/bin/diff -e``.

Everything works on lists of ``str`` lines or on lists of ``bytes`` lines (``binary=True``).
Lines are complete lines including their ``"\\n"``.  A line that is exactly ``"."`` cannot be carried by an
ed script and is outside the domain of this model (``diff`` refuses it).
"""
import os
import subprocess
import tempfile

DIFF = "/usr/bin/diff"


class EdError(ValueError):
    """malformed command or unterminated text block"""


class EdAddressError(EdError):
    """well-formed command whose addresses do not fit the buffer (a semantic error)"""


# ------------------------------------------------------------------------------------------------ diff

def hunks(a, b):
    """-> list of (i1, i2, j1, j2), ascending: a[i1:i2] is replaced by b[j1:j2]; never both empty"""
    n, m = len(a), len(b)
    t = [[0] * (m + 1) for _ in range(n + 1)]
    for i in range(n - 1, -1, -1):
        for j in range(m - 1, -1, -1):
            if a[i] == b[j]:
                t[i][j] = t[i + 1][j + 1] + 1
            else:
                t[i][j] = max(t[i + 1][j], t[i][j + 1])
    out = []
    cur = None
    i = j = 0
    while i < n or j < m:
        if i < n and j < m and a[i] == b[j]:
            if cur is not None:
                out.append(tuple(cur))
                cur = None
            i += 1
            j += 1
            continue
        if cur is None:
            cur = [i, i, j, j]
        if j < m and (i >= n or t[i][j + 1] >= t[i + 1][j]):
            j += 1
            cur[3] = j
        else:
            i += 1
            cur[1] = i
    if cur is not None:
        out.append(tuple(cur))
    return out


def command_form(i1, i2, j1, j2):
    """classification of the command a hunk becomes: a0 a | c1 cN | d1 dN"""
    if i1 == i2:
        return "a0" if i1 == 0 else "a"
    kind = "d" if j1 == j2 else "c"
    return kind + ("1" if i2 - i1 == 1 else "N")


def diff(a, b, binary=False):
    """ed script (list of lines) turning a into b; hunks bottom-up"""
    dot = b"." if binary else "."
    nl = b"\n" if binary else "\n"
    for l in list(a) + list(b):
        if l == dot + nl or l == dot:
            raise EdError("a line that is exactly '.' cannot be carried by an ed script")
    out = []
    for i1, i2, j1, j2 in reversed(hunks(a, b)):
        if i1 == i2:
            cmd = "%da" % i1
        else:
            addr = "%d" % (i1 + 1) if i2 == i1 + 1 else "%d,%d" % (i1 + 1, i2)
            cmd = addr + ("d" if j1 == j2 else "c")
        cmd += "\n"
        out.append(cmd.encode("ascii") if binary else cmd)
        if j1 != j2:
            out.extend(b[j1:j2])
            out.append(dot + nl)
    return out


# ------------------------------------------------------------------------------------------------ ed

def parse_command(line):
    """'N[,M]{a|c|d}' with an optional final newline -> (first, last or None, cmd letter as str)"""
    if isinstance(line, bytes):
        try:
            line = line.decode("ascii")
        except UnicodeDecodeError:
            raise EdError("invalid command %r" % (line,))
    if line.endswith("\n"):
        line = line[:-1]
    pos = 0
    while pos < len(line) and line[pos] in "0123456789":
        pos += 1
    if pos == 0:
        raise EdError("invalid command %r" % (line,))
    first = int(line[:pos])
    last = None
    if pos < len(line) and line[pos] == ",":
        start = pos + 1
        pos = start
        while pos < len(line) and line[pos] in "0123456789":
            pos += 1
        if pos == start:
            raise EdError("invalid command %r" % (line,))
        last = int(line[start:pos])
    if pos != len(line) - 1 or line[pos] not in "acd":
        raise EdError("invalid command %r" % (line,))
    cmd = line[pos]
    if cmd == "a" and last is not None:
        raise EdError("'a' takes one address: %r" % (line,))
    return first, last, cmd


def split_commands(script):
    """-> list of (pos, end, form): script[pos] is a command line, script[pos+1:end] its text lines and
    script[end] the terminator (end == pos for d).  The script must be well formed."""
    out = []
    i = 0
    while i < len(script):
        first, last, cmd = parse_command(script[i])
        pos = i
        if cmd in "ac":
            i += 1
            while i < len(script) and script[i] not in (".\n", ".", b".\n", b"."):
                i += 1
            if i >= len(script):
                raise EdError("unterminated text block")
        if cmd == "a":
            form = "a0" if first == 0 else "a"
        else:
            form = cmd + ("1" if last is None or last == first else "N")
        out.append((pos, i, form))
        i += 1
    return out


def apply_command(buf, first, last, cmd, text):
    if cmd == "a":
        if not 0 <= first <= len(buf):
            raise EdAddressError("address out of range")
        buf[first:first] = text
        return
    if last is None:
        last = first
    if not 1 <= first <= last <= len(buf):
        raise EdAddressError("address out of range")
    buf[first - 1:last] = text if cmd == "c" else []


def apply(lines, script, trace=None):
    """-> the new list of lines.  EdError for a malformed command or an unterminated text block.
    If trace is a list, the buffer after every command is appended to it."""
    buf = list(lines)
    i = 0
    while i < len(script):
        first, last, cmd = parse_command(script[i])
        i += 1
        text = []
        if cmd in "ac":
            while True:
                if i >= len(script):
                    raise EdError("end of script inside a text block")
                l = script[i]
                i += 1
                if l in (".\n", ".", b".\n", b"."):
                    break
                text.append(l)
        apply_command(buf, first, last, cmd, text)
        if trace is not None:
            trace.append(list(buf))
    return buf


# ------------------------------------------------------------------------------------------------ diff -e

def have_diff():
    return os.path.exists(DIFF)


class DiffE(object):
    """Runs /usr/bin/diff -e; owns a scratch directory (close() removes it).

    ``scripts(pairs)`` compares two directories holding one file per pair in a single diff process (one
    process per pair costs 2 ms, which would dominate the whole check); diff then prints, for every pair
    of files that differ, the line ``diff -e A/name B/name`` followed by the script."""

    def __init__(self):
        # a memory file system when there is one: the scratch files are tiny, many and short-lived
        shm = "/dev/shm"
        base = shm if os.path.isdir(shm) and os.access(shm, os.W_OK | os.X_OK) else None
        self.dir = tempfile.mkdtemp(prefix="verif-ed-", dir=base)

    def scripts(self, pairs):
        """pairs: list of (a, b), lists of str lines -> list of scripts (lists of str lines)"""
        da = os.path.join(self.dir, "A")
        db = os.path.join(self.dir, "B")
        os.mkdir(da)
        os.mkdir(db)
        try:
            headers = {}
            for k, (a, b) in enumerate(pairs):
                name = "%06d" % k
                with open(os.path.join(da, name), "wb") as f:
                    f.write("".join(a).encode("utf-8"))
                with open(os.path.join(db, name), "wb") as f:
                    f.write("".join(b).encode("utf-8"))
                headers["diff -e %s/%s %s/%s\n" % (da, name, db, name)] = k
            r = subprocess.run([DIFF, "-e", da, db], stdout=subprocess.PIPE, stderr=subprocess.PIPE,
                               env={"LC_ALL": "C", "PATH": "/usr/bin:/bin"})
            if r.returncode not in (0, 1) or r.stderr:
                raise RuntimeError("diff -e failed: rc=%r %r" % (r.returncode, r.stderr))
            out = [[] for _ in pairs]
            cur = None
            for line in r.stdout.decode("utf-8").split("\n")[:-1]:
                line += "\n"
                if line in headers:
                    cur = headers[line]
                elif cur is None:
                    raise RuntimeError("diff -e: unexpected output %r" % (line,))
                else:
                    out[cur].append(line)
            return out
        finally:
            for d in (da, db):
                for f in os.listdir(d):
                    os.unlink(os.path.join(d, f))
                os.rmdir(d)

    def script(self, a, b):
        return self.scripts([(a, b)])[0]

    def close(self):
        os.rmdir(self.dir)


def all_lists(alphabet, maxlen):
    """all lists over the alphabet of length 0..maxlen, shortest first, then lexicographic by index"""
    out = [[]]
    level = [[]]
    for _ in range(maxlen):
        level = [l + [s] for l in level for s in alphabet]
        out.extend(level)
    return out


selfcheck_result = None


def selfcheck(maxlen=3, alphabet=("a\n", "b\n", "c\n"), diff_maxlen=None):
    """The model checks itself: apply(a, diff(a, b)) == b for every pair, str and bytes; where diff -e
    exists its script for every pair must also take a to b under apply().  Raises on any failure (a
    model that fails its self-check is a harness bug).  The summary is kept in ``selfcheck_result``."""
    global selfcheck_result
    lists = all_lists(list(alphabet), maxlen)
    pairs = 0
    for a in lists:
        ab = [x.encode("utf-8") for x in a]
        for b in lists:
            pairs += 1
            s = diff(a, b)
            if apply(a, s) != b:
                raise AssertionError("edscript self-check: %r -> %r via %r" % (a, b, s))
            bb = [x.encode("utf-8") for x in b]
            sb = diff(ab, bb, binary=True)
            if sb != [x.encode("utf-8") for x in s] or apply(ab, sb) != bb:
                raise AssertionError("edscript self-check (bytes): %r -> %r via %r" % (a, b, sb))
            # hunks are maximal and disjoint: no two adjacent, none empty
            hs = hunks(a, b)
            for k, h in enumerate(hs):
                assert h[0] < h[1] or h[2] < h[3]
                assert k == 0 or hs[k - 1][1] < h[0]
    res = {"pairs": pairs, "maxlen": maxlen, "model_script_applied_by_model_interpreter": pairs,
           "diff_e_available": have_diff()}
    if have_diff():
        if diff_maxlen is not None:
            lists = all_lists(list(alphabet), diff_maxlen)
            res["diff_e_maxlen"] = diff_maxlen
        d = DiffE()
        try:
            ps = [(a, b) for a in lists for b in lists]
            n = same = 0
            for (a, b), s in zip(ps, d.scripts(ps)):
                if apply(a, s) != b:
                    raise AssertionError("edscript self-check: diff -e script %r: %r -> %r" % (s, a, b))
                n += 1
                same += s == diff(a, b)
        finally:
            d.close()
        res["diff_e_scripts_applied_by_model_interpreter"] = n
        res["diff_e_scripts_textually_equal_to_model_script"] = same
    # the interpreter rejects what it must
    for bad in (["x\n"], ["1z\n"], ["1,a\n"], ["a\n"], ["-1d\n"], ["1 d\n"], ["1,2a\n", ".\n"], ["0a\n"], ["0a\n", "x\n"],
                ["1c\n", "x\n"]):
        try:
            apply(["a\n", "b\n"], bad)
        except EdAddressError:
            raise AssertionError("edscript self-check: %r is a syntax error, not an address error" % (bad,))
        except EdError:
            continue
        raise AssertionError("edscript self-check: interpreter accepted %r" % (bad,))
    res["malformed_scripts_rejected_by_model_interpreter"] = 10
    selfcheck_result = res
    return res
