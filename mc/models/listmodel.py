"""Reference model for C09: an ordered, case-insensitive, case-preserving mapping kept as a plain list.

The whole state is ``self.items``: a list of ``[spelling, value]`` in order.  Two keys are the same key
when their ``lower()`` is equal.  The spelling stored is that of the insertion that created the entry;
assigning through another spelling only replaces the value.  Every operation is a linear scan, on
purpose: nothing here resembles a hash table or a linked list.

Missing keys raise ``KeyError``; re-ordering a key relative to itself raises ``ValueError`` when the key
is present and ``SelfRelativeMissing`` (the statement names both errors for that call) when it is not.
In every error case the model is unchanged.
"""


class SelfRelativeMissing(Exception):
    """order_before(k, k) / order_after(k, k) with k absent: KeyError and ValueError both fit the statement"""


class ListModel(object):

    def __init__(self, pairs=()):
        self.items = []
        for k, v in pairs:
            self.set(k, v)

    # ---- helpers
    def find(self, key):
        low = key.lower()
        for i, (s, _v) in enumerate(self.items):
            if s.lower() == low:
                return i
        return None

    def need(self, key):
        i = self.find(key)
        if i is None:
            raise KeyError(key)
        return i

    # ---- mapping
    def set(self, key, value):
        i = self.find(key)
        if i is None:
            self.items.append([key, value])
        else:
            self.items[i][1] = value

    def get(self, key):
        return self.items[self.need(key)][1]

    def delete(self, key):
        del self.items[self.need(key)]

    def contains(self, key):
        return self.find(key) is not None

    def length(self):
        return len(self.items)

    def keys(self):
        return [s for s, _v in self.items]

    # ---- re-ordering
    def order_first(self, key):
        self.items.insert(0, self.items.pop(self.need(key)))

    def order_last(self, key):
        self.items.append(self.items.pop(self.need(key)))

    def _relative(self, key, ref, after):
        if key.lower() == ref.lower():
            if self.find(key) is None:
                raise SelfRelativeMissing(key)
            raise ValueError("cannot re-order a key relative to itself")
        i = self.need(key)
        self.need(ref)
        entry = self.items.pop(i)
        j = self.need(ref)
        self.items.insert(j + 1 if after else j, entry)

    def order_before(self, key, ref):
        self._relative(key, ref, False)

    def order_after(self, key, ref):
        self._relative(key, ref, True)

    def sort_fields(self):
        self.items.sort(key=lambda e: e[0].lower())

    def sort_by(self, keyfn):
        """sort_fields(key=f): Python's sort is stable, so entries whose keys tie keep their current order"""
        self.items.sort(key=lambda e: keyfn(e[0]))

    # ---- whole-object operations
    def copy(self):
        return ListModel([(s, v) for s, v in self.items])

    def dump(self):
        """deb822 text of single-line, non-empty values: one 'Key: value' line per entry"""
        return "".join("%s: %s\n" % (s, v) for s, v in self.items)

    def reparsed(self):
        """what reading dump() back gives: the same entries, inserted in order"""
        return ListModel([(s, v) for s, v in self.items])

    def canon(self):
        return tuple((s, v) for s, v in self.items)
