"""Reference model of dpkg's version ordering (the model side of C03).  Does not import ``debian``.

Two independent formulations of the same order:

* ``compare`` - a line-by-line transliteration of ``order()``, ``verrevcmp()`` and
  ``dpkg_version_compare()`` from dpkg ``lib/dpkg/version.c`` (character pointers become indexes, the
  terminating NUL becomes "index == len");
* ``key`` - a sort key (nested tuples of ints) whose ordinary tuple order is that order.  A total order
  given by a key is transitive and antisymmetric by construction.

``split`` is dpkg's ``parseversion()`` splitting rule: epoch = the digits before the *first* colon,
revision = what follows the *last* hyphen.

``crosscheck_dpkg`` compares ``compare`` with the installed ``dpkg --compare-versions`` (optional).
"""
import os
import subprocess


def is_digit(c):
    """c_isdigit(): ASCII digits only; "" stands for the terminating NUL."""
    return len(c) == 1 and "0" <= c <= "9"


def is_alpha(c):
    return len(c) == 1 and ("a" <= c <= "z" or "A" <= c <= "Z")


def order(c):
    if is_digit(c):
        return 0
    elif is_alpha(c):
        return ord(c)
    elif c == "~":
        return -1
    elif c:
        return ord(c) + 256
    else:
        return 0


def _at(s, i):
    return s[i] if i < len(s) else ""


def verrevcmp(a, b):
    """-> (difference as in C: <0, 0, >0, reason).  reason names the rule that decided."""
    i = j = 0
    while _at(a, i) or _at(b, j):
        first_diff = 0
        while (_at(a, i) and not is_digit(_at(a, i))) or (_at(b, j) and not is_digit(_at(b, j))):
            ca, cb = _at(a, i), _at(b, j)
            ac = order(ca)
            bc = order(cb)
            if ac != bc:
                return ac - bc, _why(ca, cb)
            i += 1
            j += 1
        while _at(a, i) == "0":
            i += 1
        while _at(b, j) == "0":
            j += 1
        while is_digit(_at(a, i)) and is_digit(_at(b, j)):
            if not first_diff:
                first_diff = ord(a[i]) - ord(b[j])
            i += 1
            j += 1
        if is_digit(_at(a, i)):
            return 1, "number"
        if is_digit(_at(b, j)):
            return -1, "number"
        if first_diff:
            return first_diff, "number"
    return 0, "same"


def _kind(c):
    if c == "":
        return "end"
    if is_digit(c):
        return "digit"
    if is_alpha(c):
        return "letter"
    if c == "~":
        return "tilde"
    return "other"


def _why(ca, cb):
    ka, kb = sorted((_kind(ca), _kind(cb)))
    return ka if ka == kb else ka + "-vs-" + kb


def split(s):
    """dpkg parseversion(): -> (epoch int, version, revision); ValueError where dpkg reports an error."""
    epoch = 0
    if ":" in s:
        e, s = s.split(":", 1)
        if not e or not all(is_digit(c) for c in e):
            raise ValueError("epoch in version is not number")
        if not s:
            raise ValueError("nothing after colon in version number")
        epoch = int(e)
    revision = ""
    if "-" in s:
        s, revision = s.rsplit("-", 1)
        if not revision:
            raise ValueError("revision number cannot be empty")
    if not s:
        raise ValueError("version number cannot be empty")
    return epoch, s, revision


def sign(n):
    return (n > 0) - (n < 0)


def explain(a, b):
    """dpkg_version_compare() -> (sign, deciding component, rule)"""
    ea, va, ra = split(a)
    eb, vb, rb = split(b)
    if ea > eb:
        return 1, "epoch", "number"
    if ea < eb:
        return -1, "epoch", "number"
    rc, why = verrevcmp(va, vb)
    if rc:
        return sign(rc), "upstream", why
    rc, why = verrevcmp(ra, rb)
    if rc:
        return sign(rc), "revision", why
    return 0, "equal", "same"


def compare(a, b):
    return explain(a, b)[0]


# ------------------------------------------------------------------------------------------------
# key-based formulation

_END = ((0,), 0)


def part_key(s):
    """A part is read as (non-digit run, number) pairs; a missing number is 0, the run is the tuple of
    order() values closed by 0 (what a digit or the end of the string counts as).  The first pair may
    have an empty run, later ones cannot, so the closing pair ((0,), 0) - "nothing left" - never ties
    with a real pair in the middle of another key and plain tuple comparison is the padded comparison."""
    pairs = []
    i, n = 0, len(s)
    while True:
        run = []
        while i < n and not is_digit(s[i]):
            run.append(order(s[i]))
            i += 1
        run.append(0)
        num = 0
        while i < n and is_digit(s[i]):
            num = num * 10 + (ord(s[i]) - 48)
            i += 1
        pairs.append((tuple(run), num))
        if i >= n:
            break
    pairs.append(_END)
    return tuple(pairs)


def key(s):
    e, v, r = split(s)
    return (e, part_key(v), part_key(r))


def compare_by_key(a, b):
    ka, kb = key(a), key(b)
    return (ka > kb) - (ka < kb)


# ------------------------------------------------------------------------------------------------
# self checks

def internal_check(strings):
    """compare() and the key order agree on all ordered pairs of `strings` -> number of pairs checked."""
    keys = [key(s) for s in strings]
    n = 0
    for i, a in enumerate(strings):
        for j, b in enumerate(strings):
            c = compare(a, b)
            k = (keys[i] > keys[j]) - (keys[i] < keys[j])
            if c != k:
                raise AssertionError("dpkgver: compare(%r, %r) = %d but key order says %d" % (a, b, c, k))
            n += 1
    return n


DPKG = "/usr/bin/dpkg"


def dpkg_says(a, op, b):
    """True/False, or None when dpkg reports an error (exit status 2) or cannot be run."""
    try:
        rc = subprocess.run([DPKG, "--compare-versions", a, op, b], stdout=subprocess.DEVNULL,
                            stderr=subprocess.DEVNULL, env={"LC_ALL": "C", "PATH": "/usr/bin:/bin"}).returncode
    except OSError:
        return None
    return {0: True, 1: False}.get(rc)


_OPNAME = {-1: "lt", 0: "eq", 1: "gt"}
NEGATIVE_EVERY = 16


def _cross_one(p):
    k, a, b = p
    c = compare(a, b)
    yes = dpkg_says(a, _OPNAME[c], b)
    other, no = None, False
    if k % NEGATIVE_EVERY == 0:
        # negative control: a relation that must be false, rotating over the two others
        other = _OPNAME[(c + 2 + (k // NEGATIVE_EVERY) % 2) % 3 - 1]
        no = dpkg_says(a, other, b)
    return (a, b, c, yes, other, no)


def crosscheck_dpkg(strings, procs=16):
    """All ordered pairs of `strings`: dpkg must confirm the relation compare() predicts (lt, eq and gt
    are mutually exclusive, so this pins the sign) and, for every 16th pair, deny a different one.
    dpkg spawns cost ~0.5 ms each even in parallel here, so keep `strings` to a few dozen.
    -> dict for the evidence file.  A missing dpkg only drops the cross-check."""
    if not os.path.exists(DPKG):
        return {"tool": "dpkg --compare-versions", "available": False, "pairs": 0, "agree": 0, "disagreements": []}
    import multiprocessing
    pairs = [(k, a, b) for k, (a, b) in enumerate((a, b) for a in strings for b in strings)]
    procs = max(1, min(procs, len(os.sched_getaffinity(0))))
    pool = multiprocessing.get_context("fork").Pool(procs)
    try:
        res = pool.map(_cross_one, pairs, chunksize=64)
    finally:
        pool.terminate()
        pool.join()
    bad = [r for r in res if r[3] is not True or r[5] is not False]
    signs = {c: sum(1 for r in res if r[2] == c) for c in (-1, 0, 1)}
    return {"tool": "dpkg --compare-versions", "available": True, "strings": len(strings), "pairs": len(pairs),
            "negative_controls": sum(1 for r in res if r[4] is not None),
            "agree": len(pairs) - len(bad), "lt/eq/gt": [signs[-1], signs[0], signs[1]],
            "disagreements": [repr(r) for r in bad[:5]]}
