"""Independent builder for Debian binary packages (the model side of C07).

A .deb is an ar archive (written by mc.models.arwriter) with the members

    debian-binary            b"2.0\\n"
    control.tar[.gz|.bz2|.xz|.lzma]   tar of ./control, ./md5sums, ./preinst ... (members named "./name")
    data.tar[.gz|.bz2|.xz|.lzma]      tar of the file system tree           (members named "./path")

Everything here is plain standard library (tarfile, gzip, bz2, lzma); nothing is imported from the
code under test.  ``selfcheck()`` asks dpkg-deb (when installed) what it sees in packages written here.
"""
import bz2
import gzip
import hashlib
import io
import lzma
import os
import shutil
import subprocess
import tarfile
import tempfile

from . import arwriter

INFO = "debian-binary"
INFO_DATA = b"2.0\n"
COMPRESSIONS = ["none", "gz", "bz2", "xz", "lzma"]
EXT = {"none": "", "gz": ".gz", "bz2": ".bz2", "xz": ".xz", "lzma": ".lzma"}
SCRIPTS = ["preinst", "postinst", "prerm", "postrm", "config"]


def compress(data, kind):
    if kind == "none":
        return data
    if kind == "gz":
        return gzip.compress(data, mtime=0)
    if kind == "bz2":
        return bz2.compress(data)
    if kind == "xz":
        return lzma.compress(data, format=lzma.FORMAT_XZ)
    if kind == "lzma":
        return lzma.compress(data, format=lzma.FORMAT_ALONE)
    raise ValueError(kind)


def chain_bytes(n, label, prefix=b""):
    """n deterministic bytes no compressor can shrink: prefix + sha256(label), sha256 of that, ... (chained digests),
    cut to n bytes.  Nothing random: the same (n, label, prefix) always gives the same bytes."""
    out = [prefix]
    have = len(prefix)
    block = hashlib.sha256(b"verif/chain/" + label.encode("utf-8")).digest()
    while have < n:
        out.append(block)
        have += len(block)
        block = hashlib.sha256(block).digest()
    return b"".join(out)[:n]


def tar_bytes(files, with_dirs=True, with_root=True):
    """files: list of (relative name, bytes[, mode]).  Members are "./", the intermediate directories (each
    once, before their first use) and "./name" for every file, in the given order (GNU format, as dpkg-deb writes).
    with_root=False leaves the "./" entry out: with no files that is a tarball without any member (end-of-archive
    blocks only)."""
    bio = io.BytesIO()
    with tarfile.open(fileobj=bio, mode="w", format=tarfile.GNU_FORMAT) as t:
        if with_root:
            root = tarfile.TarInfo("./")
            root.type = tarfile.DIRTYPE
            root.mode = 0o755
            t.addfile(root)
        seen = set()
        for f in files:
            name, data = f[0], f[1]
            mode = f[2] if len(f) > 2 else 0o644
            parts = name.split("/")
            if with_dirs:
                for i in range(1, len(parts)):
                    d = "/".join(parts[:i])
                    if d not in seen:
                        seen.add(d)
                        ti = tarfile.TarInfo("./" + d + "/")
                        ti.type = tarfile.DIRTYPE
                        ti.mode = 0o755
                        t.addfile(ti)
            ti = tarfile.TarInfo("./" + name)
            ti.size = len(data)
            ti.mode = mode
            t.addfile(ti, io.BytesIO(data))
    return bio.getvalue()


def control_text(fields):
    """fields: list of (name, value); a multi-line value carries its continuation lines as "\\n " + text."""
    return "".join("%s: %s\n" % (k, v) if v else "%s:\n" % k for k, v in fields).encode("utf-8")


def md5sums_text(entries):
    """entries: list of (md5 hex, file name) -> the bytes of the md5sums control member ("md5  name\\n")."""
    return b"".join(m.encode("ascii") + b"  " + n.encode("utf-8") + b"\n" for m, n in entries)


def md5_of(data):
    return hashlib.md5(data).hexdigest()


def control_files(fields, scripts, md5_entries):
    """-> the (name, bytes, mode) list of the control tarball.  scripts: list of (name, bytes)."""
    out = [("control", control_text(fields), 0o644)]
    if md5_entries is not None:
        out.append(("md5sums", md5sums_text(md5_entries), 0o644))
    for n, d in scripts:
        out.append((n, d, 0o755))
    return out


def part_name(base, kind):
    return base + ".tar" + EXT[kind]


def assemble(members, style="bsd"):
    """members: list of (ar member name, bytes) in archive order -> bytes of the .deb.
    dpkg-deb writes blank-padded member names without the GNU "/" terminator ("control.tar.lzma" fills all 16 bytes)."""
    return arwriter.build([(n, d) for n, d in members], style)


def build(ctrl_files, data_files, cc="gz", dc="gz", order=(0, 1, 2)):
    """One well-formed package.  order is a permutation of (0=debian-binary, 1=control, 2=data)."""
    trio = [(INFO, INFO_DATA),
            (part_name("control", cc), compress(tar_bytes(ctrl_files, with_dirs=False), cc)),
            (part_name("data", dc), compress(tar_bytes(data_files), dc))]
    return assemble([trio[i] for i in order])


# ------------------------------------------------------------------------------------------------

def _dpkg_deb(*args):
    return subprocess.run(["dpkg-deb"] + list(args), capture_output=True, check=True).stdout


def selfcheck():
    """Cross-check the builder with dpkg-deb -I / -c / --fsys-tarfile.  Returns a small dict; never raises for a
    missing tool (the cross-check is then simply absent)."""
    if not shutil.which("dpkg-deb"):
        return {"dpkg-deb": "not installed, cross-check skipped"}
    fields = [("Package", "x"), ("Version", "1.0-1"), ("Architecture", "all"), ("Maintainer", "A B <a@b.c>"),
              ("Description", "short\n long line\n .\n more")]
    scripts = [("postinst", b"#!/bin/sh\nexit 0\n"), ("prerm", b"#!/bin/sh\n")]
    data = [("usr/bin/x", b"\x00\xff"), ("a b", b"text\n"), ("etc/\u00e9", b""), ("x", b"q")]
    md5 = [(md5_of(d), n) for n, d in data]
    ctrl = control_files(fields, scripts, md5)
    # dpkg-deb 1.21 reads control.tar{,.gz,.xz} and data.tar{,.gz,.bz2,.xz,.lzma} in the canonical member order
    combos = [(cc, dc) for cc in ("none", "gz", "xz") for dc in COMPRESSIONS]
    d = tempfile.mkdtemp(prefix="verif-deb-")
    agree = 0
    problems = []
    try:
        for cc, dc in combos:
            p = os.path.join(d, "p.deb")
            with open(p, "wb") as f:
                f.write(build(ctrl, data, cc, dc))
            try:
                ok = True
                for name, content, _mode in ctrl:
                    ok = ok and _dpkg_deb("-I", p, name) == content
                got_fields = _dpkg_deb("-f", p).decode("utf-8")
                ok = ok and got_fields == control_text(fields).decode("utf-8")
                listing = _dpkg_deb("-c", p).decode("utf-8").split("\n")[:-1]
                got = []
                for line in listing:
                    cols = line.split(None, 5)       # perms owner size date time name
                    if not cols[0].startswith("d"):
                        got.append((cols[5], int(cols[2])))
                ok = ok and got == [("./" + n, len(c)) for n, c in data]
                ok = ok and _dpkg_deb("--fsys-tarfile", p) == tar_bytes(data)
                ok = ok and _dpkg_deb("--ctrl-tarfile", p) == tar_bytes(ctrl, with_dirs=False)
            except (subprocess.CalledProcessError, ValueError, IndexError) as e:
                ok = False
                problems.append("%s/%s: %s" % (cc, dc, getattr(e, "stderr", b"") or e))
            if ok:
                agree += 1
            elif len(problems) < 3:
                problems.append("%s/%s: dpkg-deb disagrees" % (cc, dc))
        # and dpkg-deb must refuse a package without debian-binary
        p = os.path.join(d, "bad.deb")
        with open(p, "wb") as f:
            f.write(assemble([("control.tar.gz", compress(tar_bytes(ctrl, False), "gz")),
                              ("data.tar.gz", compress(tar_bytes(data), "gz"))]))
        refused = subprocess.run(["dpkg-deb", "-I", p], capture_output=True).returncode != 0
    finally:
        shutil.rmtree(d, ignore_errors=True)
    res = {"dpkg-deb -I/-f/-c/--fsys-tarfile/--ctrl-tarfile agree": "%d/%d compression pairs" % (agree, len(combos)),
           "dpkg-deb refuses missing debian-binary": refused}
    if problems:
        res["problems"] = problems
    return res


if __name__ == "__main__":
    print(selfcheck())
