"""./check <ID> <quick|thorough> | ./check <ID> --replay FILE | ./check --setup | ./check --list"""
import importlib
import os
import sys
import warnings


def main(argv):
    from . import core
    if not argv or argv[0] in ("-h", "--help"):
        print(__doc__)
        return 2
    if argv[0] == "--setup":
        core.install_repo_path()
        import json
        n = 0
        man = json.load(open(os.path.join(core.VERIF, "MANIFEST.json")))
        for c in man["checks"]:
            importlib.import_module("mc.props." + c["property_id"].lower())
            n += 1
        print("setup ok: %d check modules import; repo=%s" % (n, core.REPO))
        return 0
    pid = argv[0].upper()
    core.install_repo_path()
    warnings.simplefilter("ignore")
    mod = importlib.import_module("mc.props." + pid.lower())
    if len(argv) >= 3 and argv[1] == "--replay":
        return core.do_replay(mod, argv[2])
    tier = argv[1] if len(argv) > 1 else os.environ.get("VERIF_TIER", "quick")
    if tier not in ("quick", "thorough"):
        print(__doc__)
        return 2
    seed = int(os.environ.get("VERIF_SEED", "0") or 0)
    budget = os.environ.get("VERIF_BUDGET_S")
    budget = int(budget) if budget else (getattr(mod, "BUDGET", {}).get(tier))
    return core.run_check(mod, tier, seed, budget_s=budget)


if __name__ == "__main__":
    sys.exit(main(sys.argv[1:]))
