"""C09 - a Deb822 paragraph is an ordered, case-insensitive, case-preserving mapping under any history.

Engine A.  Reference: mc.models.listmodel.ListModel (a plain list of [spelling, value]).

* tree mode: every operation history up to depth d from each of three initial paragraphs (empty,
  dict-initialised, parsed from text), each history replayed from a fresh object with no observation
  before its end (so reads such as get / contains / len / iteration are only performed where the history
  contains them), then the complete projection is compared.  No abstraction argument is needed.
* graph mode: the abstract state space (the complete observable projection: keys with spelling, values,
  order) is closed on the model by BFS to fixpoint; every abstract state is rebuilt on a real object by
  replaying the BFS-shortest history reaching it, every operation is applied to it and the successor's
  complete projection must be the model's successor (so the implementation's abstract graph is verified
  edge by edge to be the model's graph), and a depth-2 tree is run from every abstract state: as pure
  histories like tree mode (both tiers) and, in the thorough tier, once more with the complete projection
  also read between the two operations.  Where shortest history + extension is no longer than the tree
  depth the case *is* a tree-mode history and is executed (and counted) there only.

After every checked step: exception class (KeyError for missing keys, ValueError for self-relative
re-ordering - object unchanged in both cases), result of get / contains / len / iteration, list(d),
d[k] and k in d for EVERY key of the alphabet (present or not), len(d), d.dump().
"""
import itertools

from .. import core
from ..models.listmodel import ListModel, SelfRelativeMissing

ID = "C09"
LEVEL = "model_checking"
RULE = ("states = distinct abstract states (ordered (spelling, value) lists) of the fixpoint, each rebuilt on a real "
        "object by its shortest history and compared; transitions = operation applications that were checked against the model (replayed prefixes not "
        "counted); traces = complete histories replayed from a fresh object (tree mode from the three initial "
        "paragraphs, and prefix + 1..2 operations from every abstract state); non-trivial = histories whose last "
        "operation changes the abstract state or takes an error path; other routes = the same operations reached through "
        "the other mapping methods (update / setdefault / pop / popitem / clear / get / keys / values / items / dict() / == "
        "/ get_as_string / str / bytes / dump(fd) / repr), keyword arguments of the re-ordering calls, further sort keys, "
        "copies made by the constructor, re-reading from bytes / lines / a file object / iter_paragraphs: every one "
        "applied in every abstract state (rebuilt by its shortest history, complete projection compared afterwards), "
        "depth-2 trees from the initial paragraphs mixing them with the operations of the big trees, the other kinds of "
        "initial paragraph, and paragraphs of the sub-classes; each such history counts as a transition and a trace")
BUDGET = {"quick": 240, "thorough": 3000}

TREE_DEPTH = {"quick": 2, "thorough": 3}
GRAPH_TREE_DEPTH = 2
# how the depth-2 trees from the abstract states are observed: "end" = nothing is read before the end of a
# history (every prefix is a history of its own, so every step is still observed); "every" = the complete
# projection is also read between the two operations
GRAPH_OBSERVE = {"quick": ["end"], "thorough": ["end", "every"]}
ITER_BOUND = 16          # a mapping over 3 case classes never has more than 3 keys


def alphabet(seed):
    keys = core.rep(seed, [("A", "a", "B", "b", "C"), ("X", "x", "Y", "y", "Z"),
                           ("Bar", "bAR", "Foo-Baz", "foo-baz", "Q"), ("K1", "k1", "K2", "k2", "K3")])
    vals = core.rep(seed, [("1", "2"), ("x", "y z"), ("é", "v"), ("1.0-1", "0")])
    return list(keys), list(vals)


def alphabet2():
    """a key whose lower-cased form has another length (U+0130 -> 'i' + U+0307): still one key in two spellings"""
    k = "\u0130d"
    return [k, k.lower(), "B", "b", "C"], ["1", "2"]


def inits(keys, vals):
    a, _a2, _b, b2, c = keys
    return [["empty", []],
            ["dict", [[a, vals[0]], [b2, vals[1]]]],
            ["text", [[a, vals[0]], [b2, vals[1]], [c, vals[0]]]]]


def extra_inits(keys, vals):
    """other ways a paragraph comes into being (tree mode only): the same name twice in the parsed text or in the
    sequence of pairs (the later value, the first spelling), other input forms, and paragraphs that pull their values
    from a backing paragraph (`_parsed`, with and without `fields`)"""
    a, a2, b, b2, c = keys
    dup = [[a, vals[0]], [b2, vals[1]], [a2, vals[1]]]
    three = [[a, vals[0]], [b2, vals[1]], [c, vals[0]]]
    return [["text", dup],
            ["text", [[a, vals[0]], [a, vals[1]], [b, vals[0]]]],
            ["lines", dup],
            ["bytes", dup],
            ["from-deb822", three],
            ["wrapped", three],
            ["wrapped", dup],
            ["wrapped-fields", [[c, vals[0]], [a2, vals[0]]]],
            ["wrapped-then-set", three]]


SORT_KEYS = {"len": len, "const": lambda k: 0, "lower": lambda k: k.lower(),
             "rlower": lambda k: [-ord(ch) for ch in k.lower()]}


def operations(keys, vals):
    ops = [("set", k, v) for k in keys for v in vals]
    ops += [("del", k) for k in keys]
    ops += [("get", k) for k in keys]
    ops += [("in", k) for k in keys]
    ops += [("len",), ("iter",), ("dump",)]
    ops += [("first", k) for k in keys]
    ops += [("last", k) for k in keys]
    ops += [("before", k, r) for k in keys for r in keys]
    ops += [("after", k, r) for k in keys for r in keys]
    ops += [("sort",), ("sortk", "len"), ("sortk", "const"), ("copy",), ("reparse",)]
    return ops


# ---- the same operations reached another way (the mapping methods a MutableMapping offers next to subscripting,
# keyword arguments, further ways of copying / dumping / re-reading).  They are not part of the big trees: every one
# is applied in every abstract state (rebuilt by its shortest history) and in depth-2 trees from the initial paragraphs
# mixed with the operations above, and must do what the model does for the equivalent operation.
CLASS_INITS = ["Packages", "Sources", "Dsc", "Changes", "BuildInfo", "Release", "PdiffIndex", "Removals"]
CLASS_INITS_DEPTH2 = ["Packages"]


def alt_operations(keys, vals):
    a, a2, b, b2, c = keys
    ops = [(t, k, v) for t in ("update-dict", "update-pairs", "update-kw", "setdefault") for k in keys for v in vals]
    ops += [("update-two", k, vals[0], k2, vals[1]) for k, k2 in ((a, a2), (a2, a), (a, b2), (c, b), (b, c), (b2, b2))]
    ops += [(t, k) for t in ("pop", "popd", "getd", "getdd", "gas", "in-keys", "first-kw", "last-kw") for k in keys]
    ops += [("popitem",), ("clear",), ("keys",), ("values",), ("items",), ("dictconv",), ("str",), ("bytes",), ("dumpfd",),
            ("dumpfdt",), ("repr",), ("eq",), ("eq-changed",), ("bool",)]
    ops += [(t, k, r) for t in ("before-kw", "after-kw") for k in keys for r in keys]
    ops += [("sort-none",), ("sortk", "lower"), ("sortk", "rlower")]
    ops += [("ctor-copy",), ("class-copy",), ("dict-copy",), ("deep-copy",)]
    ops += [("reparse-bytes",), ("reparse-lines",), ("reparse-fd",), ("reparse-iter",)]
    return ops


def tree_alt_operations(keys, vals):
    """the alternative routes used as a step of the depth-2 trees: all but the keyword forms of order_before / after
    for most key pairs (the positional forms are in the big trees; six pairs remain: different keys, the same key in
    one and in two spellings, an absent reference)"""
    a, a2, b, b2, c = keys
    keep = ((a, b2), (b2, a), (c, a2), (a, a), (a, a2), (b, c))
    return [op for op in alt_operations(keys, vals) if op[0] not in ("before-kw", "after-kw") or (op[1], op[2]) in keep]


RESULT_OPS = ("get", "in", "len", "iter", "dump", "setdefault", "pop", "popd", "popitem", "getd", "getdd", "gas", "in-keys",
              "keys", "values", "items", "dictconv", "str", "bytes", "dumpfd", "dumpfdt", "repr", "eq", "eq-changed", "bool")


def model_apply_alt(m, op):
    """the alternative routes in terms of the list model -> (model after, expected) or None if `op` is not one"""
    t = op[0]
    if t in ("update-dict", "update-pairs", "update-kw"):
        m.set(op[1], op[2])
    elif t == "update-two":
        m.set(op[1], op[2])
        m.set(op[3], op[4])
    elif t == "setdefault":
        if not m.contains(op[1]):
            m.set(op[1], op[2])
        return m, ("ok", m.get(op[1]))
    elif t == "pop":
        v = m.get(op[1])
        m.delete(op[1])
        return m, ("ok", v)
    elif t == "popd":
        if not m.contains(op[1]):
            return m, ("ok", None)
        v = m.get(op[1])
        m.delete(op[1])
        return m, ("ok", v)
    elif t == "popitem":
        # which pair goes is not part of the statement: op[1] is the name the implementation returned (None: it
        # returned something that is not a pair); it must be one of the paragraph's pairs, exactly as stored
        if m.length() == 0:
            raise KeyError("popitem on an empty paragraph")
        if op[1] is None or not m.contains(op[1]):
            return m, ("ok", "one of %r" % (m.canon(),))
        pair = (m.keys()[m.find(op[1])], m.get(op[1]))
        m.delete(op[1])
        return m, ("ok", pair)
    elif t == "clear":
        for k in m.keys():
            m.delete(k)
    elif t == "getd":
        return m, ("ok", m.get(op[1]) if m.contains(op[1]) else None)
    elif t == "getdd":
        return m, ("ok", m.get(op[1]) if m.contains(op[1]) else "dflt")
    elif t == "gas":
        return m, ("ok", m.get(op[1]))
    elif t == "in-keys":
        return m, ("ok", m.contains(op[1]))
    elif t == "keys":
        return m, ("ok", m.keys())
    elif t == "values":
        return m, ("ok", [v for _s, v in m.canon()])
    elif t in ("items", "dictconv"):
        return m, ("ok", [(s_, v) for s_, v in m.canon()])
    elif t in ("str", "bytes", "dumpfd", "dumpfdt"):
        return m, ("ok", m.dump())
    elif t == "repr":
        return m, ("ok", "{%s}" % ", ".join("%r: %r" % (s_, v) for s_, v in m.canon()))
    elif t == "eq":
        return m, ("ok", True)
    elif t == "eq-changed":
        return m, ("ok", False)
    elif t == "bool":
        return m, ("ok", m.length() > 0)
    elif t == "first-kw":
        m.order_first(op[1])
    elif t == "last-kw":
        m.order_last(op[1])
    elif t == "before-kw":
        m.order_before(op[1], op[2])
    elif t == "after-kw":
        m.order_after(op[1], op[2])
    elif t == "sort-none":
        m.sort_fields()
    elif t in ("ctor-copy", "class-copy", "dict-copy", "deep-copy"):
        m = m.copy()
    elif t in ("reparse-bytes", "reparse-lines", "reparse-fd", "reparse-iter"):
        m = m.reparsed()
    else:
        return None
    return m, ("ok", None)


def bounds(tier):
    return {"keys": "5 (two case-collision pairs + one single key)", "values": 2, "operations": 93,
            "operation_kinds": ["set", "del", "get", "in", "len", "iter", "dump", "first", "last", "before (25 pairs)",
                                "after (25 pairs)", "sort", "sort with tying keys (len, constant)", "copy", "reparse"],
            "initial_states": ["empty", "dict-initialised (2 keys)", "parsed from text (3 keys)"],
            "other_initial_states": "tree depth 1-2 from: " + ", ".join("%s %s" % (k, "/".join(n for n, _v in p)) for k, p in extra_inits(*alphabet(0))),
            "tree_depth": TREE_DEPTH[tier], "graph": "fixpoint of the abstract state space",
            "graph_tree_depth": GRAPH_TREE_DEPTH, "graph_tree_observation": GRAPH_OBSERVE[tier],
            "other_routes": {
                "operations": len(alt_operations(*alphabet(0))),
                "operation_kinds": sorted(set(op[0] + ("/" + op[1] if op[0] == "sortk" else "") for op in alt_operations(*alphabet(0)))),
                "in_every_abstract_state": "each of them as one further step after the state's shortest history",
                "trees_depth_2": ("route then operation from the three initial paragraphs; route then route from the parsed one"
                                  if tier == "quick" else
                                  "route then operation, operation then route, route then route from the three initial "
                                  "paragraphs, the other initial paragraphs and the length-changing alphabet") +
                                 " (%d routes: the keyword forms of order_before / order_after for six key pairs only)"
                                 % len(tree_alt_operations(*alphabet(0))),
                "other_initial_paragraphs": "each route as the first step from the other kinds of initial paragraph and from "
                                            "the initial paragraphs over the length-changing alphabet",
                "sub_classes": "a 3-field paragraph parsed by %s: every operation and every route as first step; depth-2 "
                               "tree of operations for %s" % (CLASS_INITS, CLASS_INITS_DEPTH2 if tier == "quick" else CLASS_INITS)},
            "deep_narrow_histories": {
                "what": "beyond 3 keys / depth 3: abstract operations resolved against the state (a NEW name that sorts "
                        "first / last / in the middle, the name deleted last in its other spelling, delete by position, "
                        "sort, move, copy, switch to the paragraph left behind (cyclic, up to 4 live paragraphs), a refused "
                        "delete, re-parse), every history of every length up to the depth, each replayed on fresh objects, "
                        "complete projection of EVERY live paragraph compared after the last step over every name the "
                        "history used (both spellings)",
                "families": [{"name": f, "operations": o, "depth": d,
                              "initial_paragraphs": ["empty" if w == 0 else "5 fields, unsorted, mixed case" for w in ws]}
                             for f, o, d, ws in deep_families(tier)],
                "histories_enumerated": sum(len(o) ** l for _f, o, d, ws in deep_families(tier) for _w in ws for l in range(1, d + 1)),
                "fields_per_paragraph": "up to 5 + depth", "deletions_per_history": "up to the depth (4, 5 and more in a row)",
                "not_executed": "histories with an operation that is not enabled where it is applied (nothing to delete, "
                                "nothing deleted yet, a single paragraph to switch from) are not cases"}}


def assumptions():
    return ["order_before(k, k) / order_after(k, k) with k absent may raise KeyError or ValueError (the statement names both)",
            "values are non-empty single-line strings without surrounding blanks (what a dump/parse cycle preserves)",
            "return values of assignments and re-ordering calls are not part of the statement",
            "copy() and dump/re-parse continue on the new object; the object left behind must keep the projection it had",
            "other routes: update / setdefault / pop / get / keys / values / items / clear / == are the MutableMapping "
            "counterparts of assignment, deletion and lookup and must agree with them; popitem() must return and remove "
            "one pair of the paragraph as stored (which one is not stated: the model removes the one returned); d == e is "
            "True for a paragraph built from the same pairs and False when a value differs or a field is added; repr() is "
            "the dict-style text of the (name, value) pairs in order",
            "copying = the copy() method, the copying constructors and copy.deepcopy(): the copy continues the history, "
            "the original keeps the projection it had; left out: copy.copy() (a shallow copy shares the key set with the "
            "original by Python's own rules)",
            "graph mode: two objects with equal complete projections have equal futures in the model; the depth-2 tree "
            "from the representative of every abstract state covers the first two steps of any implementation-only difference",
            "deep-narrow histories: field names are <letters><5 digits>, values v<step>; 'switch' only moves the harness's "
            "cursor between the live paragraphs (no library call); a paragraph left behind by copy() stays live and is edited "
            "again later, so independence of copies is checked in both directions; re-parse replaces the paragraph under "
            "the cursor; intermediate steps are checked for their outcome (exception class) only, every proper prefix "
            "being a history of the family with its own complete observation"]


# ------------------------------------------------------------------------------------------------ model side

def model_apply(m, op):
    """-> (model after, expected) ; expected = ('ok', result-or-None) | ('exc', frozenset of class names)"""
    t = op[0]
    try:
        alt = model_apply_alt(m, op)
        if alt is not None:
            return alt
        if t == "set":
            m.set(op[1], op[2])
        elif t == "del":
            m.delete(op[1])
        elif t == "get":
            return m, ("ok", m.get(op[1]))
        elif t == "in":
            return m, ("ok", m.contains(op[1]))
        elif t == "len":
            return m, ("ok", m.length())
        elif t == "iter":
            return m, ("ok", m.keys())
        elif t == "dump":
            return m, ("ok", m.dump())
        elif t == "first":
            m.order_first(op[1])
        elif t == "last":
            m.order_last(op[1])
        elif t == "before":
            m.order_before(op[1], op[2])
        elif t == "after":
            m.order_after(op[1], op[2])
        elif t == "sort":
            m.sort_fields()
        elif t == "sortk":
            m.sort_by(SORT_KEYS[op[1]])
        elif t == "copy":
            m = m.copy()
        elif t == "reparse":
            m = m.reparsed()
        else:
            raise AssertionError(op)
    except KeyError:
        return m, ("exc", frozenset(["KeyError"]))
    except ValueError:
        return m, ("exc", frozenset(["ValueError"]))
    except SelfRelativeMissing:
        return m, ("exc", frozenset(["KeyError", "ValueError"]))
    return m, ("ok", None)


def model_observe(m, keys):
    look = []
    for k in keys:
        look.append(m.get(k) if m.contains(k) else None)
    return (m.keys(), look, [m.contains(k) for k in keys], m.length(), m.dump())


# The model is a function of (abstract state, operation); both memo tables only avoid recomputing it (they
# are filled by calling the functions above on a ListModel, and inherited by the forked workers).
_STEP = {}
_OBS = {}


def model_step(canon, op):
    """(abstract state, op) -> (abstract state after, expected)"""
    r = _STEP.get((canon, op))
    if r is None:
        m, expected = model_apply(ListModel(canon), op)
        r = _STEP[(canon, op)] = (m.canon(), expected)
    return r


def model_obs(canon, keys):
    r = _OBS.get((canon, keys[0]))
    if r is None:
        r = _OBS[(canon, keys[0])] = model_observe(ListModel(canon), keys)
    return r


# ------------------------------------------------------------------------------------------------ real side

def build(init):
    from debian.deb822 import Deb822
    kind, pairs = init
    if kind == "empty":
        return Deb822()
    if kind == "dict":
        return Deb822(dict((k, v) for k, v in pairs))
    text = "".join("%s: %s\n" % (k, v) for k, v in pairs)
    if kind == "text":
        return Deb822(text)
    if kind.startswith("class:"):
        import debian.deb822
        return getattr(debian.deb822, kind[6:])(text)
    if kind == "lines":
        return Deb822(text.splitlines())
    if kind == "bytes":
        return Deb822(text.encode("utf-8"))
    if kind == "from-deb822":
        return Deb822(Deb822(text))
    if kind == "wrapped":
        return Deb822(_parsed=Deb822(text))
    if kind == "wrapped-fields":
        # the backing paragraph spells and orders the fields differently and has one more
        back = Deb822("".join("%s: %s\n" % (k.swapcase(), v) for k, v in reversed(pairs)) + "Hidden-Field: h\n")
        return Deb822(_parsed=back, fields=[k for k, _v in pairs] + ["Not-There"])
    if kind == "wrapped-then-set":
        # every field but the first is assigned again on the wrapping paragraph
        d = Deb822(_parsed=Deb822(text))
        for k, v in pairs[1:]:
            d[k] = v
        return d
    raise AssertionError(init)


def real_apply(d, op):
    """-> (object after, observed) ; observed = ('ok', result-or-None) | ('exc', class name, text)"""
    from debian.deb822 import Deb822
    t = op[0]
    res = None
    try:
        if t == "set":
            d[op[1]] = op[2]
        elif t == "del":
            del d[op[1]]
        elif t == "get":
            res = d[op[1]]
        elif t == "in":
            res = op[1] in d
        elif t == "len":
            res = len(d)
        elif t == "iter":
            res = list(itertools.islice(iter(d), ITER_BOUND))
        elif t == "dump":
            res = d.dump()        # an observation in the middle of a history (a dump cache would be filled here)
        elif t == "first":
            d.order_first(op[1])
        elif t == "last":
            d.order_last(op[1])
        elif t == "before":
            d.order_before(op[1], op[2])
        elif t == "after":
            d.order_after(op[1], op[2])
        elif t == "sort":
            d.sort_fields()
        elif t == "sortk":
            d.sort_fields(key=SORT_KEYS[op[1]])      # keys that tie: a stable sort keeps the current order
        elif t == "copy":
            d = d.copy()
        elif t == "reparse":
            d = Deb822(d.dump())
        else:
            d, res = real_apply_alt(d, op)
    except Exception as e:      # whatever the code under test raises is an observation
        return d, ("exc", type(e).__name__, str(e))
    return d, ("ok", res)


def real_apply_alt(d, op):
    """the alternative routes on the real object -> (object after, result)"""
    import io
    from debian.deb822 import Deb822
    t = op[0]
    res = None
    if t == "update-dict":
        d.update({op[1]: op[2]})
    elif t == "update-pairs":
        d.update([(op[1], op[2])])
    elif t == "update-kw":
        d.update(**{op[1]: op[2]})
    elif t == "update-two":
        d.update(iter([(op[1], op[2]), (op[3], op[4])]))
    elif t == "setdefault":
        res = d.setdefault(op[1], op[2])
    elif t == "pop":
        res = d.pop(op[1])
    elif t == "popd":
        res = d.pop(op[1], None)
    elif t == "popitem":
        res = d.popitem()
    elif t == "clear":
        d.clear()
    elif t == "getd":
        res = d.get(op[1])
    elif t == "getdd":
        res = d.get(op[1], "dflt")
    elif t == "gas":
        res = d.get_as_string(op[1])
    elif t == "in-keys":
        res = op[1] in d.keys()
    elif t == "keys":
        res = list(itertools.islice(iter(d.keys()), ITER_BOUND))
    elif t == "values":
        res = list(itertools.islice(iter(d.values()), ITER_BOUND))
    elif t == "items":
        res = list(itertools.islice(iter(d.items()), ITER_BOUND))
    elif t == "dictconv":
        res = list(dict(d).items())
    elif t == "str":
        res = str(d)
    elif t == "bytes":
        res = bytes(d).decode("utf-8")
    elif t == "dumpfd":
        fd = io.BytesIO()
        d.dump(fd)
        res = fd.getvalue().decode("utf-8")
    elif t == "dumpfdt":
        fd = io.StringIO()
        d.dump(fd, text_mode=True)
        res = fd.getvalue()
    elif t == "repr":
        res = repr(d)
    elif t == "eq":
        other = Deb822(dict(d.items()))
        res = bool(d == other) and bool(other == d) and not (d != other)
    elif t == "eq-changed":
        # a paragraph that differs in one value, resp. has one more field, is not equal
        ks = list(d)
        other = Deb822(dict(d.items()))
        if ks:
            other[ks[-1]] = d[ks[-1]] + "x"
        else:
            other["Zz"] = "1"
        res = bool(d == other) or bool(other == d)
    elif t == "bool":
        res = bool(d)
    elif t == "first-kw":
        d.order_first(field=op[1])
    elif t == "last-kw":
        d.order_last(field=op[1])
    elif t == "before-kw":
        d.order_before(field=op[1], reference_field=op[2])
    elif t == "after-kw":
        d.order_after(reference_field=op[2], field=op[1])
    elif t == "sort-none":
        d.sort_fields(key=None)
    elif t == "ctor-copy":
        d = Deb822(d)
    elif t == "class-copy":
        d = type(d)(d)
    elif t == "dict-copy":
        d = Deb822(dict(d))
    elif t == "deep-copy":
        import copy
        d = copy.deepcopy(d)
    elif t == "reparse-bytes":
        d = Deb822(bytes(d))
    elif t == "reparse-lines":
        d = Deb822(str(d).splitlines())
    elif t == "reparse-fd":
        fd = io.BytesIO()
        d.dump(fd)
        fd.seek(0)
        d = Deb822(fd)
    elif t == "reparse-iter":
        ps = list(itertools.islice(Deb822.iter_paragraphs(d.dump()), 3))
        if len(ps) != (1 if len(d) else 0):
            raise AssertionError("iter_paragraphs(dump()) gives %d paragraphs" % len(ps))
        d = ps[0] if ps else Deb822()
    else:
        raise AssertionError(op)
    return d, res


def real_observe(d, keys):
    """-> (projection, None) or (None, (what, expected, observed)) if observing itself goes wrong"""
    try:
        ks = list(itertools.islice(iter(d), ITER_BOUND))
        if len(ks) >= ITER_BOUND:
            return None, ("keys/unbounded-iteration", "at most 3 keys", ks)
        look = []
        for k in keys:
            try:
                look.append(d[k])
            except KeyError:
                look.append(None)
        cont = [k in d for k in keys]
        return (ks, look, cont, len(d), d.dump()), None
    except Exception as e:
        return None, ("observe-raises-" + type(e).__name__, "observations succeed", "%s: %s" % (type(e).__name__, e))


COMPONENTS = ("keys", "lookup", "contains", "len", "dump")


def compare(op, expected, observed, mobs, robs, rerr):
    """one checked step -> None or (sig, expected, observed)"""
    name = op[0] if op else "initial"
    after_error = "after-error/" if expected[0] == "exc" else ""
    if expected[0] == "exc":
        if observed[0] != "exc" or observed[1] not in expected[1]:
            return ("deb822/%s/exception" % name, "raises " + " or ".join(sorted(expected[1])),
                    "returned %r" % (observed[1],) if observed[0] == "ok" else "%s: %s" % observed[1:])
    else:
        if observed[0] == "exc":
            return ("deb822/%s/exception" % name, "no exception", "%s: %s" % observed[1:])
        if name in RESULT_OPS and observed[1] != expected[1]:
            return ("deb822/%s/result" % name, expected[1], observed[1])
    if rerr is not None:
        return ("deb822/%s/%s%s" % (name, after_error, rerr[0]), rerr[1], rerr[2])
    if mobs is None or mobs == robs:    # (None: a step inside an unobserved history, only its outcome is checked)
        return None
    for i, comp in enumerate(COMPONENTS):
        if mobs[i] != robs[i]:
            return ("deb822/%s/%s%s" % (name, after_error, comp), "%s = %r" % (comp, mobs[i]),
                    "%s = %r   (all: %r)" % (comp, robs[i], robs))
    return None


def execute(keys, init, prefix, hist, every, info=None):
    """Run one history on a fresh object, the model alongside.  -> list of (sig, expected, observed).

    ``prefix`` is replayed without any observation (its steps were checked as cases of their own); the steps
    of ``hist`` are checked: the outcome of every step, and the complete projection after every step
    (every=True) or after the last one only."""
    d = build(init)
    c = ListModel(init[1]).canon()
    left = []          # objects left behind by copy() / dump+re-parse, with the projection they had then
    for op in prefix:
        d0, c0 = d, c
        d, observed = real_apply(d, op)
        c, _ = model_step(c, resolve(op, observed))
        if d is not d0:
            left.append((op[0], d0, model_obs(c0, keys)))
    if not hist:
        robs, rerr = real_observe(d, keys)
        bad = compare(None, ("ok", None), ("ok", None), model_obs(c, keys), robs, rerr)
        return [bad] if bad else []
    n = len(hist)
    for i, op in enumerate(hist):
        before = c
        d0 = d
        d, observed = real_apply(d, op)
        c, expected = model_step(c, resolve(op, observed))
        if d is not d0:
            left.append((op[0], d0, model_obs(before, keys)))
        if i == n - 1:
            robs, rerr = real_observe(d, keys)
            bad = compare(op, expected, observed, model_obs(c, keys), robs, rerr)
            if not bad:
                # the paragraphs left behind by copy() / re-parse are independent objects: still what they were
                for how, obj, mobs in left:
                    lobs, lerr = real_observe(obj, keys)
                    if lerr is not None or lobs != mobs:
                        bad = ("deb822/%s/original-changed-by-later-operations" % how, mobs, lerr or lobs)
                        break
        elif every:
            robs, rerr = real_observe(d, keys)
            bad = compare(op, expected, observed, model_obs(c, keys), robs, rerr)
        else:
            bad = compare(op, expected, observed, None, None, None)
        if bad:
            return [bad]
    if info is not None:
        info["outcome"] = op[0] + ":" + ("/".join(sorted(expected[1])) if expected[0] == "exc" else
                                         ("changed" if c != before else "unchanged"))
        info["nontrivial"] = expected[0] == "exc" or c != before
    return []


def resolve(op, observed):
    """popitem: the model is told which name the implementation returned"""
    if op[0] != "popitem":
        return op
    r = observed[1] if observed[0] == "ok" else None
    return ("popitem", r[0] if isinstance(r, tuple) and len(r) == 2 and isinstance(r[0], str) else None)


def _ops(l):
    return [tuple(op) for op in l]


def exec_case(case, info=None):
    """case = {keys, init, prefix, history, observe ('end' | 'every')}"""
    return execute(case["keys"], case["init"], _ops(case["prefix"]), _ops(case["history"]),
                   case["observe"] == "every", info)


# ------------------------------------------------------------------------------------------------ exploration

def abstract_states(keys, vals):
    """BFS on the model to fixpoint -> list of (canon, init index, shortest history), discovery order; depth"""
    ops = operations(keys, vals)
    seen = {}
    order = []
    frontier = []
    for i, init in enumerate(inits(keys, vals)):
        c = ListModel(init[1]).canon()
        if c not in seen:
            seen[c] = (i, [])
            order.append(c)
            frontier.append(c)
    depth = 0
    while frontier:
        nxt = []
        for c in frontier:
            i, h = seen[c]
            for op in ops:
                c2, _exp = model_step(c, op)
                if c2 not in seen:
                    seen[c2] = (i, h + [op])
                    order.append(c2)
                    nxt.append(c2)
        frontier = nxt
        if nxt:
            depth += 1
    return [(c, seen[c][0], seen[c][1]) for c in order], depth


_REPS = {}


def representatives(seed):
    """{(init index, shortest history)} of all abstract states; computed once per process"""
    if seed not in _REPS:
        keys, vals = alphabet(seed)
        _REPS[seed] = set((i, tuple(h)) for _c, i, h in abstract_states(keys, vals)[0])
    return _REPS[seed]


def units(tier, seed):
    """Every unit covers the histories of exactly one length (``level``) from one start state, so that the
    canonical order of units is simplest-first: shorter histories before longer ones, initial paragraphs before
    abstract states reached later."""
    keys, vals = alphabet(seed)
    nops = len(operations(keys, vals))
    states, _depth = abstract_states(keys, vals)
    out = []

    def tree(level):
        for i in range(3):
            for f in ([None] if level == 1 else range(nops)):
                out.append({"mode": "tree", "init": i, "prefix": [], "first": f, "level": level, "observe": "end"})

    def graph(level, observe):
        for n, (c, i, h) in enumerate(states):
            if observe == "end" and len(h) + level <= TREE_DEPTH[tier]:
                continue        # shortest history + extension is a tree-mode history from the same initial paragraph
            out.append({"mode": "graph", "state": n, "init": i, "prefix": list(h), "first": None, "level": level,
                        "observe": observe})
    tree(1)
    graph(1, "end")
    tree(2)
    graph(2, "end")
    for level in range(3, TREE_DEPTH[tier] + 1):
        tree(level)
    for observe in GRAPH_OBSERVE[tier][1:]:
        graph(2, observe)
    # the same tree (depth 1-2) from the other kinds of initial paragraph
    for level in (1, 2):
        for i in range(len(extra_inits(keys, vals))):
            for f in ([None] if level == 1 else range(nops)):
                out.append({"mode": "tree", "init": i, "prefix": [], "first": f, "level": level, "observe": "end",
                            "xinit": True})
    # the same tree (depth 1-2) over the alphabet with the length-changing case pair
    nops2 = len(operations(*alphabet2()))
    for level in (1, 2):
        for i in range(3):
            for f in ([None] if level == 1 else range(nops2)):
                out.append({"mode": "tree", "init": i, "prefix": [], "first": f, "level": level, "observe": "end",
                            "alt": True})
    out += route_units(tier, keys, vals, len(states))
    out += deep_units(tier)
    return out


ROUTE_STATE_CHUNK = 24
ROUTE_FIRST_CHUNK = 32


def route_units(tier, keys, vals, nstates):
    """the alternative routes: (state) every one applied in every abstract state; (alt-op / op-alt / alt-alt) depth-2
    trees from the initial paragraphs that mix them with the operations of the big trees; (other-inits) every one
    applied to the other kinds of initial paragraph; (class) paragraphs of the sub-classes"""
    nops, nalt = len(operations(keys, vals)), len(tree_alt_operations(keys, vals))
    out = [{"mode": "routes", "shape": "state", "lo": lo, "hi": min(nstates, lo + ROUTE_STATE_CHUNK)}
           for lo in range(0, nstates, ROUTE_STATE_CHUNK)]
    for start in route_tree_starts(tier, keys, vals):
        for shape in route_tree_shapes(tier, start):
            nfirst = nops if shape == "op-alt" else nalt
            out += [dict(start, mode="routes", shape=shape, lo=lo, hi=min(nfirst, lo + ROUTE_FIRST_CHUNK))
                    for lo in range(0, nfirst, ROUTE_FIRST_CHUNK)]
    out.append({"mode": "routes", "shape": "other-inits"})
    out += [{"mode": "routes", "shape": "class", "cls": cname} for cname in CLASS_INITS]
    return out


def route_tree_shapes(tier, start):
    """quick: route then operation from the three initial paragraphs, route then route from the parsed one;
    thorough: also operation then route, all three shapes from every start"""
    if tier != "quick":
        return ("alt-op", "op-alt", "alt-alt")
    return ("alt-op", "alt-alt") if start["init"] == 2 else ("alt-op",)


def route_tree_starts(tier, keys, vals):
    starts = [{"init": i} for i in range(3)]
    if tier != "quick":
        starts += [{"init": i, "xinit": True} for i in range(len(extra_inits(keys, vals)))]
        starts += [{"init": i, "alt": True} for i in range(3)]
    return starts


def unit_cost(u, tier):
    if u["mode"] == "deep":
        return 4 * 12 ** (u["level"] - len(u["head"])) * u["level"]
    if u["mode"] == "routes":
        return {"state": 60000, "other-inits": 10000, "class": 80000}.get(u["shape"], 20000)
    n = 93 ** u["level"] if u["first"] is None else 93 ** (u["level"] - 1)
    return n * (3 + len(u["prefix"]) + u["level"] + (2 if u["observe"] == "every" else 0))


def run_routes(u, tier, seed):
    part = core.Part()
    keys, vals = alphabet2() if u.get("alt") else alphabet(seed)
    ops, alts = operations(keys, vals), alt_operations(keys, vals)
    applied = [0]

    def run(init, prefix, hist):
        info = {}
        bad = execute(keys, init, prefix, hist, False, info)
        part.transitions += 1
        part.traces += 1
        part.evaluations += 1
        part.max_depth = max(part.max_depth, len(prefix) + len(hist))
        applied[0] += len(prefix) + len(hist)
        case = {"keys": keys, "init": init, "prefix": list(prefix), "observe": "end", "history": list(hist)}
        for sig, exp, obs in bad:
            part.violation(sig, case, exp, obs)
        if bad:
            part.outcomes["VIOLATION:" + bad[0][0]] += 1
            return False
        part.outcomes[("route/" if any(op in alts for op in hist[-1:]) else "") + info["outcome"]] += 1
        part.nontrivial += bool(info["nontrivial"])
        if len(part.samples) < 2 and hist[-1] == alts[-1]:
            part.sample(case)
        return True

    def tree(init, firsts, seconds):
        for f in firsts:
            if execute(keys, init, [], [f], False):
                continue        # a failing first step is a case of a depth-1 unit and is not extended
            for g in seconds:
                run(init, [], [f, g])

    shape = u["shape"]
    if shape == "state":
        states, _depth = abstract_states(keys, vals)
        ii = inits(keys, vals)
        for _c, i, h in states[u["lo"]:u["hi"]]:
            prefix = _ops(h)
            if execute(keys, ii[i], prefix, [], False):
                continue        # the state cannot be rebuilt: reported by the unit that owns its shortest history
            for a in alts:
                run(ii[i], prefix, [a])
    elif shape in ("alt-op", "op-alt", "alt-alt"):
        init = (extra_inits if u.get("xinit") else inits)(keys, vals)[u["init"]]
        talts = tree_alt_operations(keys, vals)
        firsts = (ops if shape == "op-alt" else talts)[u["lo"]:u["hi"]]
        tree(init, firsts, ops if shape == "alt-op" else talts)
    elif shape == "other-inits":
        for init in extra_inits(keys, vals):
            for a in alts:
                run(init, [], [a])
        k2, v2 = alphabet2()
        keys, vals = k2, v2
        ops, alts = operations(keys, vals), alt_operations(keys, vals)
        for init in inits(keys, vals):
            for a in alts:
                run(init, [], [a])
    else:
        # a paragraph of a sub-class is a Deb822 paragraph: the fields of the alphabet mean nothing special to any of them
        init = ["class:" + u["cls"], inits(keys, vals)[2][1]]
        if not execute(keys, init, [], [], False):
            for a in ops + alts:
                run(init, [], [a])
            if u["cls"] in CLASS_INITS_DEPTH2 or tier != "quick":
                tree(init, ops, ops)
        else:
            for sig, exp, obs in execute(keys, init, [], [], False):
                part.violation(sig, {"keys": keys, "init": init, "prefix": [], "observe": "end", "history": []}, exp, obs)
    part.extra["operation applications on real objects, replayed prefixes included"] += applied[0]
    part.extra["histories that use an alternative route or a sub-class paragraph"] += part.traces
    return part


def run_unit(u, tier, seed):
    if u["mode"] == "routes":
        return run_routes(u, tier, seed)
    if u["mode"] == "deep":
        return run_deep(u, tier, seed)
    part = core.Part()
    keys, vals = alphabet2() if u.get("alt") else alphabet(seed)
    ops = operations(keys, vals)
    init = (extra_inits if u.get("xinit") else inits)(keys, vals)[u["init"]]
    prefix = _ops(u["prefix"])
    level = u["level"]
    every = u["observe"] == "every"
    firsts = ops if u["first"] is None else [ops[u["first"]]]
    part.max_depth = len(prefix) + level
    base = {"keys": keys, "init": init, "prefix": prefix, "observe": u["observe"]}

    applied = [0]

    def run(hist):
        info = {}
        bad = execute(keys, init, prefix, hist, every, info)
        part.transitions += 1 if hist else 0
        part.traces += 1
        part.evaluations += 1
        applied[0] += len(prefix) + len(hist)
        for sig, exp, obs in bad:
            part.violation(sig, dict(base, history=list(hist)), exp, obs)
        if bad:
            part.outcomes["VIOLATION:" + bad[0][0]] += 1
            return False
        if hist:
            part.outcomes[info["outcome"]] += 1
            part.nontrivial += bool(info["nontrivial"])
        return True

    reps = representatives(seed) if not (u.get("alt") or u.get("xinit")) else set()
    if u["mode"] == "tree" and level == 1 or u["mode"] == "graph" and level == 1 and len(prefix) > TREE_DEPTH[tier]:
        # the start state itself: an initial paragraph, or an abstract state rebuilt by its shortest history (when
        # that history is short enough to be a tree-mode history the tree unit does this and counts the state)
        ok = run([])
        part.states += 1
    else:
        ok = not execute(keys, init, prefix, [], every)
    if not ok:      # reported where the shortest history is a case of its own; nothing is built on a bad state
        part.extra["operation applications on real objects, replayed prefixes included"] += applied[0]
        return part

    def rec(hist):
        for op in (firsts if not hist else ops):
            h2 = hist + [op]
            if len(h2) == level:
                if run(h2):
                    if u["mode"] == "tree" and (u["init"], tuple(h2)) in reps:
                        part.states += 1        # this history is the shortest one reaching its abstract state
                    if op == ops[-1] and len(part.samples) < 2:
                        part.sample(dict(base, history=list(h2)))
            elif not execute(keys, init, prefix, h2, every):
                rec(h2)         # a failing proper prefix is reported by the unit of its own length and not extended
    rec([])
    part.extra["operation applications on real objects, replayed prefixes included"] += applied[0]
    return part


# ------------------------------------------------------------------------------------------------ deep-narrow histories
# Beyond the small scope: a SMALL alphabet of state-changing operations over an unbounded supply of field names,
# explored exhaustively to depth 5 (quick) / 6 (thorough), on a *world* of live paragraphs: copy() adds a paragraph
# and continues on it, "switch" goes back to the paragraph left behind (cyclically), so two or three paragraphs
# are edited alternately.  The operations are named abstractly and resolved against the model state (the paragraph
# under the cursor), so that "a new name that sorts first" is well defined in every state:
#   add-first / add-last / add-mid   a NEW name that sorts before all / after all / in the middle of the present names
#   readd                            the name deleted last from this paragraph, in the other spelling
#   reset                            a new value for the first field, through the other spelling of its name
#   del-head / del-mid / del-tail    delete by position
#   sort                             sort_fields()
#   move                             order_last(first field)
#   copy / switch                    see above
#   refuse                           delete a name that is not there (KeyError, nothing changes)
#   reparse                          Deb822(d.dump()) replaces the paragraph under the cursor
# Every history is replayed from a fresh object; after its last step the COMPLETE projection of EVERY paragraph of
# the world is compared (every name ever used in the history, in both spellings, present or not).
DEEP_OPS = {"quick": ["add-first", "add-last", "readd", "del-head", "del-mid", "del-tail", "sort", "move", "copy",
                      "switch", "refuse"],
            "thorough": ["add-first", "add-last", "readd", "del-head", "del-mid", "del-tail", "sort", "move", "copy",
                         "switch", "refuse"]}
DEEP_WIDE_OPS = ["add-first", "add-last", "add-mid", "readd", "reset", "del-head", "del-mid", "del-tail", "sort", "move",
                 "copy", "switch", "refuse", "reparse"]
DEEP_DEPTH = {"quick": 5, "thorough": 6}
DEEP_WIDE_DEPTH = {"quick": 4, "thorough": 5}
DEEP_ITER_BOUND = 64
DEEP_INIT_RANKS = [[], [50000, 47000, 53000, 49000, 52000]]      # empty; five fields, not in sorted order


def deep_letter(seed):
    return core.rep(seed, ["F", "K", "Pq-", "X-Y"])


def deep_name(letter, rank):
    """one name per rank; neighbouring thousands differ in case, so sorting on the raw name is not sorting on lower()"""
    return (letter.upper() if (rank // 1000) % 2 == 0 else letter.lower()) + "%05d" % rank


def deep_rank(name):
    return int(name[-5:])


def deep_init(letter, which):
    return ["text", [[deep_name(letter, r), "i%d" % i] for i, r in enumerate(DEEP_INIT_RANKS[which])]]


class DeepWorld(object):
    """the model side: a list of ListModels, a cursor, the name each paragraph lost last, all names ever used"""

    def __init__(self, letter, pairs):
        self.letter = letter
        self.objs = [ListModel(pairs)]
        self.lost = [None]
        self.cur = 0
        self.used = set(k for k, _v in pairs)
        self.step = 0

    def names(self):
        out = []
        for n in sorted(self.used, key=deep_rank):
            out += [n, n.swapcase()]
        return out

    def resolve(self, opname):
        """abstract operation -> concrete operation on the paragraph under the cursor, or None if it is not enabled"""
        m = self.objs[self.cur]
        present = m.keys()
        ranks = sorted(deep_rank(k) for k in present)
        allr = sorted(deep_rank(k) for k in self.used)
        val = "v%d" % self.step
        if opname == "add-first":
            return ("set", deep_name(self.letter, (allr[0] - 1000) if allr else 50000), val)
        if opname == "add-last":
            return ("set", deep_name(self.letter, (allr[-1] + 1000) if allr else 50000), val)
        if opname == "add-mid":
            if len(ranks) < 2:
                return None
            lo, hi = ranks[(len(ranks) - 1) // 2], ranks[(len(ranks) - 1) // 2 + 1]
            r = (lo + hi) // 2
            if not lo < r < hi or r in allr:
                return None
            return ("set", deep_name(self.letter, r), val)
        if opname == "readd":
            k = self.lost[self.cur]
            if k is None or m.contains(k):
                return None
            return ("set", k.swapcase(), val)
        if opname == "reset":
            return ("set", present[0].swapcase(), val) if present else None
        if opname in ("del-head", "del-mid", "del-tail"):
            if not present or opname == "del-mid" and len(present) < 3:
                return None
            return ("del", present[{"del-head": 0, "del-mid": len(present) // 2, "del-tail": -1}[opname]])
        if opname == "sort":
            return ("sort",)
        if opname == "move":
            return ("last", present[0].swapcase()) if len(present) > 1 else None
        if opname == "copy":
            return ("copy",) if len(self.objs) < 4 else None
        if opname == "switch":
            return ("switch",) if len(self.objs) > 1 else None
        if opname == "refuse":
            k = self.lost[self.cur]
            return ("del", k.swapcase() if k is not None and not m.contains(k) else self.letter + "-absent")
        if opname == "reparse":
            return ("reparse",)
        raise AssertionError(opname)

    def apply(self, op):
        """-> expected outcome of the step"""
        self.step += 1
        m = self.objs[self.cur]
        if op[0] == "switch":
            self.cur = (self.cur - 1) % len(self.objs)
            return ("ok", None)
        if op[0] == "copy":
            self.objs.append(m.copy())
            self.lost.append(self.lost[self.cur])
            self.cur = len(self.objs) - 1
            return ("ok", None)
        if op[0] == "set":
            self.used.add(op[1] if op[1] in self.used or op[1].swapcase() not in self.used else op[1].swapcase())
        if op[0] == "del" and m.contains(op[1]):
            self.lost[self.cur] = m.keys()[m.find(op[1])]
        m2, expected = model_apply(m, op)
        self.objs[self.cur] = m2
        return expected


def deep_execute(letter, which, history, info=None):
    """one deep history on fresh objects -> list of (sig, expected, observed); [] also when an operation of the history
    is not enabled in the state it is applied in (info['enabled'] is False then: such a history is not a case)"""
    init = deep_init(letter, which)
    w = DeepWorld(letter, init[1])
    real = [build(init)]
    cur = 0
    concrete = []
    opname, expected, changed = "initial", ("ok", None), False
    for opname in history:
        op = w.resolve(opname)
        if op is None:
            if info is not None:
                info["enabled"] = False
            return []
        concrete.append(op)
        before = [m.canon() for m in w.objs], w.cur
        expected = w.apply(op)
        changed = ([m.canon() for m in w.objs], w.cur) != before
        if op[0] == "switch":
            cur = (cur - 1) % len(real)
            continue
        d, observed = real_apply(real[cur], op)
        if op[0] == "copy" and observed[0] == "ok":
            real.append(d)
            cur = len(real) - 1
        else:
            real[cur] = d
        bad = compare(op, expected, observed, None, None, None)
        if bad:
            return [("deep/%s/%s" % (opname, bad[0].split("/", 2)[2]), bad[1], "%s   (operations: %r)" % (bad[2], concrete))]
    names = w.names()
    for i, m in enumerate(w.objs):
        mobs = model_observe(m, names)
        robs, rerr = deep_observe(real[i], names)
        where = "current" if i == w.cur else "other-paragraph"
        if rerr is not None:
            return [("deep/%s/%s/%s" % (opname, where, rerr[0]), rerr[1], "%s   (operations: %r)" % (rerr[2], concrete))]
        if mobs != robs:
            for j, comp in enumerate(COMPONENTS):
                if mobs[j] != robs[j]:
                    return [("deep/%s/%s/%s" % (opname, where, comp), "paragraph %d of %d: %s = %r" % (i, len(real), comp, mobs[j]),
                             "%s = %r   (operations: %r)" % (comp, robs[j], concrete))]
    if info is not None:
        info["enabled"] = True
        info["outcome"] = "deep/%s:%s/%d-paragraphs" % (opname, "/".join(sorted(expected[1])) if expected[0] == "exc" else
                                                         ("changed" if changed else "unchanged"), len(real))
        info["nontrivial"] = expected[0] == "exc" or changed
        info["fields"] = max(m.length() for m in w.objs)
    return []


def deep_observe(d, names):
    try:
        ks = list(itertools.islice(iter(d), DEEP_ITER_BOUND))
        if len(ks) >= DEEP_ITER_BOUND:
            return None, ("keys/unbounded-iteration", "fewer than %d keys" % DEEP_ITER_BOUND, ks)
        look = []
        for k in names:
            try:
                look.append(d[k])
            except KeyError:
                look.append(None)
        return (ks, look, [k in d for k in names], len(d), d.dump()), None
    except Exception as e:
        return None, ("observe-raises-" + type(e).__name__, "observations succeed", "%s: %s" % (type(e).__name__, e))


def deep_families(tier):
    """(name, operation alphabet, depth, initial paragraphs)"""
    return [("narrow", DEEP_OPS[tier], DEEP_DEPTH[tier], [1]),
            ("narrow-from-empty", DEEP_OPS[tier], DEEP_DEPTH[tier] - 1, [0]),
            ("wide", DEEP_WIDE_OPS, DEEP_WIDE_DEPTH[tier], [0, 1])]


def deep_units(tier):
    """one unit per (family, initial paragraph, level, first two operations): simplest-first.  The histories of the
    wide family that only use operations of the narrow alphabet (to the narrow depth, from the same paragraph) are
    cases of the narrow family and are skipped there."""
    out = []
    for fam, ops, depth, whichs in deep_families(tier):
        for which in whichs:
            for level in range(1, depth + 1):
                if level <= 2:
                    out.append({"mode": "deep", "family": fam, "which": which, "level": level, "head": []})
                else:
                    for a in ops:
                        for b in ops:
                            out.append({"mode": "deep", "family": fam, "which": which, "level": level, "head": [a, b]})
    return out


def deep_owned_elsewhere(tier, fam, which, hist):
    if fam != "wide":
        return False
    for f2, ops, depth, whichs in deep_families(tier):
        if f2 != "wide" and which in whichs and len(hist) <= depth and all(o in ops for o in hist):
            return True
    return False


def run_deep(u, tier, seed):
    part = core.Part()
    letter = deep_letter(seed)
    fam, which, level = u["family"], u["which"], u["level"]
    ops = dict((f, o) for f, o, _d, _w in deep_families(tier))[fam]
    part.max_depth = level
    applied = 0
    for tail in itertools.product(ops, repeat=level - len(u["head"])):
        hist = list(u["head"]) + list(tail)
        if deep_owned_elsewhere(tier, fam, which, hist):
            continue
        info = {}
        bad = deep_execute(letter, which, hist, info)
        case = {"family": "deep", "letter": letter, "init": which, "history": hist}
        if bad:
            part.transitions += 1
            part.traces += 1
            part.evaluations += 1
            for sig, exp, obs in bad:
                part.violation(sig, case, exp, obs, rank=level)
            part.outcomes["VIOLATION:" + bad[0][0]] += 1
            continue
        if not info.get("enabled"):
            part.extra["deep histories not executed to the end (an operation is not enabled in the state reached)"] += 1
            continue
        part.transitions += 1
        part.traces += 1
        part.evaluations += 1
        applied += level
        part.outcomes[info["outcome"]] += 1
        part.nontrivial += bool(info["nontrivial"])
        part.extra["deep histories ending with %d live paragraphs" % int(info["outcome"].rsplit("/", 1)[1].split("-")[0])] += 1
        part.extra["deep histories, most fields in a paragraph = %d" % info["fields"]] += 1
        if len(part.samples) < 1 and tail and tail[-1] == ops[-1]:
            part.sample(case)
    part.extra["operation applications on real objects, replayed prefixes included"] += applied
    part.extra["deep-narrow histories (family %s)" % fam] += part.traces
    return part


def replay(case):
    if case.get("family") == "deep":
        return deep_execute(case["letter"], case["init"], list(case["history"]))
    return exec_case(case)


def repro_py(case):
    return ("# run from /verif with the repository's lib directory first on sys.path\n"
            "from mc.props import c09\n"
            "case = %r\n"
            "bad = c09.replay(case)   # fresh Deb822 + fresh list model, same history, complete projection compared\n"
            "assert not bad, bad\n" % (case,))
