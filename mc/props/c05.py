"""C05 - dict-style edits through the format-preserving parser are local and read back (Engine A)."""
from .. import core
from . import _doc

ID = "C05"
LEVEL = "model_checking"
RULE = ("documents generated from segments (7 field layouts x position, 1-2 paragraphs, 3 separators, leading/trailing "
        "comments, final newline present or absent); states = distinct model documents reached, transitions = one "
        "set/add/delete applied to model and implementation, traces = complete histories replayed from a fresh parse "
        "in tree mode; non-trivial = states other than the initial document.  Route units: the same, with each assignment / "
        "deletion made through another public entry point (5th element of a set, 4th of a del operation) and every way of "
        "reading and dumping compared after each step; origin units: the file object obtained from another kind of input; "
        "deep units: all histories over an 8-operation alphabet to depth 5 on a six-field paragraph; ladder / value units: "
        "generated documents with 1..40, 63..1001 (thorough: 5000) fields / paragraphs / continuation lines / comment lines / "
        "blank lines, existing and assigned values of 997..65537 (thorough: 262145) characters, one operation each")
BUDGET = {"quick": 240, "thorough": 3000}
NL = "strict"


def bounds(tier):
    return {"documents": len(docs(0)), "values": VALUES,
            "tree_depth": 2 if tier == "quick" else 3, "graph_depth": 3 if tier == "quick" else 4,
            "quick_tree": "level 2 extends histories whose first operation is a deletion or uses a core value %r; every operation is tried at both levels" % (CORE_VALUES,),
            "graph_alphabet": "values x, 'x\\n y' only; no case-variant spelling",
            "routes": "every other public way of assigning / deleting (%s; %s; clear()) with values %r on every field, a new "
                      "field and an absent field of every document at depth 1 (each also with a value that must be refused), "
                      "and at depth 2 before and after every default-route operation of the small alphabet on %d documents "
                      "(thorough: all route values, the whole small alphabet); "
                      "after every such step the values returned by pop/popitem/setdefault, every way of reading the paragraphs "
                      "(get, items, values, dict(), len, iteration, membership, configured views incl. the raw one, the field "
                      "elements' own text) and every way of dumping (dump(fd), convert_to_text, per-paragraph dumps) are "
                      "compared with the model" % (", ".join(_doc.SET_HOWS[1:]), ", ".join(_doc.DEL_HOWS[1:]), ROUTE_VALUES,
                                                     len(route_docs2(0))),
            "deep": "deep-narrow histories (signatures deep/<document>/...): every history over the operations delete first / "
                    "middle / last field, add Zz, two-line value for the last field, new value for the first field, a refused "
                    "assignment%s on a six-field paragraph (%s) to depth %s; every step judged by the model"
                    % ("" if tier == "quick" else " (on 'two-paragraphs': also add an empty field, replace the middle field, add to the last paragraph)",
                       ", ".join(n for n, _d in deep_docs(0)), ", ".join(str(deep_plan(n, tier)[0]) for n, _d in deep_docs(0))),
            "count_ladders": "one generated document per count n (signatures ladder/<kind>/...) for the kinds %s (see "
                             "_doc.ladder_spec), n in %s; both terminations of the last line for n <= %d, alternating above; "
                             "depth 1: set / add / delete addressing the first, middle and last field of the first, middle and "
                             "last paragraph (n > 12: five operations on the first and last paragraph)"
                             % (", ".join(LADDER_KINDS), "1..40, " + ", ".join(str(n) for n in ladder_ns("fields", tier) if n > 40)
                                + ("" if tier == "quick" else " (5000 only for lines, comments, gap, trailing: 2 s per case otherwise)"),
                                12 if tier == "quick" else 40),
            "size_ladders": "an existing field whose value is (or whose second line is) one line of L characters, edited and "
                            "with its neighbours edited (size/<content>/...), and assigned values of one line of L characters "
                            "(alone or as second line; value-size/<content>/...), L in %s, content %s with the special "
                            "characters just before / at / across every multiple of 4096 (256 below 4097); assigned values of "
                            "n continuation lines (value-ladder/lines), n in 1..40, 63..257, 1000, 1001%s; each assigned to an "
                            "existing field with a comment, to a new field and through another spelling, in a document with and "
                            "one without final newline" % (size_ls(tier), ", ".join(SIZE_CONTENTS),
                                                           "" if tier == "quick" else ", 999, 1025, 2500, 2501, 5000"),
            "origins": "the file object obtained from %s instead of a list of str lines: the small alphabet at depth 1 "
                       "(depth 2 in the thorough tier) on every document; 'built' = paragraphs made with from_dict and appended "
                       "to new_empty_file(), on %d canonical documents with the full alphabet at depth 2" % (
                           ", ".join(_doc.ORIGINS[1:-1]), len(built_docs(0)))}


def assumptions():
    return ["a deleted field's own comment lines may go or stay (both accepted)",
            "a new field may be placed before or after comment lines that directly trail its paragraph",
            "the text of an assigned field is free as long as it is `name:` + whole lines reading back as the value",
            "deleting the only field of a paragraph is outside the domain",
            "characters Python treats as whitespace or line boundaries but the control-file format does not define (NBSP, VT, "
            "FF, U+0085, U+2028...) are not used in assigned values (a value containing U+2028 is refused with ValueError)",
            "the model's own field reader defines 'value' (first line trimmed, comment lines dropped)",
            "routes: set_field_to_simple_value / set_field_from_raw_string are used with their default comment handling or "
            "preserve_original_field_comment=True (False and field_comment= are documented to replace the field's comment); "
            "configured_view(preserve_field_comments_on_field_updates=False) likewise is not used",
            "origins: lines given without their newlines ('bare-lines') stand for a terminated document of two or more lines",
            "routes: set_kvpair_element() with a foreign element is the building block below the dict interface (it replaces "
            "the element, comment included) and is not driven directly",
            "routes: setdefault() on a present field must change nothing and return the current value; pop(k, default) on an "
            "absent field is outside the statement",
            "deep / ladder families: the format-preserving elements offer no copy operation, so histories work on one object; "
            "documents with repeated field names belong to C10's ladders; the ladders stop at 5000 elements and 262145 "
            "characters (65537 in the quick tier); in the deep families the re-parse of a dump text is evaluated once per unit "
            "and text"]


VALUES = ["x", "", " pad ", "x\n y", "x\n y\n\tz", "\n y", "\n y\n z", "x\n y \t", "x\n", "x\n y\n"]


def layouts(name, v, w):
    return [
        (name, "", "%s: %s\n" % (name, v)),
        (name, "", "%s:%s\n" % (name, v)),
        (name, "", "%s:\n %s\n" % (name, v)),
        (name, "", "%s: %s\n %s\n" % (name, v, w)),
        (name, "#cm %s\n" % name, "%s: %s\n" % (name, v)),
        (name, "", "%s: %s\n#in\n %s\n" % (name, v, w)),
        (name, "", "%s:\t%s \n" % (name, v)),
    ]


def docs(seed):
    v = core.rep(seed, ["v", "q", "1.0", "é"])
    w = core.rep(seed, ["w", "r r", "(>= 2)", "ü"])
    names = ["A", "Bb", "C"]
    plain = lambda n: (n, "", "%s: %s\n" % (n, v))
    out = []
    # one paragraph: every layout in every position of a 3-field paragraph, alone, and in a 2-field paragraph
    for li in range(7):
        for pos in range(3):
            fields = [layouts(n, v, w)[li] if i == pos else plain(n) for i, n in enumerate(names)]
            out.append([("par", fields)])
        out.append([("par", [layouts("A", v, w)[li]])])
        out.append([("par", [plain("A"), layouts("Bb", v, w)[li]])])
    # two paragraphs x separators, second paragraph's last field layout varies
    for sep in ("\n", "\n\n", "\n#free\n\n"):
        for li in (0, 3, 4):
            out.append([("par", [plain("A"), plain("Bb")]), ("raw", sep),
                        ("par", [plain("C"), layouts("D", v, w)[li]])])
    # leading / trailing material
    out.append([("raw", "#top\n\n"), ("par", [plain("A"), plain("Bb")])])
    out.append([("raw", "\n"), ("par", [plain("A")]), ("raw", "\n")])
    out.append([("par", [plain("A"), plain("Bb")]), ("raw", "#trail\n")])
    out.append([("par", [plain("A")]), ("raw", "#trail\n\n"), ("par", [plain("C")])])
    out.append([("par", [plain("A")]), ("raw", "  \n")])
    out.append([("par", [plain("A")]), ("raw", "\n#end\n")])
    out.append([("par", [("a", "", "a: %s\n" % v), plain("Bb")])])
    # the same names in different case in two paragraphs (process- or document-wide state keyed by name)
    out.append([("par", [plain("A"), ("Bb", "#cm Bb\n", "Bb: %s\n" % v)]), ("raw", "\n"),
                ("par", [("a", "#cm a\n", "a: %s\n" % v), ("BB", "", "BB: %s\n" % v)])])
    res = []
    for d in out:
        res.append(d)
        res.append(strip_final_newline(d))
    return res


def strip_final_newline(spec):
    doc = _doc.from_spec(spec)
    last = None
    for it, f in _doc.pieces(doc):
        if f is not None or it[1]:
            last = (it, f)
    it, f = last
    if f is None:
        it[1] = it[1][:-1]
    else:
        f.body = f.body[:-1]
    doc = [x for x in doc if x[0] == "par" or x[1]]
    return _doc.to_spec(doc)


def ops_full(doc):
    ops = []
    for pi, par in enumerate(_doc.pars(doc)):
        seen = []
        for f in par:
            if f.name.lower() in seen:
                continue
            seen.append(f.name.lower())
            for val in VALUES:
                ops.append(("set", pi, f.name, val))
            ops.append(("del", pi, f.name))
        if not par:
            # a paragraph that lost all its fields: it can only be given fields again
            for val in VALUES:
                ops.append(("set", pi, "N", val))
            ops.append(("del", pi, "Zz-absent"))
            continue
        ops.append(("set", pi, par[0].name.swapcase(), "y"))
        ops.append(("del", pi, par[-1].name.swapcase()))
        # the field-name token as key (obtained once per history, re-used afterwards)
        ops.append(("tset", pi, par[0].name, "t1"))
        ops.append(("tset", pi, par[0].name, "t2\n t3"))
        # must be refused and leave everything (the field's own comment included) as it was
        ops.append(("set", pi, par[-1].name, _doc.INVALID_VALUES[0]))
        ops.append(("set", pi, par[0].name, _doc.INVALID_VALUES[1]))
        ops.append(("del", pi, "Zz-absent"))
        if "n" not in seen:
            for val in VALUES:
                ops.append(("set", pi, "N", val))
    return ops


def ops_small(doc):
    ops = []
    for pi, par in enumerate(_doc.pars(doc)):
        seen = []
        for f in par:
            if f.name.lower() in seen:
                continue
            seen.append(f.name.lower())
            for val in ("x", "x\n y", "\n y"):
                ops.append(("set", pi, f.name, val))
            ops.append(("del", pi, f.name))
        if "n" not in seen:
            for val in ("x", "x\n y", "\n y"):
                ops.append(("set", pi, "N", val))
    return ops


def sweep_chars():
    return [chr(c) for c in range(0x21, 0x7f)] + list("éüЖ字ß")


SWEEP_DOCS = [
    [("par", [("A", "", "A: v\n"), ("Bb", "#cm\n", "Bb: v\n w\n"), ("C", "", "C: v\n")])],
    [("par", [("A", "", "A: v\n")]), ("raw", "\n"), ("par", [("C", "", "C: v\n"), ("D", "", "D: v")])],
]


def large_docs(seed):
    long_v = "x" * 120
    F = lambda n, val: (n, "", "%s: %s\n" % (n, val))
    M = lambda n, k: (n, "# about %s\n# second comment line\n" % n, "%s: first\n" % n + "".join(" line %d %s\n" % (i, "y" * 30) for i in range(k)))
    names = ["Source", "Section", "Priority", "Maintainer", "Uploaders", "Build-Depends", "Standards-Version", "Homepage"]
    d1 = [("par", [F(names[0], "a"), F(names[1], long_v), M(names[2], 5), F(names[3], "m")]), ("raw", "\n# free\n\n"),
          ("par", [M(names[4], 2), F(names[5], "b"), F(names[6], "4.6"), F(names[7], "h")]), ("raw", "\n"),
          ("par", [F("Package", "p"), M("Description", 6)])]
    return [d1, strip_final_newline(d1)]


ROUTE_VALUES = ["x", "", " pad ", "x\n y", "\n y", "x\n y\n"]


def ops_routes(doc, values=None, hows=None):
    """the assignments / deletions of the statement through every other public entry point"""
    values = ROUTE_VALUES if values is None else values
    ops = []
    for pi, par in enumerate(_doc.pars(doc)):
        seen = []
        for f in par:
            if f.name.lower() in seen:
                continue
            seen.append(f.name.lower())
        keys = [f.name for f in par] + (["N"] if "n" not in seen else [])
        for how in _doc.SET_HOWS[1:]:
            if hows is not None and how not in hows:
                continue
            for k in keys:
                for val in values:
                    ops.append(("set", pi, k, val, how))
            if par:
                ops.append(("set", pi, par[-1].name.swapcase(), "y", how))
                ops.append(("set", pi, par[-1].name, _doc.INVALID_VALUES[0], how))
                ops.append(("set", pi, "N", _doc.INVALID_VALUES[1], how))
        for how in _doc.DEL_HOWS[1:]:
            if hows is not None and how not in hows:
                continue
            for f in par:
                ops.append(("del", pi, f.name, how))
            if par:
                ops.append(("del", pi, par[0].name.swapcase(), how))
            ops.append(("del", pi, "Zz-absent", how))
        if hows is None:
            ops.append(("clear", pi))
    return ops


def ops_routes2(doc):
    return ops_routes(doc, values=("x", "x\n y"))


def ops_small2(doc):
    return [op for op in ops_small(doc) if op[0] == "del" or op[3] != "\n y"]


def route_docs2(seed):
    """documents of the depth-2 route pass: one paragraph with a plain, a two-line and a commented field, two
    paragraphs with a free comment between them - each with and without the final newline"""
    v = core.rep(seed, ["v", "q", "1.0", "é"])
    w = core.rep(seed, ["w", "r r", "(>= 2)", "ü"])
    plain = lambda n: (n, "", "%s: %s\n" % (n, v))
    ds = [[("par", [plain("A"), layouts("Bb", v, w)[3], layouts("C", v, w)[4]])],
          [("par", [plain("A"), layouts("Bb", v, w)[5]]), ("raw", "\n#free\n\n"), ("par", [plain("C")])]]
    return [x for d in ds for x in (d, strip_final_newline(d))]


def built_docs(seed):
    v = core.rep(seed, ["v", "q", "1.0", "é"])
    w = core.rep(seed, ["w", "r r", "(>= 2)", "ü"])
    plain = lambda n: (n, "", "%s: %s\n" % (n, v))
    return [[("par", [plain("A"), ("Bb", "", "Bb: %s\n %s\n" % (v, w)), plain("C")])],
            [("par", [plain("A")])],
            [("par", [plain("A"), plain("Bb")]), ("raw", "\n"), ("par", [plain("C"), ("D", "", "D: %s\n %s\n" % (v, w))])]]


CORE_VALUES = ("x", "", "x\n y", "\n y", "x\n y \t", "t1", "y", _doc.INVALID_VALUES[0])


def extend_quick(op):
    """quick tier: every operation is tried after every history of core operations (all operations at level 1)"""
    return op[0] == "del" or op[3] in CORE_VALUES


def units(tier, seed):
    out = [{"doc": d, "i": i} for i, d in enumerate(docs(seed))]
    out += [{"doc": d, "i": 2000 + i, "large": True} for i, d in enumerate(large_docs(seed))]
    cs = sweep_chars()
    out += [{"sweep": cs[i:i + 16], "i": 1000 + i} for i in range(0, len(cs), 16)]
    out += [{"routes": d, "i": 3000 + i} for i, d in enumerate(docs(seed))]
    out += [{"routes2": d, "i": 4000 + i, "first": first} for i, d in enumerate(route_docs2(seed))
            for first in ("route", "default")]
    out += [{"origin": o, "docs": [d for j, d in enumerate(docs(seed)) if j % 4 == k], "i": 5000 + 10 * n + k}
            for n, o in enumerate(_doc.ORIGINS[1:-1]) for k in range(4)]
    out += [{"origin": "built", "docs": [d], "i": 6000 + i} for i, d in enumerate(built_docs(seed))]
    out += scale_units(tier, seed)
    return out


def unit_cost(u, tier):
    if "deep" in u:
        return 400
    if "ladders" in u or "values" in u:
        return 30 + sum(d["n"] for d in u.get("ladders", u.get("values"))) // 20
    if "sweep" in u or u.get("large"):
        return 1
    if "routes2" in u:
        return 30
    if "origin" in u:
        return 9
    return sum(len(it[1]) for it in u.get("doc", u.get("routes")) if it[0] == "par") ** 2


def run_sweep(part, chars):
    """one unusual character at a time inside assigned values (single- and multi-line), depth 1"""
    for c in chars:
        vals = ["x" + c + "y", c, "x\n y" + c, "x" + c + "\n " + c + "z"]
        for spec in SWEEP_DOCS:
            doc = _doc.from_spec(spec)
            for pi, par in enumerate(_doc.pars(doc)):
                for key in (par[-1].name, "N"):
                    for val in vals:
                        op = ("set", pi, key, val)
                        nd, viol = _doc.run_last(spec, [], doc, op, NL)
                        part.states += 1
                        part.transitions += 1
                        part.traces += 1
                        part.evaluations += 1
                        part.nontrivial += 1
                        for sig, exp, obs in viol:
                            part.violation(sig, {"doc": spec, "history": [op]}, exp, obs, rank=1)
                        part.outcomes["sweep/" + ("ok" if not viol else "violation")] += 1
    part.sample({"doc": SWEEP_DOCS[0], "history": [("set", 0, "N", "x" + chars[0] + "y")]})
    return part


def run_unit(u, tier, seed):
    part = core.Part()
    if "deep" in u or "ladders" in u or "values" in u:
        return run_scale(part, u, tier, seed)
    if "sweep" in u:
        return run_sweep(part, u["sweep"])
    if "routes" in u:
        base = {"doc": u["routes"], "route": {"wide": True}}
        _doc.explore(part, u["routes"], ops_routes, 1, 0, NL, base)
        part.sample(dict(base, history=[ops_routes(_doc.from_spec(u["routes"]))[7]]))
        return part
    if "routes2" in u:
        base = {"doc": u["routes2"], "route": {"wide": True}}
        # (thorough: the full value alphabet of the routes and of the default-route operations, still two levels)
        r, sm = (ops_routes2, ops_small2) if tier == "quick" else (ops_routes, ops_small)
        if u["first"] == "route":
            _doc.explore(part, u["routes2"], r, 2, 0, NL, base, ops2_fn=sm)
        else:
            _doc.explore(part, u["routes2"], sm, 2, 0, NL, base, ops2_fn=r)
        return part
    if "origin" in u:
        for d in u["docs"]:
            base = {"doc": d, "route": {"origin": u["origin"], "wide": True}}
            if u["origin"] == "built":
                _doc.explore(part, d, ops_full, 2, 0, NL, base, extend=extend_quick if tier == "quick" else None)
            else:
                _doc.explore(part, d, ops_small, 1 if tier == "quick" else 2, 0, NL, base)
        part.sample(dict(base, history=[ops_small(_doc.from_spec(u["docs"][0]))[0]]))
        return part
    td, gd = (2, 3) if tier == "quick" else (3, 4)
    base = {"doc": u["doc"]}
    if u.get("large"):
        td, gd = (1, 0) if tier == "quick" else (2, 0)
    _doc.explore(part, u["doc"], ops_full, td, gd, NL, base, ops_small, extend_quick if tier == "quick" else None)
    part.sample(dict(base, history=[ops_full(_doc.from_spec(u["doc"]))[3]]))
    return part


def replay(case):
    hist = [tuple(op) for op in case["history"]]
    if "value" in case:
        # (a generated value: the history names it as "@value")
        hist = [op[:3] + (make_value(case["value"]),) + op[4:] if op[0] == "set" and op[3] == "@value" else op for op in hist]
    _d, bad = _doc.run_history(_doc.case_spec(case), hist, NL, case.get("route"))
    return bad


_SET_PY = {"item": "p[{k}] = {v}", "update": "p.update({{{k}: {v}}})", "update-pairs": "p.update([({k}, {v})])",
           "setdefault": "print(p.setdefault({k}, {v}))", "simple": "p.set_field_to_simple_value({k}, {v})",
           "simple-keep": "p.set_field_to_simple_value({k}, {v}, preserve_original_field_comment=True)",
           "raw": "p.set_field_from_raw_string({k}, {r})",
           "raw-keep": "p.set_field_from_raw_string({k}, {r}, preserve_original_field_comment=True)",
           "view": "p.configured_view()[{k}] = {v}",
           "view-raw": "p.configured_view(auto_map_initial_line_whitespace=False, "
                       "auto_map_final_newline_in_multiline_values=False)[{k}] = {r}",
           "view-opts": "p.configured_view(discard_comments_on_read=False, auto_resolve_ambiguous_fields=False)[{k}] = {v}",
           "view-no-final-newline": "p.configured_view(auto_map_final_newline_in_multiline_values=False)[{k}] = {v}  "
                                    "# (a multi-line value is given with its final newline)",
           "view-no-first-line-mapping": "p.configured_view(auto_map_initial_line_whitespace=False)[{k}] = {r}  "
                                         "# (a multi-line value is given without its final newline)"}
_DEL_PY = {"item": "del p[{k}]", "pop": "print(p.pop({k}))", "pop-default": "print(p.pop({k}, None))",
           "remove": "p.remove_kvpair_element({k})", "view": "del p.configured_view()[{k}]",
           "view-opts": "del p.configured_view(discard_comments_on_read=False, auto_resolve_ambiguous_fields=False)[{k}]",
           "popitem": "print(p.popitem())"}


def op_py(op):
    op = tuple(op)
    head = "p = ps[%d]; " % op[1]
    if op[0] == "set":
        return head + _SET_PY[_doc.how_of(op)].format(k=repr(op[2]), v=repr(op[3]), r=repr(_doc.raw_value(op[3])))
    if op[0] == "tset":
        return head + "p[p.get_kvpair_element(%r).field_token] = %r   # (the token object is obtained once per history)" % (op[2], op[3])
    if op[0] == "del":
        return head + _DEL_PY[_doc.how_of(op)].format(k=repr(op[2]))
    if op[0] == "clear":
        return head + "p.clear()"
    return "# %r" % (op,)


def repro_py(case):
    if "doc" not in case or "value" in case:
        return "# generated case: see mc/props/_doc.py ladder_spec / mc/props/c05.py make_value\n# %r\n" % (case,)
    origin = (case.get("route") or {}).get("origin", "str")
    return ("from debian._deb822_repro import parse_deb822_file\n"
            "text = %r\n# file object obtained via %r (see mc/props/_doc.py parse_impl)\n"
            "f = parse_deb822_file(text.splitlines(True))\nps = list(f)\n%s\nprint(repr(f.dump()))\n" % (
                _doc.render(_doc.from_spec(case["doc"])), origin,
                "\n".join("try:\n    %s\nexcept Exception as e: print(repr(e))" % op_py(op) for op in case["history"])))


# ---------------------------------------------------------------- beyond the small scope

DEEP_SLICES = 8


def deep_docs(seed):
    """six fields (one with a comment of its own, one with a continuation line) followed by a free comment and a second
    paragraph; the same as the only paragraph of a document without final newline"""
    v = core.rep(seed, ["v", "q", "1.0", "\u00e9"])
    F = lambda n, val, c="": (n, c, "%s: %s\n" % (n, val))
    fs = [F("M", v), F("C", "2", "#cm\n"), F("X", "3"), ("E", "", "E: 4\n more\n"), F("R", "5"), F("G", "6")]
    return [("two-paragraphs", [("par", fs), ("raw", "\n#free\n\n"), ("par", [F("T", "t")])]),
            ("open", _doc.open_tail([("par", fs)]))]


def ops_deep(doc, wide=False):
    """the deep-narrow alphabet on the first paragraph: delete the first / the middle / the last field; add a field (again:
    replace it); give the last field a two-line value, the first one a new single-line value; an assignment that is
    refused.  wide adds: add an empty field, replace the middle field, add a field to the last paragraph"""
    ps = _doc.pars(doc)
    par = ps[0]
    n = len(par)
    ops = []
    if par:
        ops += [("del", 0, par[0].name), ("del", 0, par[n // 2].name), ("del", 0, par[-1].name)]
    ops.append(("set", 0, "Zz", "z%d" % n))
    if par:
        ops += [("set", 0, par[-1].name, "x%d\n y" % n), ("set", 0, par[0].name, "w%d" % n),
                ("set", 0, par[-1].name, _doc.INVALID_VALUES[0])]
    if wide:
        ops.append(("set", 0, "Aa", ""))
        if par:
            ops.append(("set", 0, par[n // 2].name, " pad%d " % n))
        ops.append(("set", len(ps) - 1, "Nn", "n%d\n\tz" % n))
    out = []
    for op in ops:
        if op not in out:
            out.append(op)
    return out


def ops_deep_wide(doc):
    return ops_deep(doc, wide=True)


def deep_plan(name, tier):
    # (the thorough tier of this check is long already: same depth, the wider alphabet only at depth 4)
    return (5, ops_deep) if tier == "quick" or name == "open" else (4, ops_deep_wide)


def ops_ladder(doc, minimal=False):
    """single assignments / additions / deletions that address the first, the middle and the last element of whatever
    there are many of"""
    ops = []
    ps = _doc.pars(doc)
    for pi in (sorted({0, len(ps) - 1}) if minimal else sorted({0, len(ps) // 2, len(ps) - 1})):
        par = ps[pi]
        n = len(par)
        if not n:
            continue
        f, m, l = par[0].name, par[n // 2].name, par[-1].name
        ops += [("set", pi, m, "x\n y"), ("del", pi, m), ("set", pi, "N", "n"), ("set", pi, l, "x"), ("del", pi, l)]
        if not minimal:
            ops += [("set", pi, f, "x"), ("del", pi, f), ("set", pi, m, ""), ("set", pi, "N", "x\n y\n\tz"), ("set", pi, l, "\n y"),
                    ("set", pi, m.swapcase(), " pad "), ("set", pi, l, _doc.INVALID_VALUES[0])]
    out = []
    for op in ops:
        if op not in out:
            out.append(op)
    return out


def ops_ladder_minimal(doc):
    return ops_ladder(doc, minimal=True)


LADDER_KINDS = ("fields", "paragraphs", "lines", "comments", "gap", "gap-comments", "trailing")
SIZE_CONTENTS = ("plain", "blank", "words", "colon", "multibyte", "hash", "tab")


def ladder_ns(kind, tier):
    ns = _doc.LADDER_NS["small"] + _doc.LADDER_NS["mid"]
    if tier == "quick":
        return ns + [1000, 1001]
    # (a case with 5000 fields / paragraphs / free comment lines takes 2 s: not run)
    return ns + _doc.LADDER_NS["big"] + [n for n in _doc.LADDER_NS["huge"]
                                         if n < 5000 or kind not in ("fields", "paragraphs", "gap-comments")]


def size_ls(tier):
    return [L for L in _doc.SIZE_LS if tier != "quick" or L <= 65537]


def ladder_descs(tier):
    out = []
    for kind in LADDER_KINDS:
        for n in ladder_ns(kind, tier):
            tails = ("closed", "open") if n <= 12 or (tier != "quick" and n <= 40) else (("open",) if n % 2 else ("closed",))
            for tail in tails:
                if kind == "trailing" and tail == "open":
                    continue
                d = {"kind": kind, "n": n, "tail": tail}
                out.append(d)
                if kind == "lines" and n <= 40:
                    out.append(dict(d, pos="last"))
    for L in size_ls(tier):
        for ci, content in enumerate(SIZE_CONTENTS):
            out.append({"kind": "size", "n": L, "content": content, "tail": "open" if (ci + L) % 2 else "closed",
                        "pos": "last" if ci % 3 == 2 else "mid", "multi": ci % 2 == 1})
    return out


def make_value(desc):
    """a generated value to assign: {"kind": "size", "n": L, "content": c, "multi": bool} = one line of L characters
    (multi: as the second line of a two-line value); {"kind": "lines", "n": n} = a first line and n continuation lines"""
    if desc["kind"] == "size":
        t = _doc.sized_text(desc["n"], desc["content"])
        return "head\n " + t if desc.get("multi") else t
    return "first" + "".join("\n%sline %d" % ("\t" if i % 9 == 0 else " ", i) for i in range(1, desc["n"] + 1))


VALUE_DOCS = {"closed": [("par", [("A", "", "A: 1\n"), ("V", "#cm\n", "V: old\n more\n"), ("B", "", "B: 2\n")]), ("raw", "\n"),
                         ("par", [("C", "", "C: 3\n")])],
              "open": [("par", [("A", "", "A: 1\n"), ("B", "", "B: 2\n"), ("V", "", "V: old")])]}


def value_descs(tier):
    out = []
    for n in _doc.LADDER_NS["small"] + _doc.LADDER_NS["mid"] + [1000, 1001] + ([] if tier == "quick" else [999, 1025, 2500, 2501, 5000]):
        out.append({"kind": "lines", "n": n})
    for L in size_ls(tier):
        for ci, content in enumerate(SIZE_CONTENTS):
            out.append({"kind": "size", "n": L, "content": content, "multi": False})
            if ci % 2 == 0:
                out.append({"kind": "size", "n": L, "content": content, "multi": True})
    return out


def scale_units(tier, seed):
    out = []
    for name, d in deep_docs(seed):
        for k in range(DEEP_SLICES):
            out.append({"deep": name, "doc": d, "slice": k, "i": 7000 + len(out)})
    descs = ladder_descs(tier)
    small = [d for d in descs if d["n"] <= 40 and d["kind"] != "size"]
    mid = [d for d in descs if 40 < d["n"] <= 257 and d["kind"] != "size"]
    rest = [d for d in descs if d["n"] > 257 or d["kind"] == "size"]
    for k in range(8):
        out.append({"ladders": small[k::8], "i": 8000 + k})
    for k in range(8):
        out.append({"ladders": mid[k::8], "i": 8010 + k})
    for k, d in enumerate(rest):
        out.append({"ladders": [d], "i": 8100 + k})
    vs = value_descs(tier)
    for k in range(16):
        out.append({"values": vs[k::16], "i": 9000 + k})
    return out


def run_scale(part, u, tier, seed):
    if "deep" in u:
        route = {"family": "deep/" + u["deep"], "reparse-memo": True}
        base = {"doc": u["doc"], "route": route}
        depth, fn = deep_plan(u["deep"], tier)
        _doc.explore(part, u["doc"], fn, depth, 0, NL, base, first_slice=(u["slice"], DEEP_SLICES))
        return part
    if "values" in u:
        for vd in u["values"]:
            val = make_value(vd)
            fam = "value-size/%s" % vd["content"] if vd["kind"] == "size" else "value-ladder/lines"
            route = {"family": fam}
            for tail, spec in sorted(VALUE_DOCS.items()):
                doc = _doc.from_spec(spec)
                for key in ("V", "N", "v"):
                    op = ("set", 0, key, val)
                    nd, viol = _doc.run_last(spec, [], doc, op, NL, route)
                    part.states += 1
                    part.transitions += 1
                    part.traces += 1
                    part.evaluations += 1
                    part.nontrivial += 1
                    case = {"doc": spec, "value": vd, "history": [("set", 0, key, "@value")], "route": route}
                    for sig, exp, obs in viol:
                        part.violation(sig, case, exp, obs, rank=1)
                    part.outcomes["%s/%s/%s" % (fam, tail, "ok" if not viol else "violation")] += 1
        part.sample(case)
        return part
    for d in u["ladders"]:
        fam = ("size/%s" % d["content"]) if d["kind"] == "size" else "ladder/" + d["kind"]
        base = {"ladder": d, "route": {"family": fam}}
        fn = ops_ladder if d["n"] <= 12 else ops_ladder_minimal
        _doc.explore(part, _doc.ladder_spec(d), fn, 1, 0, NL, base)
        part.extra["ladder-documents"] += 1
    part.sample(dict(base, history=[fn(_doc.from_spec(_doc.ladder_spec(d)))[0]]))
    return part
