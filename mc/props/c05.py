"""C05 - dict-style edits through the format-preserving parser are local and read back (Engine A)."""
from .. import core
from . import _doc

ID = "C05"
LEVEL = "model_checking"
RULE = ("documents generated from segments (7 field layouts x position, 1-2 paragraphs, 3 separators, leading/trailing "
        "comments, final newline present or absent); states = distinct model documents reached, transitions = one "
        "set/add/delete applied to model and implementation, traces = complete histories replayed from a fresh parse "
        "in tree mode; non-trivial = states other than the initial document")
BUDGET = {"quick": 240, "thorough": 3000}
NL = "strict"


def bounds(tier):
    return {"documents": len(docs(0)), "values": VALUES,
            "tree_depth": 2 if tier == "quick" else 3, "graph_depth": 3 if tier == "quick" else 4,
            "quick_tree": "level 2 extends histories whose first operation is a deletion or uses a core value %r; every operation is tried at both levels" % (CORE_VALUES,),
            "graph_alphabet": "values x, 'x\\n y' only; no case-variant spelling"}


def assumptions():
    return ["a deleted field's own comment lines may go or stay (both accepted)",
            "a new field may be placed before or after comment lines that directly trail its paragraph",
            "the text of an assigned field is free as long as it is `name:` + whole lines reading back as the value",
            "deleting the only field of a paragraph is outside the domain",
            "characters Python treats as whitespace or line boundaries but the control-file format does not define (NBSP, VT, "
            "FF, U+0085, U+2028...) are not used in assigned values (a value containing U+2028 is refused with ValueError)",
            "the model's own field reader defines 'value' (first line trimmed, comment lines dropped)"]


VALUES = ["x", "", " pad ", "x\n y", "x\n y\n\tz", "\n y", "\n y\n z", "x\n y \t", "x\n", "x\n y\n"]


def layouts(name, v, w):
    return [
        (name, "", "%s: %s\n" % (name, v)),
        (name, "", "%s:%s\n" % (name, v)),
        (name, "", "%s:\n %s\n" % (name, v)),
        (name, "", "%s: %s\n %s\n" % (name, v, w)),
        (name, "#cm %s\n" % name, "%s: %s\n" % (name, v)),
        (name, "", "%s: %s\n#in\n %s\n" % (name, v, w)),
        (name, "", "%s:\t%s \n" % (name, v)),
    ]


def docs(seed):
    v = core.rep(seed, ["v", "q", "1.0", "é"])
    w = core.rep(seed, ["w", "r r", "(>= 2)", "ü"])
    names = ["A", "Bb", "C"]
    plain = lambda n: (n, "", "%s: %s\n" % (n, v))
    out = []
    # one paragraph: every layout in every position of a 3-field paragraph, alone, and in a 2-field paragraph
    for li in range(7):
        for pos in range(3):
            fields = [layouts(n, v, w)[li] if i == pos else plain(n) for i, n in enumerate(names)]
            out.append([("par", fields)])
        out.append([("par", [layouts("A", v, w)[li]])])
        out.append([("par", [plain("A"), layouts("Bb", v, w)[li]])])
    # two paragraphs x separators, second paragraph's last field layout varies
    for sep in ("\n", "\n\n", "\n#free\n\n"):
        for li in (0, 3, 4):
            out.append([("par", [plain("A"), plain("Bb")]), ("raw", sep),
                        ("par", [plain("C"), layouts("D", v, w)[li]])])
    # leading / trailing material
    out.append([("raw", "#top\n\n"), ("par", [plain("A"), plain("Bb")])])
    out.append([("raw", "\n"), ("par", [plain("A")]), ("raw", "\n")])
    out.append([("par", [plain("A"), plain("Bb")]), ("raw", "#trail\n")])
    out.append([("par", [plain("A")]), ("raw", "#trail\n\n"), ("par", [plain("C")])])
    out.append([("par", [plain("A")]), ("raw", "  \n")])
    out.append([("par", [plain("A")]), ("raw", "\n#end\n")])
    out.append([("par", [("a", "", "a: %s\n" % v), plain("Bb")])])
    # the same names in different case in two paragraphs (process- or document-wide state keyed by name)
    out.append([("par", [plain("A"), ("Bb", "#cm Bb\n", "Bb: %s\n" % v)]), ("raw", "\n"),
                ("par", [("a", "#cm a\n", "a: %s\n" % v), ("BB", "", "BB: %s\n" % v)])])
    res = []
    for d in out:
        res.append(d)
        res.append(strip_final_newline(d))
    return res


def strip_final_newline(spec):
    doc = _doc.from_spec(spec)
    last = None
    for it, f in _doc.pieces(doc):
        if f is not None or it[1]:
            last = (it, f)
    it, f = last
    if f is None:
        it[1] = it[1][:-1]
    else:
        f.body = f.body[:-1]
    doc = [x for x in doc if x[0] == "par" or x[1]]
    return _doc.to_spec(doc)


def ops_full(doc):
    ops = []
    for pi, par in enumerate(_doc.pars(doc)):
        seen = []
        for f in par:
            if f.name.lower() in seen:
                continue
            seen.append(f.name.lower())
            for val in VALUES:
                ops.append(("set", pi, f.name, val))
            ops.append(("del", pi, f.name))
        if not par:
            # a paragraph that lost all its fields: it can only be given fields again
            for val in VALUES:
                ops.append(("set", pi, "N", val))
            ops.append(("del", pi, "Zz-absent"))
            continue
        ops.append(("set", pi, par[0].name.swapcase(), "y"))
        ops.append(("del", pi, par[-1].name.swapcase()))
        # the field-name token as key (obtained once per history, re-used afterwards)
        ops.append(("tset", pi, par[0].name, "t1"))
        ops.append(("tset", pi, par[0].name, "t2\n t3"))
        # must be refused and leave everything (the field's own comment included) as it was
        ops.append(("set", pi, par[-1].name, _doc.INVALID_VALUES[0]))
        ops.append(("set", pi, par[0].name, _doc.INVALID_VALUES[1]))
        ops.append(("del", pi, "Zz-absent"))
        if "n" not in seen:
            for val in VALUES:
                ops.append(("set", pi, "N", val))
    return ops


def ops_small(doc):
    ops = []
    for pi, par in enumerate(_doc.pars(doc)):
        seen = []
        for f in par:
            if f.name.lower() in seen:
                continue
            seen.append(f.name.lower())
            for val in ("x", "x\n y", "\n y"):
                ops.append(("set", pi, f.name, val))
            ops.append(("del", pi, f.name))
        if "n" not in seen:
            for val in ("x", "x\n y", "\n y"):
                ops.append(("set", pi, "N", val))
    return ops


def sweep_chars():
    return [chr(c) for c in range(0x21, 0x7f)] + list("éüЖ字ß")


SWEEP_DOCS = [
    [("par", [("A", "", "A: v\n"), ("Bb", "#cm\n", "Bb: v\n w\n"), ("C", "", "C: v\n")])],
    [("par", [("A", "", "A: v\n")]), ("raw", "\n"), ("par", [("C", "", "C: v\n"), ("D", "", "D: v")])],
]


def large_docs(seed):
    long_v = "x" * 120
    F = lambda n, val: (n, "", "%s: %s\n" % (n, val))
    M = lambda n, k: (n, "# about %s\n# second comment line\n" % n, "%s: first\n" % n + "".join(" line %d %s\n" % (i, "y" * 30) for i in range(k)))
    names = ["Source", "Section", "Priority", "Maintainer", "Uploaders", "Build-Depends", "Standards-Version", "Homepage"]
    d1 = [("par", [F(names[0], "a"), F(names[1], long_v), M(names[2], 5), F(names[3], "m")]), ("raw", "\n# free\n\n"),
          ("par", [M(names[4], 2), F(names[5], "b"), F(names[6], "4.6"), F(names[7], "h")]), ("raw", "\n"),
          ("par", [F("Package", "p"), M("Description", 6)])]
    return [d1, strip_final_newline(d1)]


CORE_VALUES = ("x", "", "x\n y", "\n y", "x\n y \t", "t1", "y", _doc.INVALID_VALUES[0])


def extend_quick(op):
    """quick tier: every operation is tried after every history of core operations (all operations at level 1)"""
    return op[0] == "del" or op[3] in CORE_VALUES


def units(tier, seed):
    out = [{"doc": d, "i": i} for i, d in enumerate(docs(seed))]
    out += [{"doc": d, "i": 2000 + i, "large": True} for i, d in enumerate(large_docs(seed))]
    cs = sweep_chars()
    out += [{"sweep": cs[i:i + 16], "i": 1000 + i} for i in range(0, len(cs), 16)]
    return out


def unit_cost(u, tier):
    if "sweep" in u or u.get("large"):
        return 1
    return sum(len(it[1]) for it in u["doc"] if it[0] == "par") ** 2


def run_sweep(part, chars):
    """one unusual character at a time inside assigned values (single- and multi-line), depth 1"""
    for c in chars:
        vals = ["x" + c + "y", c, "x\n y" + c, "x" + c + "\n " + c + "z"]
        for spec in SWEEP_DOCS:
            doc = _doc.from_spec(spec)
            for pi, par in enumerate(_doc.pars(doc)):
                for key in (par[-1].name, "N"):
                    for val in vals:
                        op = ("set", pi, key, val)
                        nd, viol = _doc.run_last(spec, [], doc, op, NL)
                        part.states += 1
                        part.transitions += 1
                        part.traces += 1
                        part.evaluations += 1
                        part.nontrivial += 1
                        for sig, exp, obs in viol:
                            part.violation(sig, {"doc": spec, "history": [op]}, exp, obs, rank=1)
                        part.outcomes["sweep/" + ("ok" if not viol else "violation")] += 1
    part.sample({"doc": SWEEP_DOCS[0], "history": [("set", 0, "N", "x" + chars[0] + "y")]})
    return part


def run_unit(u, tier, seed):
    part = core.Part()
    if "sweep" in u:
        return run_sweep(part, u["sweep"])
    td, gd = (2, 3) if tier == "quick" else (3, 4)
    base = {"doc": u["doc"]}
    if u.get("large"):
        td, gd = (1, 0) if tier == "quick" else (2, 0)
    _doc.explore(part, u["doc"], ops_full, td, gd, NL, base, ops_small, extend_quick if tier == "quick" else None)
    part.sample(dict(base, history=[ops_full(_doc.from_spec(u["doc"]))[3]]))
    return part


def replay(case):
    _d, bad = _doc.run_history(case["doc"], [tuple(op) for op in case["history"]], NL)
    return bad


def repro_py(case):
    return ("from debian._deb822_repro import parse_deb822_file\n"
            "text = %r\nf = parse_deb822_file(text.splitlines(True))\nps = list(f)\n%s\nprint(repr(f.dump()))\n" % (
                _doc.render(_doc.from_spec(case["doc"])),
                "\n".join("ps[%d][%r] = %r" % (op[1], op[2], op[3]) if op[0] == "set" else "del ps[%d][%r]" % (op[1], op[2])
                          for op in case["history"])))
