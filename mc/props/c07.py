"""C07 - DebFile returns what was packed and rejects malformed packages.

Engine B.  Packages are written by mc.models.debbuilder (ar + tarfile + gzip/bz2/lzma, nothing from the repo)
and opened with DebFile(fileobj=BytesIO).

  * well-formed packages: content (control fields x maintainer-script subset x md5sums list x data files)
    x configuration (compression of control.tar x compression of data.tar x the 6 member orders = 150);
    the full 150-configuration matrix is run for every content;
  * defective member sets: every subset of the 11 part names {debian-binary, control.tar[.gz|.bz2|.xz|.lzma],
    data.tar[...]} that is not a well-formed package (2 023 subsets: no debian-binary, no control candidate,
    no data candidate, two or more candidates for a part) plus sets whose only offer for a part has an unknown
    extension;
  * large, interleaved packages: three contents whose parts are far bigger than one physical read of the decompressors
    (data files of 20 000 and 70 000 incompressible bytes - chained SHA-256 digests, nothing random - next to three
    small ones; the same with a 20 000-byte binary "config" script; and 140 000-byte members for gzip, which fetches
    128 KiB at a time), in all 25 compression pairs x 2 member orders, each queried in 3..5 interleaved histories on ONE
    DebFile object: data/control/data/scripts/data..., control first, and get_file() streams read in 4096-byte chunks
    with control queries (or a second stream, of the control part or of another data file) between the chunks.

  * empty contents: packages in which something is present but empty - 0-byte maintainer scripts (each single one, all
    five, mixes with non-empty ones), a 0-byte md5sums member, 0-byte data files next to non-empty ones, a data tarball
    without files (with and without the "./" root entry), control fields whose value is the empty string, a control
    file without fields, and all of it at once - each in the full 150-configuration matrix; their data files (and
    every 0-byte data file of the other contents) are also read through get_file().

  * dot names: data files at the ROOT of the tarball whose own name begins with dots (.hidden, ..x, .a/b, .-, ...y) - alone,
    next to ordinary names, and not packed while the names they become without their leading dots are (the queries
    'name', './name', '/name' add a prefix made of the very characters these names start with) - each in the full
    150-configuration matrix, every file also read through get_file() in the three spellings.

  * ways of opening: everything above hands the package over as DebFile(fileobj=io.BytesIO(raw)).  The constructor
    documents "either a filename or an existing file object", the class is a context manager and has close(): a subset
    (three contents in all 25 compression pairs x 2 member orders, every empty-content package in all 25 pairs, every
    defective member set in one order, large histories in all 25 pairs x 1 member order) is opened through a scratch
    file as DebFile(filename=path), DebFile(path), `with DebFile(filename=path) as d:`, DebFile(fileobj=open(path, "rb")),
    after an explicit close() of a first DebFile on the same file ("reopen"), and after the same file NAME held another
    package that was opened, read and closed ("rewrite").  Same observations, same oracle; signatures get the prefix
    "via-<mode>/".

  * routes: seven contents (the three above + four awkward ones) in all 25 compression pairs x 3 (thorough: 6) member orders are asked along
    every route of ROUTES: the part objects' own methods and container emulation, encoding= / errors= arguments, every
    question repeated, another order of questions, two DebFile objects alive on one file object / one file name, other
    constructor argument forms, the TarFile of part.tgz().  Signatures get the prefix "via-<route>/".

  * beyond the small scope (count and size ladders, see bounds()["beyond_the_small_scope"]): md5sums lists of 1..40, ... 1000,
    2000, 5000 entries, 1..5000 additional control fields, one field value of up to 256 KiB, 1..257 and 1000 data files, one
    data file of 997 bytes .. 256 KiB + 1 around every power-of-two block size, three and more candidates for one part in every
    rotation of the member order.  Signatures start with ladder/... or size/...; the inputs are regenerated from the case.

Oracle: what was packed (the generator's own lists), never anything read back through the code under test.
"""
import io
import itertools
import os
import tempfile

from .. import core
from ..models import debbuilder as db

ID = "C07"
LEVEL = "model_checking"
RULE = ("inputs = (content, configuration) pairs and defective member sets, walked as a choice tree content -> control "
        "compression -> data compression -> member order (states = nodes of that tree, transitions = its edges, traces = "
        "complete packages opened with DebFile and queried); non-trivial = well-formed packages with at least one data "
        "file and at least one compressed or displaced part, plus every defective member set, plus every large-package "
        "history.  Large packages (parts of 20 KB .. 280 KB, each consumed in many physical reads) add a second level: content "
        "-> control compression -> data compression -> member order -> history -> its operations on ONE DebFile object "
        "(get_content / has_file / debcontrol / scripts / md5sums / get_file + read(n) chunks, alternating between the "
        "control and the data part); there a state is an operation prefix, a transition one operation whose result is "
        "compared with what was packed, a trace one complete history.  Empty-content packages (0-byte scripts / md5sums / "
        "data files, member-less data tarball, empty field values) are further contents of the first tree.  Ways of opening "
        "(fileobj=BytesIO everywhere; filename=, positional file name, with-statement, a real file object, close()-and-reopen, "
        "the same file name rewritten with another package) are one more choice below the member order for a stated subset: "
        "one state / transition / trace per (package, way of opening), the same observations and oracle")
BUDGET = {"quick": 240, "thorough": 3000}

ORDERS = list(itertools.permutations((0, 1, 2)))
CONFIGS = [(cc, dc, o) for cc in db.COMPRESSIONS for dc in db.COMPRESSIONS for o in ORDERS]
SPELLINGS = [("plain", ""), ("dot", "./"), ("slash", "/")]

CAND = {"control": [db.part_name("control", k) for k in db.COMPRESSIONS],
        "data": [db.part_name("data", k) for k in db.COMPRESSIONS]}
ALL_NAMES = [db.INFO] + CAND["control"] + CAND["data"]
NEAR_MISS = {"control": ["control.tar.zst", "control.tar.GZ", "control.tgz", "control.tar."],
             "data": ["data.tar.zst", "data.tar.GZ", "data.tgz", "data.tar."]}

selfcheck_result = None


def bounds(tier):
    return {"control_variants": 3, "script_subsets": "none, each single script, all five (7)",
            "md5sums_lists": "derived from the data files / fixed 4-entry list with inner, doubled and trailing blanks and non-ASCII / empty",
            "data_files": "0..2 files over 4 names x 3 contents (67 sets) + the 54 two-file sets in reversed tar order; %s" % (
                "control side (63 variants) and data side co-varied: every control-side variant with no data file and with "
                "2 deterministic partners, every data set with 1 deterministic partner, 6 reversed sets" if tier == "quick" else
                "full cross product control side x the 67 sets; each reversed set with 3 control sides"),
            "configurations": "5 x 5 compressions x 6 member orders = 150, all of them for every content",
            "defective_sets": "all 2023 non-well-formed subsets of the 11 part names + 17 unknown-extension sets, in %d member orders"
                              % (2 if tier == "quick" else 4),
            "large_packages": {
                "contents": "big-data (data files of 20000 and 70000 incompressible bytes + 3 small, small control part), "
                            "big-both (the same + a 20000-byte config script), huge-both (140000-byte data file and config "
                            "script: parts > 128 KiB, for gzip's read size)",
                "configurations": "big-data/big-both: 5 x 5 compressions x %d member orders; huge-both: %s x %d member orders" % (
                    len(LARGE_ORDERS[tier]), "(none,gz) (gz,none) (gz,gz)" if tier == "quick" else "the 9 pairs with gz on a side",
                    len(LARGE_ORDERS[tier])),
                "histories": dict((k, list(v)) for k, v in LARGE_HISTORIES.items()),
                "stream_chunk_sizes": CHUNK[tier],
                "part_sizes": "every compressed part of big-both/huge-both and every data part exceeds 8192 bytes (20 KB..280 KB)"},
            "empty_contents": [name for name, _c in empties(0)],
            "dot_names": {"names": DOT_NAMES, "contents": [name for name, _c in dotnames(0)],
                          "queried": "every packed file in the 3 spellings (get_content, has_file, in, get_file); every dot name "
                                     "and every ordinary name that is not packed must be absent in the 3 spellings"},
            "beyond_the_small_scope": {
                "md5sums entries": "every n in 1..40 and %r entries (names with inner / doubled / trailing blanks and non-ASCII at fixed "
                                   "residues; 1000+ entries exceed 64 KiB), control part in each of the 5 compressions, member order "
                                   "rotating with n; bytes keys and str keys" % [n for n in SC_COUNTS if n > 40],
                "control fields": "the same n as additional fields (every 5th multi-line, every 7th empty) after / before / between "
                                  "the ordinary three, 5 compressions (n > 257: one arrangement per n)",
                "field value size": "one value of %r characters as a single line with blanks and as 70-character continuation "
                                    "lines; control part none / gz / xz" % SC_SIZES,
                "data files": "every n in 1..40 and %r files (every 4th empty, every 3rd with a blank in its name), each asked in the "
                              "3 spellings; data part in 5 compressions (1000 files: none / gz)" % [n for n in SC_FILE_COUNTS if n > 40],
                "data member size": "a data file of %r bytes between two small ones: incompressible bytes and text with a newline "
                                    "before every 16 KiB boundary; data part none / gz (bz2 / xz / lzma: %s); get_content, has_file, "
                                    "in, get_file().read() in the 3 spellings, get_file() read in pieces of 65536 / 16384 / 65537; "
                                    "fileobj= and filename=" % (SC_SIZES, "the same sizes" if tier != "quick" else repr(SC_SIZES_SLOW)),
                "three and more candidates": "3, 4 and 5 candidates for the control part (and for the data part) next to one offer for "
                                             "the other part, and 3+2 / 5+5 candidates for both, in every rotation of the member order: "
                                             "DebError"},
            "open_mode": {"everywhere": "DebFile(fileobj=io.BytesIO(...))",
                          "other_ways": list(OPEN_MODES[1:]),
                          "three_contents": "3 contents (%s) x 25 compression pairs x %d member orders: %s"
                                            % (KIND_CONTENTS, len(kind_orders(tier)),
                                               "filename= for every package + one of the other ways, rotating" if tier == "quick"
                                               else "every way for every package"),
                          "empty_contents": "every empty-content package x 25 compression pairs (member order rotating): filename=%s"
                                            % ("" if tier == "quick" else " and a real file object"),
                          "defective_sets": "every defective member set in its canonical member order: filename=%s"
                                            % ("; every fourth set also through a real file object, every fourth through a positional "
                                               "file name" if tier == "quick" else ", a real file object; every second a positional file name"),
                          "routes": {"routes": list(ROUTES),
                                     "packages": "7 contents (the three above; scripts empty/non-empty alternating; empty data files "
                                                 "around non-empty ones; control values with form feed / vertical tab / U+0085 / "
                                                 "U+2028; dot names next to ordinary names) x 25 compression pairs x %d member "
                                                 "orders, every route on every package" % len(ROUTE_ORDERS[tier])},
                          "large_histories": "%s of every large content x its compression pairs x 1 member order "
                                             "(alternating with the pair), chunk size %d: filename=" % (
                                                 "two histories (rotating with the pair: every history with every compression "
                                                 "of either part; huge-both: all three)" if tier == "quick" else "every history",
                                                 CHUNK[tier][0]),
                          "scratch": "one tempfile per case in /dev/shm when writable (else the default temporary directory), "
                                     "removed in finally"}}


def assumptions():
    return ["debbuilder output is a faithful .deb: cross-checked with dpkg-deb -I/-f/-c/--fsys-tarfile/--ctrl-tarfile when installed",
            "'package-format error' = debian.debfile.DebError (subclasses accepted, its base ArError is not)",
            "a 'candidate for a part' is a member named control.tar/data.tar with no extension or one of gz, bz2, xz, lzma; "
            "two members carrying the *same* candidate name, and an unknown extension next to a valid candidate, are left open "
            "by the statement and are not generated",
            "for names that were not packed the check demands has_file/in == False for all three spellings and the same "
            "exception class from get_content for all three spellings (nothing about which class)",
            "the md5sums control member is written as 'md5<two blanks>name\\n' per entry (dpkg's format); names have inner "
            "and trailing blanks (a leading blank cannot be told from the separator; no CR/LF inside names)",
            "large packages: 'incompressible' bytes are chained SHA-256 digests (debbuilder.chain_bytes), deterministic; the seed "
            "only changes the chain's label.  A get_file() object is read with read(n) and must return exactly the next n packed "
            "bytes (fewer only at the end of the member, b'' after it) whatever else was queried on the same DebFile object in "
            "between; a history stops at its first wrong observation.  Any exception (LZMAError, EOFError, zlib.error, "
            "tarfile.ReadError...) raised while reading a well-formed package is a violation",
            "tar members are './name' with a './' root entry and intermediate directory entries (as dpkg-deb writes them), GNU "
            "format; one empty-content package has a data tarball with no member at all (what tar writes for an empty file list)",
            "empty contents: the statement says 'a control file, maintainer scripts, an md5sums list and data files' "
            "without demanding that any of them has content: a 0-byte script is a packed script (scripts() must list it "
            "with b''), a 0-byte md5sums member is an empty list ({}), a 0-byte data file is a file (has_file True, content "
            "b'', get_file() gives an object whose read() is b''), a field written as 'Name:' has the value '' and a 0-byte "
            "control file has no fields; the unchanged library returns exactly that for all of them",
            "dot names: a data file is './' + name in the tarball (as dpkg-deb writes it); a name may begin with dots ('.hidden', "
            "'..x', '.a/b') - only '.' and '..' themselves are not file names.  'name', './name' and '/name' are spellings of "
            "that one name: './.hidden' is the file '.hidden', never the file 'hidden'",
            "ways of opening: ArFile/DebFile document 'either a filename or an existing file object' (filename is the first "
            "positional parameter), __enter__/__exit__ and close(); the statement speaks of 'the package reader' without "
            "restricting how the package is handed over, so every documented way must give the same observations.  close() "
            "(explicit, or by leaving the with-block) must not raise; nothing is demanded of a DebFile after its close().  "
            "'reopen' = a first DebFile on the file is queried (debcontrol, one has_file question to the data part) and closed, then a second one is "
            "opened on the same file and observed; 'rewrite' = the scratch file first holds another well-formed package that is "
            "opened, queried and closed, then the file is overwritten with the package under test and opened by name",
            "routes: the part objects' own methods (deb.control.debcontrol / scripts / md5sums - DebFile's are documented as "
            "proxies), part[name] and `name in part` (container emulation, for both parts), keyword and positional encoding= / "
            "errors= of get_content / get_file / md5sums, every question asked twice and once more in reverse order, another "
            "order of questions (md5sums first, control last), two DebFile objects alive on one (rewound) file object or on "
            "one file name taking turns, the constructor's other argument forms (mode 'r' given, positional fileobj, a "
            "BufferedReader), and the TarFile handed out by part.tgz() ('Return a TarFile object corresponding to this part') "
            "must all return what was packed",
            "routes: with encoding= the reference is what a text-mode file (io.TextIOWrapper, default newline handling) over "
            "the packed bytes returns - 'If encoding is given, then the file object will return Unicode data'; md5sums keys "
            "with encoding= are the packed names' UTF-8 bytes decoded with that encoding and error handler",
            "beyond the small scope: the ladder contents are generated from a compact description in the case (family, n or size, "
            "compressions, member order) by scale_content(); md5 values of the md5sums ladder are those of the entry names (any 32 "
            "hexadecimal digits are a legitimate list: the statement compares the list that was packed, not the data); nothing is "
            "sampled - every n of a ladder and every size is packed and opened",
            "routes left out: iteration over a part (yields the tarball's own member names incl. directories: not a "
            "membership or content query of the statement), DebFile.version, DebFile.changelog() (a parsed view of one data "
            "file, judged by the changelog properties), pathlib.Path file names (the parameter is documented as str), a file "
            "object that is not positioned at the start of the archive (ArFile reads from the current position), member "
            "names given as bytes"]


# ------------------------------------------------------------------------------------------------ content

def symbols(seed):
    x = core.rep(seed, ["x", "y", "k", "w"])
    binary = core.rep(seed, [b"\x00\xff", b"\xff\x00\x80", b"\x1f\x8b\x08", b"\r\n\x00"])
    text = core.rep(seed, [b"text\n", b"hello world\n", b"a\nb\n", b"#!/bin/sh\n"])
    return x, binary, text


def control_variants(seed):
    x = symbols(seed)[0]
    return [
        [("Package", x), ("Version", "1.0-1"), ("Architecture", "all"), ("Description", "short")],
        [("Package", "lib" + x + "2"), ("Version", "2:1.0~rc1+b2"), ("Architecture", "amd64"),
         ("Maintainer", "A B <a@b.c>"), ("Depends", "libc6 (>= 2.1), y | z"),
         ("Description", "short\n long line\n .\n  indented")],
        [("Package", x), ("version", "0"), ("X-Custom-Field", "é ü"), ("Maintainer", "Zoë <z@e>"),
         ("Description", "d\n é")],
    ]


def script_body(name, seed):
    if name == "config":
        return b"\x7fELF\x00\xff" + name.encode()
    return b"#!/bin/sh\n# " + name.encode() + b"\nexit 0\n"


def script_subsets(seed):
    out = [[]]
    out += [[(n, script_body(n, seed))] for n in db.SCRIPTS]
    out.append([(n, script_body(n, seed)) for n in db.SCRIPTS])
    return out


def data_names(seed):
    x = symbols(seed)[0]
    return ["usr/bin/" + x, "a b", "etc/é", x]


def data_sets(seed, reverse=False):
    """0..2 files; reverse=True gives only the 2-file sets, in the opposite tar order"""
    _x, binary, text = symbols(seed)
    names = data_names(seed)
    contents = [b"", binary, text]
    out = []
    if not reverse:
        out.append([])
        out += [[(n, c)] for n in names for c in contents]
    for n1, n2 in itertools.combinations(names, 2):
        for c1 in contents:
            for c2 in contents:
                out.append([(n2, c2), (n1, c1)] if reverse else [(n1, c1), (n2, c2)])
    return out


FIXED_MD5 = [("d41d8cd98f00b204e9800998ecf8427e", "a b"),
             ("0123456789abcdef0123456789abcdef", "usr/share/doc/x y/with  two blanks"),
             ("ffffffffffffffffffffffffffffffff", "etc/é ü"),
             ("00000000000000000000000000000000", "trailing blank "),
             ("11111111111111111111111111111111", "*README*")]         # md5sum's binary-mode flag is not part of dpkg's format


def control_sides(seed):
    """(control fields, scripts, md5 mode) simplest first"""
    out = []
    for md5 in ("data", "fixed", "empty"):
        for si, sc in enumerate(script_subsets(seed)):
            for ci, cv in enumerate(control_variants(seed)):
                out.append((cv, sc, md5))
    return out


def md5_entries(mode, data):
    if mode == "data":
        return [(db.md5_of(c), n) for n, c in data]
    if mode == "fixed":
        return list(FIXED_MD5)
    return []


def contents_for(tier, seed):
    """-> list of content dicts, simplest first; a content is everything but the configuration"""
    cs = control_sides(seed)
    ds = data_sets(seed)
    nfwd = len(ds)
    ds = ds + data_sets(seed, reverse=True)
    pairs = []
    seen = set()

    def add(j, i):
        if cs[j][2] == "empty" and not ds[i]:
            return          # same bytes as md5 mode "data" with no data files
        if (j, i) not in seen:
            seen.add((j, i))
            pairs.append((j, i))
    if tier == "quick":
        for j in range(len(cs)):
            add(j, 0)
        for i in range(nfwd):
            add(i % len(cs), i)
        for j in range(len(cs)):
            add(j, (j * 7 + 3) % nfwd)
            add(j, 1 + (j * 11) % (nfwd - 1))
        for i in range(nfwd, len(ds), 9):       # a few reversed tar orders
            add(i % len(cs), i)
    else:
        for i in range(nfwd):
            for j in range(len(cs)):
                add(j, i)
        for i in range(nfwd, len(ds)):
            for t in range(3):
                add((i * 5 + t * 21) % len(cs), i)
    out = []
    for j, i in pairs:
        cv, sc, md5 = cs[j]
        out.append({"control": [list(p) for p in cv], "scripts": [list(p) for p in sc],
                    "md5": [list(p) for p in md5_entries(md5, ds[i])], "data": [list(p) for p in ds[i]]})
    out += [c for _name, c in empties(seed)]
    out += [c for _name, c in dotnames(seed)]
    return out


def empties(seed):
    """-> [(name, content)]: well-formed packages in which something is present but EMPTY, simplest first"""
    x, binary, text = symbols(seed)
    names = data_names(seed)
    cv = control_variants(seed)
    body = lambda n: script_body(n, seed)  # noqa: E731
    one = [[names[0], text]]
    out = []

    def add(name, control=cv[0], scripts=(), md5="data", data=one, **kw):
        data = [list(p) for p in data]
        md5e = md5_entries(md5, [tuple(p) for p in data])
        c = {"control": [list(p) for p in control], "scripts": [list(p) for p in scripts], "md5": [list(p) for p in md5e],
             "data": data, "empties": name}
        c.update(kw)
        out.append((name, c))
    for n in db.SCRIPTS:
        add("script %s empty, alone" % n, scripts=[(n, b"")])
    add("all five scripts empty", scripts=[(n, b"") for n in db.SCRIPTS])
    add("scripts empty/non-empty alternating, first empty", control=cv[1],
        scripts=[(n, b"" if i % 2 == 0 else body(n)) for i, n in enumerate(db.SCRIPTS)])
    add("scripts non-empty/empty alternating, first non-empty", md5="fixed",
        scripts=[(n, b"" if i % 2 == 1 else body(n)) for i, n in enumerate(db.SCRIPTS)])
    add("one empty script between its neighbours' absence, empty md5sums", md5="empty", scripts=[("postinst", b""), ("config", body("config"))])
    add("empty data files around non-empty ones", control=cv[2],
        data=[(names[0], b""), (names[1], text), (names[2], b""), (names[3], binary)])
    add("only empty data files, empty md5sums", md5="empty", data=[(names[1], b""), (names[0], b"")])
    add("data tarball without files and without root entry", data=[], bare_data_tar=True)
    add("empty field values: last and middle", control=[("Package", x), ("Description", ""), ("Version", "1"), ("X-Empty", "")])
    add("empty field values: first, and before a multi-line value", scripts=[("prerm", b"")],
        control=[("Package", ""), ("Version", "1"), ("Depends", ""), ("Description", "s\n long")])
    # the control file is read as bytes, where only LF / CR end a line: the characters at which str.splitlines() also cuts are
    # ordinary characters of a value, also when a blank follows them
    add("control values with form feed, vertical tab, U+0085, U+2028 followed by a blank",
        control=[("Package", x), ("Version", "1"), ("Comment", "a\x0c b"), ("X-Sep", "c\u2028 d\x85 e\x1c f"),
                 ("Description", "s\n l\x0b more\n \u2029 z")])
    add("control file without fields", control=[], data=[])
    add("everything empty", control=[("Package", ""), ("Version", "")], scripts=[(n, b"") for n in db.SCRIPTS], md5="empty",
        data=[(names[0], b""), (names[1], b""), (names[2], b"")])
    return out


DOT_NAMES = [".hidden", "..x", ".a/b", ".-", "...y"]


def dotnames(seed):
    """-> [(name, content)]: data files whose own name begins with dots, at the ROOT of the tarball (the three spellings
    'name', './name', '/name' differ from them only by a prefix made of the same characters), simplest first"""
    x, binary, text = symbols(seed)
    names = data_names(seed)
    cv = control_variants(seed)
    out = []

    def add(name, data, control=cv[0], md5="data"):
        data = [list(p) for p in data]
        md5e = md5_entries(md5, [tuple(p) for p in data])
        out.append((name, {"control": [list(p) for p in control], "scripts": [], "md5": [list(p) for p in md5e], "data": data,
                           "dotnames": name}))
    add("one dot file at the root", [(".hidden", text)])
    add("name starting with two dots", [("..x", binary)])
    add("dot directory at the root", [(".a/b", text)])
    add("dot and dash", [(".-", text)])
    add("dot names next to ordinary names", control=cv[1],
        data=[(names[0], text), (".hidden", binary), (names[1], b""), ("..x", text), (".a/b", binary), ("...y", b""), (".-", b"-")])
    # ... and the other way round: the dot names are NOT packed, the names they turn into without their dots are
    add("ordinary names whose dotted variants are asked for", [("hidden", text), ("x", binary), ("a/b", text), ("-", b"")])
    return out


# ------------------------------------------------------------------------------------------------ defective sets

def classify(names):
    """The statement's verdict from the member names alone: None = well-formed, else the kind of defect."""
    s = set(names)
    c = [n for n in CAND["control"] if n in s]
    d = [n for n in CAND["data"] if n in s]
    if db.INFO not in s:
        return "no-debian-binary"
    if not c:
        return "no-control" + ("/unknown-ext" if any(n in s for n in NEAR_MISS["control"]) else "")
    if len(c) > 1:
        return "multi-control"
    if not d:
        return "no-data" + ("/unknown-ext" if any(n in s for n in NEAR_MISS["data"]) else "")
    if len(d) > 1:
        return "multi-data"
    return None


def defective_sets():
    """-> list of member-name lists (canonical member order), simplest (fewest members) first"""
    out = []
    for k in range(len(ALL_NAMES) + 1):
        for sub in itertools.combinations(ALL_NAMES, k):
            if classify(sub) is not None:
                out.append(list(sub))
    extra = []
    for nm in NEAR_MISS["control"]:
        extra.append([db.INFO, nm, "data.tar.gz"])
    for nm in NEAR_MISS["data"]:
        extra.append([db.INFO, "control.tar.gz", nm])
    for k in db.COMPRESSIONS:
        extra.append([db.INFO, "control.tar.zst", db.part_name("data", k)])
        extra.append([db.INFO, db.part_name("control", k), "data.tar.zst"])
    extra.append([db.INFO, "control.tar.zst", "data.tar.zst"])
    seen = set()
    for e in extra:
        if tuple(e) not in seen:
            seen.add(tuple(e))
            assert classify(e) is not None
            out.append(e)
    return out


def member_orders(names, tier):
    n = len(names)
    orders = [list(names), list(reversed(names))]
    if tier == "thorough":
        orders += [names[n // 2:] + names[:n // 2], names[1::2] + names[0::2]]
    out = []
    for o in orders:
        if o not in out:
            out.append(o)
    return out


_TINY_CTRL = db.control_files([("Package", "p"), ("Version", "1")], [], [])
_TINY_DATA = [("f", b"f\n")]
_cache = {}


def member_bytes(name):
    """content of an ar member of a defective set: a genuine (compressed) tarball for every part-like name"""
    if name == db.INFO:
        return db.INFO_DATA
    if name not in _cache:
        base = "control" if name.startswith("control") else "data"
        tar = db.tar_bytes(_TINY_CTRL, False) if base == "control" else db.tar_bytes(_TINY_DATA)
        kind = "none"
        for k in db.COMPRESSIONS:
            if name == db.part_name(base, k):
                kind = k
        _cache[name] = db.compress(tar, kind)
    return _cache[name]


# ------------------------------------------------------------------------------------------------ units

def units(tier, seed):
    global selfcheck_result
    if selfcheck_result is None:
        selfcheck_result = db.selfcheck()
    out = []
    for c in contents_for(tier, seed):
        out.append({"kind": "valid", "content": c})
    for c in kind_contents(seed):
        out.append({"kind": "valid-kinds", "content": c})
    for c in route_contents(seed):
        for cc in db.COMPRESSIONS:
            out.append({"kind": "valid-routes", "content": c, "cc": cc})
    dsets = defective_sets()
    chunk = 128
    for i in range(0, len(dsets), chunk):
        out.append({"kind": "defective", "sets": dsets[i:i + chunk]})
    for name in LARGE_CONTENTS:
        for cc in db.COMPRESSIONS:
            if any(c == cc for c, _d in large_pairs(name, tier)):
                out.append({"kind": "large", "content": name, "cc": cc})
    out += scale_units(tier)
    return out


def unit_cost(u, tier):
    if u["kind"] == "defective":
        return 1
    if u["kind"] == "scale":
        return 3000 if u["family"] in ("data-size", "fields") else 1500
    if u["kind"] == "large":
        return 1000 * len([1 for c, _d in large_pairs(u["content"], tier) if c == u["cc"]])
    c = u["content"]
    if u["kind"] == "valid-kinds":
        return 30 + 3 * len(c["data"]) + len(c["scripts"])
    if u["kind"] == "valid-routes":
        return 20 + 2 * len(c["data"]) + len(c["scripts"])
    return 10 + 3 * len(c["data"]) + len(c["scripts"])


# ------------------------------------------------------------------------------------------------ execution

def _exc(e):
    return "%s: %s" % (type(e).__name__, e)


OTHER_CONTENT = {"control": [("Package", "zz-other"), ("Version", "9"), ("Description", "another package")],
                 "scripts": [("postinst", b"#!/bin/sh\necho other\n")], "md5": [],
                 "data": [("zz/other", b"OTHER")]}
_other = []


def open_others():
    """what a program handling several packages does between opening a package and reading it: opens another
    well-formed package (and keeps it alive) and tries to open a defective one"""
    from debian.debfile import DebFile, DebError
    if not _other:
        pk = Packer(OTHER_CONTENT)
        _other.append(pk.raw("gz", "xz", (0, 1, 2)))
        _other.append(db.assemble([(db.INFO, db.INFO_DATA),
                                   (db.part_name("control", "gz"), pk.parts[("control", "gz")])]))
    keep = DebFile(fileobj=io.BytesIO(_other[0]))
    keep.debcontrol()
    try:
        DebFile(fileobj=io.BytesIO(_other[1]))
    except DebError:
        pass
    return keep


def _read_all(f):
    """read() of what get_file() returned (a mistake of the reader, e.g. None for an empty member, shows as the result)"""
    if f is None or not hasattr(f, "read"):
        return "get_file returned %r" % (f,)
    try:
        return f.read()
    finally:
        f.close()


# ------------------------------------------------------------------------------------------------ ways of opening
#
# "fileobj" is DebFile(fileobj=io.BytesIO(raw)), used everywhere.  The others go through a scratch file.

OPEN_MODES = ["fileobj", "filename", "positional", "with", "realfile", "reopen", "rewrite"]
EXTRA_MODES = OPEN_MODES[2:]
KIND_CONTENTS = "one data file and nothing else / five scripts, fixed md5sums list, two files / binary config script, no md5sums entry, two files in reversed tar order"


def kind_orders(tier):
    return LARGE_ORDERS[tier]


def kind_contents(seed):
    """the three contents opened in every way: one data file and nothing else; all five scripts, the fixed md5sums list
    and two data files (names with a blank and non-ASCII); one binary script, no md5sums entry, two files in reversed
    tar order"""
    cs = control_sides(seed)
    ds = data_sets(seed)
    rs = data_sets(seed, reverse=True)
    x, binary, text = symbols(seed)
    names = data_names(seed)
    picks = [(cs[0], [(names[0], text)]),
             ([c for c in cs if c[2] == "fixed" and len(c[1]) == 5 and c[0] == control_variants(seed)[1]][0],
              [(names[1], binary), (names[2], text)]),
             ([c for c in cs if c[2] == "empty" and [n for n, _b in c[1]] == ["config"] and c[0] == control_variants(seed)[2]][0],
              [(names[3], b""), (names[0], binary)])]
    assert picks[1][1] in ds and picks[2][1] in rs
    out = []
    for (cv, sc, md5), data in picks:
        out.append({"control": [list(p) for p in cv], "scripts": [list(p) for p in sc],
                    "md5": [list(p) for p in md5_entries(md5, data)], "data": [list(p) for p in data]})
    return out


def scratch_dir():
    d = "/dev/shm"
    return d if os.path.isdir(d) and os.access(d, os.W_OK | os.X_OK) else None     # None: tempfile's default


def _unlink(path):
    try:
        os.unlink(path)
    except FileNotFoundError:
        pass


def write_scratch(raw, path=None):
    """raw -> path of a scratch file holding it (the caller removes it in finally); path given: overwrite that file"""
    if path is None:
        fd, path = tempfile.mkstemp(prefix="verif-c07-", suffix=".deb", dir=scratch_dir())
        f = os.fdopen(fd, "wb")
    else:
        f = open(path, "wb")
    try:
        with f:
            f.write(raw)
    except BaseException:
        _unlink(path)
        raise
    return path


def open_deb(mode, raw, path, keep):
    """the DebFile of one package, opened the given way.  keep: receives the file objects the harness has to close.
    Whatever the library raises on the way propagates (the caller turns it into 'open raises')."""
    from debian.debfile import DebFile
    if mode == "fileobj":
        return DebFile(fileobj=io.BytesIO(raw))
    if mode in ("filename", "with"):
        return DebFile(filename=path)
    if mode == "positional":
        return DebFile(path)
    if mode == "realfile":
        f = open(path, "rb")
        keep.append(f)
        return DebFile(fileobj=f)
    if mode == "reopen":
        first = DebFile(filename=path)
        first.debcontrol()
        first.data.has_file("no/such/file")
        first.close()
        return DebFile(filename=path)
    if mode == "rewrite":
        open_others()                                   # fills _other
        write_scratch(_other[0], path)
        other = DebFile(filename=path)
        other.debcontrol()
        other.data.get_content("zz/other")
        other.close()
        write_scratch(raw, path)
        return DebFile(filename=path)
    raise ValueError(mode)


def _via(mode, bad):
    if mode == "fileobj":
        return bad
    return [("via-%s/%s" % (mode, b[0]),) + tuple(b[1:]) for b in bad]


def check_valid(raw, content, names_universe, interleave=False, mode="fileobj"):
    """Open one well-formed package (the given way) and compare every observation with what was packed.
    -> list of (sig, expected, observed)"""
    if mode == "fileobj":
        return _check_valid(raw, None, content, names_universe, interleave, mode)
    path = write_scratch(raw)
    try:
        return _via(mode, _check_valid(raw, path, content, names_universe, interleave, mode))
    finally:
        _unlink(path)


def _check_valid(raw, path, content, names_universe, interleave, mode):
    keep = []
    try:
        try:
            deb = open_deb(mode, raw, path, keep)
        except Exception as e:
            return [("deb/open/raises/" + type(e).__name__, "package accepted", _exc(e))]
        if mode == "with":
            bad = []
            stage = "enter"
            try:
                with deb as entered:
                    stage = "body"
                    if entered is not deb:
                        bad = [("deb/with/enter-result", "the DebFile object", repr(entered))]
                    else:
                        bad = _observe_valid(deb, content, names_universe, interleave)
                    stage = "exit"
            except Exception as e:
                if stage == "body":
                    raise               # the observations catch what the library raises: this is the harness
                bad = bad + [("deb/with/%s/raises/%s" % (stage, type(e).__name__), "no exception", _exc(e))]
            return bad
        bad = _observe_valid(deb, content, names_universe, interleave)
        if mode != "fileobj":
            try:
                deb.close()
            except Exception as e:
                bad = bad + [("deb/close/raises/" + type(e).__name__, "no exception", _exc(e))]
        return bad
    finally:
        for f in keep:
            f.close()


def _observe_valid(deb, content, names_universe, interleave):
    bad = []
    if interleave:
        try:
            _keep = open_others()
        except Exception as e:
            return [("deb/open-other/raises/" + type(e).__name__, "another package opens", _exc(e))]

    def attempt(sig, fn):
        try:
            return True, fn()
        except Exception as e:
            bad.append((sig + "/raises", "no exception", _exc(e)))
            return False, None

    want_fields = [(k, v) for k, v in content["control"]]
    want_ctrl_text = db.control_text(want_fields)

    def q_control():
        ok, got = attempt("deb/debcontrol", lambda: list(deb.debcontrol().items()))
        if ok and got != want_fields:
            bad.append(("deb/debcontrol/fields", want_fields, got))

    def q_data(name, data):
        for sp, prefix in SPELLINGS:
            q = prefix + name
            ok, got = attempt("deb/data/get_content/" + sp, lambda: deb.data.get_content(q))
            if ok and got != data:
                bad.append(("deb/data/get_content/" + sp, data, got))
            ok, got = attempt("deb/data/has_file/" + sp, lambda: deb.data.has_file(q))
            if ok and got is not True:
                bad.append(("deb/data/has_file/" + sp, True, got))
            ok, got = attempt("deb/data/contains/" + sp, lambda: q in deb.data)
            if ok and got is not True:
                bad.append(("deb/data/contains/" + sp, True, got))
            # get_file(): every spelling in the empty-content packages; elsewhere for 0-byte files, one spelling each
            # (non-empty files are streamed through get_file() by the large-package histories)
            if content.get("empties") or content.get("dotnames") or (not data and sp == SPELLINGS[len(name) % 3][0]):
                ok, got = attempt("deb/data/get_file/" + sp, lambda: _read_all(deb.data.get_file(q)))
                if ok and got != data:
                    bad.append(("deb/data/get_file/" + sp, data, got))

    def q_absent(name):
        classes = []
        for sp, prefix in SPELLINGS:
            q = prefix + name
            ok, got = attempt("deb/data/absent/has_file/" + sp, lambda: deb.data.has_file(q))
            if ok and got is not False:
                bad.append(("deb/data/absent/has_file/" + sp, False, got))
            ok, got = attempt("deb/data/absent/contains/" + sp, lambda: q in deb.data)
            if ok and got is not False:
                bad.append(("deb/data/absent/contains/" + sp, False, got))
            try:
                got = deb.data.get_content(q)
                classes.append("returned %r" % (got,))
            except Exception as e:
                classes.append(type(e).__name__)
        if len(set(classes)) != 1:
            bad.append(("deb/data/absent/get_content/spellings-differ", "the same outcome for name, ./name, /name", classes))

    data = [(n, c) for n, c in content["data"]]
    packed = dict(data)
    q_control()
    if data:
        q_data(*data[0])
    want_scripts = dict((n, c) for n, c in content["scripts"])
    ok, got = attempt("deb/scripts", deb.scripts)
    if ok and got != want_scripts:
        bad.append(("deb/scripts/result", want_scripts, got))
    for n, c in data[1:]:
        q_data(n, c)
    for n in names_universe:
        if n not in packed:
            q_absent(n)
    want_b = dict((n.encode("utf-8"), m) for m, n in content["md5"])
    want_s = dict((n, m) for m, n in content["md5"])
    ok, got = attempt("deb/md5sums/bytes", deb.md5sums)
    if ok and got != want_b:
        bad.append(("deb/md5sums/bytes", want_b, got))
    ok, got = attempt("deb/md5sums/str", lambda: deb.md5sums(encoding="utf-8"))
    if ok and got != want_s:
        bad.append(("deb/md5sums/str", want_s, got))
    for sp, prefix in SPELLINGS:
        q = prefix + "control"
        ok, got = attempt("deb/control/get_content/" + sp, lambda: deb.control.get_content(q))
        if ok and got != want_ctrl_text:
            bad.append(("deb/control/get_content/" + sp, want_ctrl_text, got))
        ok, got = attempt("deb/control/has_file/" + sp, lambda: deb.control.has_file(q))
        if ok and got is not True:
            bad.append(("deb/control/has_file/" + sp, True, got))
    # the data part once more after the control part was read (both tarballs share one file object)
    if data:
        n, c = data[-1]
        ok, got = attempt("deb/data/get_content/again", lambda: deb.data.get_content("/" + n))
        if ok and got != c:
            bad.append(("deb/data/get_content/again", c, got))
    q_control()
    # report each signature once per package
    seen = set()
    uniq = []
    for b in bad:
        if b[0] not in seen:
            seen.add(b[0])
            uniq.append(b)
    return uniq


def check_defective(members, mode="fileobj"):
    """members: member names in archive order -> list of (sig, expected, observed)"""
    from debian.debfile import DebError
    kind = classify(members)
    assert kind is not None
    raw = db.assemble([(n, member_bytes(n)) for n in members])
    path = write_scratch(raw) if mode != "fileobj" else None
    keep = []
    try:
        try:
            deb = open_deb(mode, raw, path, keep)
        except DebError:
            return [], kind, "DebError"
        except Exception as e:
            return _via(mode, [("deb/defective/wrong-exception/" + kind, "DebError", _exc(e))]), kind, type(e).__name__
        if path is not None:
            try:
                deb.close()
            except Exception:
                pass
        return _via(mode, [("deb/defective/accepted/" + kind, "DebError", "package accepted")]), kind, "accepted"
    finally:
        for f in keep:
            f.close()
        if path is not None:
            _unlink(path)


class Packer(object):
    """the 5 + 5 compressed tarballs of one content"""

    def __init__(self, content):
        ctrl = db.control_files([tuple(p) for p in content["control"]], [tuple(p) for p in content["scripts"]],
                                [tuple(p) for p in content["md5"]])
        ctar = db.tar_bytes(ctrl, with_dirs=False)
        dtar = db.tar_bytes([tuple(p) for p in content["data"]], with_root=not content.get("bare_data_tar"))
        self.parts = {}
        for k in db.COMPRESSIONS:
            self.parts[("control", k)] = _compress_cached(ctar, k)
            self.parts[("data", k)] = _compress_cached(dtar, k)

    def raw(self, cc, dc, order):
        trio = [(db.INFO, db.INFO_DATA), (db.part_name("control", cc), self.parts[("control", cc)]),
                (db.part_name("data", dc), self.parts[("data", dc)])]
        return db.assemble([trio[i] for i in order])


_ccache = {}


def _compress_cached(tar, kind):
    key = (kind, tar)
    if key not in _ccache:
        if len(_ccache) > 2000:
            _ccache.clear()
        _ccache[key] = db.compress(tar, kind)
    return _ccache[key]



# ------------------------------------------------------------------------------------------------ routes
#
# "the other way in": the same package asked the other public ways.  Every route opens its own DebFile object(s) and compares
# with what was packed; signatures carry "via-<route>/".

ROUTE_ORDERS = {"quick": [(0, 1, 2), (2, 1, 0), (1, 0, 2)], "thorough": ORDERS}
ROUTES = ["part-methods", "encoding", "repeat", "other-order", "two-on-one-fileobj", "two-by-filename", "open-arguments", "tgz"]


def text_view(data, encoding, errors=None):
    """what a text-mode file over these bytes returns (the documented meaning of get_file / get_content with encoding=)"""
    return io.TextIOWrapper(io.BytesIO(data), encoding=encoding, errors=errors).read()


def _expected(content):
    fields = [(k, v) for k, v in content["control"]]
    return {"fields": fields, "ctrl_text": db.control_text(fields), "scripts": dict((n, c) for n, c in content["scripts"]),
            "md5_b": dict((n.encode("utf-8"), m) for m, n in content["md5"]), "md5_s": dict((n, m) for m, n in content["md5"]),
            "data": [(n, c) for n, c in content["data"]]}


def _basic_queries(exp):
    """-> [(name, expected, function of a DebFile)]: the ordinary observations, one per call"""
    qs = [("debcontrol", exp["fields"], lambda d: list(d.debcontrol().items())),
          ("scripts", exp["scripts"], lambda d: d.scripts()),
          ("md5sums/bytes", exp["md5_b"], lambda d: d.md5sums()),
          ("md5sums/str", exp["md5_s"], lambda d: d.md5sums(encoding="utf-8")),
          ("control/get_content", exp["ctrl_text"], lambda d: d.control.get_content("control"))]
    for i, (n, c) in enumerate(exp["data"]):
        sp, prefix = SPELLINGS[i % 3]
        qs.append(("data/get_content/" + sp, c, lambda d, q=prefix + n: d.data.get_content(q)))
        qs.append(("data/has_file/" + sp, True, lambda d, q=prefix + n: d.data.has_file(q)))
    return qs


def check_route(raw, content, route):
    """-> list of (sig, expected, observed) for one package asked along one route"""
    from debian.debfile import DebFile
    exp = _expected(content)
    bad = []
    pre = "via-%s/" % route

    def ask(sig, want, fn, *args):
        try:
            got = fn(*args)
        except Exception as e:
            bad.append((pre + sig + "/raises", "no exception", _exc(e)))
            return
        if got != want or type(got) is not type(want):
            bad.append((pre + sig, want, got))

    def opened(fn):
        try:
            return fn()
        except Exception as e:
            bad.append((pre + "open/raises/" + type(e).__name__, "package accepted", _exc(e)))
            return None

    path = None
    keep = []
    try:
        if route == "part-methods":
            d = opened(lambda: DebFile(fileobj=io.BytesIO(raw)))
            if d is None:
                return bad
            ask("control.debcontrol", exp["fields"], lambda: list(d.control.debcontrol().items()))
            ask("control.scripts", exp["scripts"], lambda: d.control.scripts())
            ask("control.md5sums/bytes", exp["md5_b"], lambda: d.control.md5sums())
            ask("control.md5sums/str", exp["md5_s"], lambda: d.control.md5sums(encoding="utf-8"))
            for sp, prefix in SPELLINGS:
                ask("control[...]/" + sp, exp["ctrl_text"], lambda: d.control[prefix + "control"])
                ask("control/contains/" + sp, True, lambda: (prefix + "control") in d.control)
                ask("control/contains-absent/" + sp, False, lambda: (prefix + "no-such-member") in d.control)
                for n, c in exp["scripts"].items():
                    ask("control[script]/" + sp, c, lambda: d.control[prefix + n])
                    ask("control/has_file-script/" + sp, True, lambda: d.control.has_file(prefix + n))
                for n in db.SCRIPTS:
                    if n not in exp["scripts"]:
                        ask("control/has_file-absent-script/" + sp, False, lambda: d.control.has_file(prefix + n))
                for n, c in exp["data"]:
                    ask("data[...]/" + sp, c, lambda: d.data[prefix + n])
            ask("debcontrol-afterwards", exp["fields"], lambda: list(d.debcontrol().items()))
        elif route == "encoding":
            d = opened(lambda: DebFile(fileobj=io.BytesIO(raw)))
            if d is None:
                return bad
            for n, c in exp["data"]:
                for sp, prefix in SPELLINGS:
                    q = prefix + n
                    ask("data/get_content(encoding=utf-8,errors=replace)/" + sp, text_view(c, "utf-8", "replace"),
                        lambda: d.data.get_content(q, encoding="utf-8", errors="replace"))
                    ask("data/get_content(latin-1 positional)/" + sp, text_view(c, "latin-1"), lambda: d.data.get_content(q, "latin-1"))
                    ask("data/get_file(encoding=latin-1)/" + sp, text_view(c, "latin-1"),
                        lambda: _read_all(d.data.get_file(q, encoding="latin-1")))
                    ask("data/get_file(utf-8 positional, replace)/" + sp, text_view(c, "utf-8", "replace"),
                        lambda: _read_all(d.data.get_file(q, "utf-8", "replace")))
                    ask("data/get_content(no encoding)/" + sp, c, lambda: d.data.get_content(q, None))
            ask("control/get_content(encoding=utf-8)", text_view(exp["ctrl_text"], "utf-8"),
                lambda: d.control.get_content("control", encoding="utf-8"))
            for n, c in exp["scripts"].items():
                ask("control/get_content(script, latin-1)", text_view(c, "latin-1"), lambda: d.control.get_content(n, encoding="latin-1"))
            ask("md5sums(utf-8 positional)", exp["md5_s"], lambda: d.md5sums("utf-8"))
            ask("md5sums(encoding=latin-1)", dict((n.encode("utf-8").decode("latin-1"), m) for m, n in content["md5"]),
                lambda: d.md5sums(encoding="latin-1"))
            ask("md5sums(encoding=ascii, errors=replace)",
                dict((n.encode("utf-8").decode("ascii", "replace"), m) for m, n in content["md5"]),
                lambda: d.md5sums(encoding="ascii", errors="replace"))
            ask("md5sums(None)", exp["md5_b"], lambda: d.md5sums(None))
            ask("control.md5sums(utf-8, strict)", exp["md5_s"], lambda: d.control.md5sums("utf-8", "strict"))
            ask("debcontrol-afterwards", exp["fields"], lambda: list(d.debcontrol().items()))
        elif route in ("repeat", "other-order"):
            d = opened(lambda: DebFile(fileobj=io.BytesIO(raw)))
            if d is None:
                return bad
            qs = _basic_queries(exp)
            if route == "repeat":
                for name, want, fn in qs:                 # every question twice in a row ...
                    ask(name + "/first", want, fn, d)
                    ask(name + "/second", want, fn, d)
                for name, want, fn in reversed(qs):       # ... and all of them once more, last first
                    ask(name + "/third", want, fn, d)
            else:
                order = [qs[2], qs[3]] + list(reversed(qs[5:])) + [qs[1], qs[4], qs[0], qs[2]]
                for name, want, fn in order:
                    ask(name, want, fn, d)
        elif route in ("two-on-one-fileobj", "two-by-filename"):
            if route == "two-on-one-fileobj":
                f = io.BytesIO(raw)
                d1 = opened(lambda: DebFile(fileobj=f))
                f.seek(0)
                d2 = opened(lambda: DebFile(fileobj=f))
            else:
                path = write_scratch(raw)
                d1 = opened(lambda: DebFile(filename=path))
                d2 = opened(lambda: DebFile(filename=path))
            if d1 is None or d2 is None:
                return bad
            qs = _basic_queries(exp)
            for i, (name, want, fn) in enumerate(qs):     # the two readers take turns
                ask(name + "/reader-%d" % (1 + i % 2), want, fn, (d1, d2)[i % 2])
            for i, (name, want, fn) in enumerate(qs):
                ask(name + "/reader-%d" % (2 - i % 2), want, fn, (d2, d1)[i % 2])
            if route == "two-by-filename":
                ask("close-first-reader", None, d1.close)
                ask("debcontrol/second-reader-after-close-of-first", exp["fields"], lambda: list(d2.debcontrol().items()))
                for n, c in exp["data"][:1]:
                    ask("data/get_content/second-reader-after-close-of-first", c, lambda: d2.data.get_content(n))
                ask("close-second-reader", None, d2.close)
        elif route == "open-arguments":
            path = write_scratch(raw)
            ways = [("DebFile(path, 'r')", lambda: DebFile(path, "r")),
                    ("DebFile(path, 'r', None)", lambda: DebFile(path, "r", None)),
                    ("DebFile(filename=path, mode='r')", lambda: DebFile(filename=path, mode="r")),
                    ("DebFile(None, 'r', BytesIO)", lambda: DebFile(None, "r", io.BytesIO(raw))),
                    ("DebFile(fileobj=BufferedReader(BytesIO))", lambda: DebFile(fileobj=io.BufferedReader(io.BytesIO(raw)))),
                    ("DebFile(mode='r', fileobj=BytesIO)", lambda: DebFile(mode="r", fileobj=io.BytesIO(raw)))]
            qs = _basic_queries(exp)
            for wname, w in ways:
                d = opened(w)
                if d is None:
                    bad[-1] = (bad[-1][0] + "/" + wname,) + tuple(bad[-1][1:])
                    continue
                for name, want, fn in qs:
                    ask(wname + "/" + name, want, fn, d)
                if "path" in wname:
                    ask(wname + "/close", None, d.close)
        elif route == "tgz":
            d = opened(lambda: DebFile(fileobj=io.BytesIO(raw)))
            if d is None:
                return bad
            for n, c in exp["data"]:
                ask("data.tgz().getnames", True, lambda: ("./" + n) in d.data.tgz().getnames())
                ask("data.tgz().extractfile", c, lambda: _read_all(d.data.tgz().extractfile("./" + n)))
            ask("control.tgz().extractfile", exp["ctrl_text"], lambda: _read_all(d.control.tgz().extractfile("./control")))
            for n, c in exp["data"]:
                ask("data.tgz().extractfile/after-control", c, lambda: _read_all(d.data.tgz().extractfile("./" + n)))
            for name, want, fn in _basic_queries(exp):
                ask(name + "/after-tgz", want, fn, d)
        else:
            raise ValueError(route)
    finally:
        for f in keep:
            f.close()
        if path is not None:
            _unlink(path)
    seen = set()
    uniq = []
    for b in bad:
        if b[0] not in seen:
            seen.add(b[0])
            uniq.append(b)
    return uniq


def route_contents(seed):
    """the contents asked along every route: the three of the ways-of-opening part, and four of the awkward ones (empty
    members, empty field values and line-separator characters in values, dot names)"""
    out = list(kind_contents(seed))
    em = dict(empties(seed))
    dn = dict(dotnames(seed))
    for c in (em["scripts empty/non-empty alternating, first empty"], em["empty data files around non-empty ones"],
              em["control values with form feed, vertical tab, U+0085, U+2028 followed by a blank"],
              dn["dot names next to ordinary names"]):
        out.append(c)
    return out


# ------------------------------------------------------------------------------------------------ large, interleaved
#
# Packages whose parts are consumed in MANY physical reads (the decompressors fetch 8 KiB at a time, gzip 128 KiB), queried
# in interleaved histories on ONE DebFile object: both parts of a DebFile(fileobj=...) share one file object, so every
# observation depends on the reader re-establishing its place after the other part was read.

CHUNK = {"quick": [4096], "thorough": [4096, 1000, 10000]}
LARGE_ORDERS = {"quick": [(0, 1, 2), (2, 1, 0)], "thorough": ORDERS}
LARGE_HISTORIES = {"big-data": ["data-first", "control-first", "stream-data"],
                   "big-both": ["data-first", "control-first", "stream-data", "stream-both", "stream-two"],
                   "huge-both": ["data-first", "stream-data", "stream-both"]}
LARGE_CONTENTS = ["big-data", "big-both", "huge-both"]


def large_pairs(name, tier):
    """compression pairs a large content is run with.  'huge-both' exists for gzip's 128 KiB reads only."""
    if name != "huge-both":
        return [(cc, dc) for cc in db.COMPRESSIONS for dc in db.COMPRESSIONS]
    if tier == "quick":
        return [("none", "gz"), ("gz", "none"), ("gz", "gz")]
    return [(cc, dc) for cc in db.COMPRESSIONS for dc in db.COMPRESSIONS if "gz" in (cc, dc)]


def large_spec(name, seed):
    """symbolic content (big members are ["chain", label, n, prefix], see debbuilder.chain_bytes): small enough for a
    replay file, and everything replay() needs"""
    x, binary, text = symbols(seed)
    lab = core.rep(seed, ["a", "b", "c", "d"])
    n1, n2 = (140000, 70000) if name == "huge-both" else (20000, 70000)
    data = [["usr/bin/" + x, text], ["big/%d.bin" % n1, ["chain", lab + "1", n1, b""]], ["a b", b"hello\n"],
            ["big/%d .bin" % n2, ["chain", lab + "2", n2, b""]], ["etc/é", binary]]
    if name == "huge-both":
        data = [data[0], data[1], data[2], data[4]]
    scripts = [[n, script_body(n, seed)] for n in db.SCRIPTS]
    if name != "big-data":
        scripts[-1] = ["config", ["chain", lab + "3", 140000 if name == "huge-both" else 20000, b"\x7fELF\x00\xff"]]
    return {"name": name, "control": [list(p) for p in control_variants(seed)[1]], "scripts": scripts, "data": data}


def _mat(v):
    if isinstance(v, (list, tuple)):
        assert v[0] == "chain"
        return db.chain_bytes(v[2], v[1], v[3])
    return v


class Large(object):
    """materialized large content: the oracle's view (what was packed) and the 2 x 5 compressed parts"""

    def __init__(self, spec):
        self.fields = [(k, v) for k, v in spec["control"]]
        self.data = [(n, _mat(c)) for n, c in spec["data"]]
        self.scripts = [(n, _mat(c)) for n, c in spec["scripts"]]
        self.md5 = [(db.md5_of(c), n) for n, c in self.data]
        self.ctrl_members = db.control_files(self.fields, self.scripts, self.md5)
        self.ctar = db.tar_bytes(self.ctrl_members, with_dirs=False)
        self.dtar = db.tar_bytes(self.data)
        self.members = {"data": dict(self.data), "control": dict((m[0], m[1]) for m in self.ctrl_members)}
        # the biggest member of the control part: what a control-side stream reads
        self.big_ctrl = max(self.ctrl_members, key=lambda m: len(m[1]))[0]

    def raw(self, cc, dc, order):
        trio = [(db.INFO, db.INFO_DATA), (db.part_name("control", cc), _compress_cached(self.ctar, cc)),
                (db.part_name("data", dc), _compress_cached(self.dtar, dc))]
        return db.assemble([trio[i] for i in order])


def history_ops(hist, lg, chunk):
    """the operations of one interleaved history (all on one DebFile object).  Operations:
       ["dget", name, spelling] data.get_content      ["dhas", name, spelling] data.has_file
       ["ctl"] debcontrol()    ["scr"] scripts()    ["md5"] md5sums()    ["cget", member] control.get_content
       ["open", handle, part, name, spelling] part.get_file     ["rd", handle, n] handle.read(n)   ["close", handle]"""
    names = [n for n, _c in lg.data]
    sizes = dict((n, len(c)) for n, c in lg.data)
    small = [n for n in names if sizes[n] < 1000]
    big = sorted([n for n in names if sizes[n] >= 1000], key=lambda n: sizes[n])
    s0, s1, s2 = small[0], small[1], small[-1]
    bigger, lesser = big[-1], big[0]
    bc = lg.big_ctrl
    if hist == "data-first":
        return [["dget", s0, "plain"], ["ctl"], ["dget", bigger, "slash"], ["scr"], ["dget", s0, "dot"], ["md5"],
                ["dget", lesser, "plain"], ["cget", "control"], ["dget", s2, "slash"], ["dhas", s1, "dot"],
                ["dget", s1, "dot"], ["cget", bc], ["ctl"]]
    if hist == "control-first":
        return [["ctl"], ["scr"], ["dget", s0, "slash"], ["md5"], ["dget", lesser, "dot"], ["ctl"],
                ["dget", bigger, "plain"], ["cget", bc], ["dget", s2, "plain"], ["scr"], ["dget", s0, "plain"]]

    def rounds(handles, between):
        left = dict((h, len(lg.members[p][n])) for h, p, n in handles)
        ops = [["open", h, p, n, sp] for (h, p, n), sp in zip(handles, ["slash", "plain", "dot"])]
        i = 0
        while any(v >= 0 for v in left.values()):
            for h, _p, _n in handles:
                if left[h] >= 0:            # one read past the end: must return b""
                    ops.append(["rd", h, chunk])
                    left[h] = left[h] - chunk if left[h] > 0 else -1
            if between:
                ops.append(between[i % len(between)])
                i += 1
        return ops + [["close", h] for h, _p, _n in handles]
    if hist == "stream-data":
        return rounds([("h0", "data", bigger)], [["ctl"], ["md5"], ["scr"], ["cget", bc]]) + [["dget", s0, "plain"]]
    if hist == "stream-both":
        return rounds([("h0", "data", bigger), ("h1", "control", bc)], []) + [["ctl"], ["dget", s2, "dot"]]
    if hist == "stream-two":
        return rounds([("h0", "data", lesser), ("h1", "data", bigger)], [["ctl"], ["cget", bc]])
    raise ValueError(hist)


def _describe(b):
    if not isinstance(b, bytes):
        return repr(b)
    if len(b) <= 64:
        return "%d bytes %r" % (len(b), b)
    import hashlib
    return "%d bytes sha256=%s head=%r" % (len(b), hashlib.sha256(b).hexdigest()[:16], b[:16])


def _cmp_bytes(want, got):
    """None if equal, else (expected, observed) texts naming the first differing offset"""
    if got == want:
        return None
    if not isinstance(got, bytes):
        return _describe(want), _describe(got)
    k = next((i for i, (a, b) in enumerate(zip(want, got)) if a != b), min(len(want), len(got)))
    return (_describe(want) + "; at offset %d: %r" % (k, want[k:k + 16]),
            _describe(got) + "; at offset %d: %r" % (k, got[k:k + 16]))


def check_history(raw, lg, ops, mode="fileobj"):
    """Run one history on one DebFile object (opened the given way); stop at the first wrong observation (after it the
    position of the streams is no longer known).  -> (list of (sig, expected, observed), observations compared)"""
    if mode == "fileobj":
        return _check_history(raw, None, lg, ops, mode)
    path = write_scratch(raw)
    try:
        bad, n = _check_history(raw, path, lg, ops, mode)
        return _via(mode, bad), n
    finally:
        _unlink(path)


def _check_history(raw, path, lg, ops, mode):
    keep = []
    try:
        try:
            deb = open_deb(mode, raw, path, keep)
        except Exception as e:
            return [("deb/large/open/raises/" + type(e).__name__, "package accepted", _exc(e))], 0
        bad, n = _run_history(deb, lg, ops)
        if mode != "fileobj" and not bad:
            try:
                deb.close()
            except Exception as e:
                bad = [("deb/large/close/raises/" + type(e).__name__, "no exception", _exc(e))]
        return bad, n
    finally:
        for f in keep:
            f.close()


def _run_history(deb, lg, ops):
    prefix = dict(SPELLINGS)
    handles = {}
    n = 0
    for i, op in enumerate(ops):
        k = op[0]
        where = "op #%d %r" % (i, op)
        # what was packed (harness side; a mistake here must propagate) ...
        if k == "dget":
            q = prefix[op[2]] + op[1]
            sig, want, fn = "data/get_content", lg.members["data"][op[1]], lambda: deb.data.get_content(q)
        elif k == "dhas":
            q = prefix[op[2]] + op[1]
            sig, want, fn = "data/has_file", True, lambda: deb.data.has_file(q)
        elif k == "ctl":
            sig, want, fn = "debcontrol", lg.fields, lambda: list(deb.debcontrol().items())
        elif k == "scr":
            sig, want, fn = "scripts", dict(lg.scripts), deb.scripts
        elif k == "md5":
            sig, want, fn = "md5sums", dict((nm.encode("utf-8"), m) for m, nm in lg.md5), deb.md5sums
        elif k == "cget":
            sig, want, fn = "control/get_content", lg.members["control"][op[1]], lambda: deb.control.get_content(op[1])
        elif k == "open":
            _k, h, pname, name, sp = op
            q = prefix[sp] + name
            handles[h] = [None, lg.members[pname][name], 0, pname]
            sig, want, fn = pname + "/get_file", "a file object", lambda: getattr(deb, pname).get_file(q)
        elif k == "rd":
            f, content, pos, pname = handles[op[1]]
            sig, want, fn = pname + "/stream/read", content[pos:pos + op[2]], lambda: f.read(op[2])
            handles[op[1]][2] = pos + len(want)
        elif k == "close":
            sig, want, fn = handles[op[1]][3] + "/stream/close", None, handles.pop(op[1])[0].close
        else:
            raise ValueError(op)
        # ... and what the package reader says
        try:
            got = fn()
        except Exception as e:
            return [("deb/large/%s/raises/%s" % (sig, type(e).__name__), "no exception", where + ": " + _exc(e))], n
        n += 1
        if k == "open":
            handles[op[1]][0] = got
            if got is None or not hasattr(got, "read"):
                return [("deb/large/" + sig, where + ": a file object", repr(got))], n
        elif k == "close":
            pass
        elif isinstance(want, bytes):
            d = _cmp_bytes(want, got)
            if d:
                return [("deb/large/" + sig, where + ": " + d[0], d[1])], n
        elif got != want:
            return [("deb/large/" + sig, where + ": " + _describe(want), _describe(got))], n
    return [], n


def run_large(u, tier, seed):
    part = core.Part()
    spec = large_spec(u["content"], seed)
    lg = Large(spec)
    cc = u["cc"]
    part.states += 1
    pairs = [d for c, d in large_pairs(u["content"], tier) if c == cc]
    jobs = []
    for pi, dc in enumerate(pairs):
        for order in LARGE_ORDERS[tier]:
            for hist in LARGE_HISTORIES[u["content"]]:
                for chunk in (CHUNK[tier] if hist.startswith("stream") else [0]):
                    jobs.append((dc, order, hist, chunk, "fileobj"))
    # ... and through DebFile(filename=...): one member order per pair (first chunk size); quick: two of the histories per
    # pair, rotating with the pair, so that every history meets every compression of either part
    hs = LARGE_HISTORIES[u["content"]]
    for pi, dc in enumerate(pairs):
        r = pi + db.COMPRESSIONS.index(cc)
        order = LARGE_ORDERS[tier][r % len(LARGE_ORDERS[tier])]
        chosen = hs if (tier != "quick" or u["content"] == "huge-both") else [hs[r % len(hs)], hs[(r + 2) % len(hs)]]
        for hist in [h for h in hs if h in chosen]:
            jobs.append((dc, order, hist, CHUNK[tier][0] if hist.startswith("stream") else 0, "filename"))
    seen_nodes = set()
    for dc, order, hist, chunk, mode in jobs:
        for node in (("pair", dc), ("order", dc, order)):
            if node not in seen_nodes:
                seen_nodes.add(node)
                part.states += 1
                part.transitions += 1
        raw = lg.raw(cc, dc, order)
        ops = history_ops(hist, lg, chunk)
        bad, n = check_history(raw, lg, ops, mode)
        part.states += len(ops)
        part.transitions += len(ops)
        part.traces += 1
        part.evaluations += n
        part.nontrivial += 1
        part.max_depth = max(part.max_depth, len(ops))
        case = {"kind": "large", "cc": cc, "dc": dc, "order": list(order), "history": hist, "chunk": chunk,
                "ops": ops, "content": spec}
        if mode != "fileobj":
            case["open"] = mode
            part.extra["opened via %s (large history)" % mode] += 1
        for sig, exp, obs in bad:
            part.violation(sig, case, exp, obs, rank=len(ops))
        part.outcomes["large %s data=%s%s -> %s" % (hist, dc, "" if mode == "fileobj" else " via " + mode,
                                                     "violating" if bad else "all bytes as packed")] += 1
        part.extra["large content %s" % u["content"]] += 1
        part.extra["large part sizes: control %s, data %s" % (_bucket(len(_compress_cached(lg.ctar, cc))),
                                                              _bucket(len(_compress_cached(lg.dtar, dc))))] += 1
        if hist == "data-first" and dc == "xz" and order == (0, 1, 2) and mode == "fileobj":
            part.sample(case)
    return part


# ------------------------------------------------------------------------------------------------ beyond the small scope

SC_COUNTS = list(range(1, 41)) + [63, 64, 65, 100, 127, 128, 129, 255, 256, 257, 999, 1000, 1001, 1025, 2000, 2500, 2501, 5000]
SC_FILE_COUNTS = [n for n in SC_COUNTS if n <= 257] + [1000]
SC_SIZES = [997, 998, 999, 1000, 4095, 4096, 4097, 16383, 16384, 16385, 65535, 65536, 65537, 131071, 131072, 131073, 196608,
            262143, 262144, 262145]
SC_SIZES_SLOW = [65535, 65536, 65537, 131072, 262144, 262145]          # for bz2 / xz / lzma (compression of the input costs 30-100 ms)
SC_FAMILIES = ["md5", "fields", "field-size", "files", "data-size", "candidates"]
SC_BASE_CTRL = [["Package", "p"], ["Version", "1.0-1"], ["Description", "short\n long line\n .\n more"]]
SC_BASE_DATA = [["usr/bin/x", b"\x00\xff"], ["a b", b"text\n"]]


def sc_md5_name(i):
    if i % 7 == 3:
        return "usr/share/doc/p/a file %d" % i          # inner blanks
    if i % 11 == 5:
        return "usr/share/été/f%d" % i          # non-ASCII
    if i % 13 == 6:
        return "f%d  x " % i                             # doubled and trailing blanks
    return "usr/lib/p/f%d.so" % i


def sc_field(i):
    if i % 5 == 2:
        return ["X-F%d" % i, "v%d\n continued %d\n .\n end" % (i, i)]
    if i % 7 == 4:
        return ["X-F%d" % i, ""]
    return ["X-F%d" % i, "value %d" % i]


def sc_long_value(L, arr):
    if arr == "one-line":
        v = ("ab cd, efg " * (L // 11 + 1))[:L]
        return v[:-1] + "z" if v.endswith(" ") else v
    lines, have = [], 0
    i = 0
    while have < L:
        l = ("line %d " % i + "x" * 70)[:min(70, L - have)]
        l = l[:-1] + "z" if l.endswith(" ") else l
        lines.append(l)
        have += len(l) + 2
        i += 1
    return "\n ".join(lines)


def sc_data(L, fill, seed):
    if fill == "chain":
        return db.chain_bytes(L, "scale/%d/%d" % (L, seed))
    buf = bytearray((b"abcdefghijklmnopqrstuvw" * (L // 23 + 1))[:L])
    for B in list(range(16384, L + 1, 16384)) + [L]:
        buf[B - 1] = 10
    return bytes(buf)


def scale_content(case):
    """the content dict of a scale case, generated from its compact description"""
    fam = case["family"]
    c = {"control": [list(p) for p in SC_BASE_CTRL], "scripts": [["postinst", b"#!/bin/sh\nexit 0\n"]],
         "md5": [[db.md5_of(d), n] for n, d in SC_BASE_DATA], "data": [list(p) for p in SC_BASE_DATA]}
    if fam == "md5":
        names = [sc_md5_name(i) for i in range(case["n"])]
        c["md5"] = [[db.md5_of(n.encode("utf-8")), n] for n in names]
    elif fam == "fields":
        n, arr = case["n"], case["arr"]
        extra = [sc_field(i) for i in range(n)]
        c["control"] = {"after": c["control"] + extra, "before": extra + c["control"],
                        "between": c["control"][:2] + extra + c["control"][2:]}[arr]
    elif fam == "field-size":
        v = sc_long_value(case["L"], case["arr"])
        c["control"] = c["control"][:2] + [["X-Long", v]] + c["control"][2:]
    elif fam == "files":
        c["data"] = [["usr/share/p/f%d" % i if i % 3 else "f %d" % i, b"%d\n" % i if i % 4 else b""] for i in range(case["n"])]
        c["md5"] = [[db.md5_of(d), n] for n, d in c["data"]]
    elif fam == "data-size":
        big = sc_data(case["L"], case["fill"], case.get("seed", 0))
        c["data"] = [SC_BASE_DATA[0], ["usr/share/big", big], SC_BASE_DATA[1]]
        c["md5"] = [[db.md5_of(d), n] for n, d in c["data"]]
        c["empties"] = "scale"          # (every data file is then also read through get_file() in the three spellings)
    return c


def scale_raw(content, cc, dc, order):
    ctrl = db.control_files([tuple(p) for p in content["control"]], [tuple(p) for p in content["scripts"]],
                            [tuple(p) for p in content["md5"]])
    trio = [(db.INFO, db.INFO_DATA),
            (db.part_name("control", cc), _compress_cached(db.tar_bytes(ctrl, with_dirs=False), cc)),
            (db.part_name("data", dc), _compress_cached(db.tar_bytes([tuple(p) for p in content["data"]]), dc))]
    return db.assemble([trio[i] for i in order])


def _chunked(raw, name, want, chunk):
    """get_file(name) read in pieces of `chunk` bytes -> None or (sig, expected, observed)"""
    from debian.debfile import DebFile
    try:
        deb = DebFile(fileobj=io.BytesIO(raw))
        f = deb.data.get_file(name)
        got = []
        for _ in range(len(want) // chunk + 3):
            b = f.read(chunk)
            if not b:
                break
            got.append(b)
        got = b"".join(got)
    except Exception as e:
        return ("deb/data/get_file/chunks-of-%d/raises" % chunk, "no exception", _exc(e))
    if got != want:
        return ("deb/data/get_file/chunks-of-%d" % chunk,) + _cmp_bytes(want, got)
    return None


def _brief(x, n=300):
    s = repr(x)
    return s if len(s) <= n else "%s ... %s (%d characters)" % (s[:n // 2], s[-n // 3:], len(s))


def exec_scale(case):
    """-> list of (sig, expected, observed)"""
    fam = case["family"]
    if fam == "candidates":
        return [("scale/candidates/" + b[0],) + tuple(b[1:]) for b in check_defective(list(case["members"]))[0]]
    content = scale_content(case)
    raw = scale_raw(content, case["cc"], case["dc"], tuple(case["order"]))
    bad = check_valid(raw, content, ["absent", "usr/share/p/f0x"])
    if not bad and (fam == "data-size" or (fam == "md5" and case["n"] > 257)):
        bad = check_valid(raw, content, ["absent"], mode="filename")       # (signatures get the prefix via-filename/)
    if fam == "data-size" and not bad:
        for chunk in (65536, 16384, 65537):
            b = _chunked(raw, "./usr/share/big", content["data"][1][1], chunk)
            if b:
                bad.append(b)
    pre = {"md5": "ladder/md5sums-entries", "fields": "ladder/control-fields/%s" % case.get("arr"), "field-size": "size/field-value/%s" % case.get("arr"),
           "files": "ladder/data-files", "data-size": "size/data-member/%s" % case.get("fill")}[fam]
    return [("%s/%s" % (pre, b[0]), _brief(b[1]), _brief(b[2])) for b in bad]


def scale_units(tier):
    out = []
    for fam in ("md5", "fields", "files"):
        for k in db.COMPRESSIONS:
            out.append({"kind": "scale", "family": fam, "k": k})
    for k in ("none", "gz", "xz"):
        out.append({"kind": "scale", "family": "field-size", "k": k})
    for k in db.COMPRESSIONS:
        for fill in ("chain", "text"):
            out.append({"kind": "scale", "family": "data-size", "k": k, "fill": fill})
    out.append({"kind": "scale", "family": "candidates"})
    return out


def scale_cases(u, tier, seed):
    fam, k = u["family"], u.get("k")
    if fam == "md5":
        for n in SC_COUNTS:
            yield {"kind": "scale", "family": fam, "n": n, "cc": k, "dc": "gz", "order": list(ORDERS[n % 6])}, n
    elif fam == "fields":
        for n in SC_COUNTS:
            for arr in ("after", "before", "between"):
                if n > 257 and arr != ("after", "before", "between")[n % 3]:
                    continue
                yield {"kind": "scale", "family": fam, "n": n, "arr": arr, "cc": k, "dc": "none", "order": list(ORDERS[n % 6])}, n
    elif fam == "files":
        for n in SC_FILE_COUNTS:
            if n > 257 and k not in ("gz", "none"):
                continue
            yield {"kind": "scale", "family": fam, "n": n, "cc": "gz", "dc": k, "order": list(ORDERS[n % 6])}, n
    elif fam == "field-size":
        for L in SC_SIZES:
            for arr in ("one-line", "many-lines"):
                yield {"kind": "scale", "family": fam, "L": L, "arr": arr, "cc": k, "dc": "gz", "order": list(ORDERS[L % 6])}, L
    elif fam == "data-size":
        for L in (SC_SIZES if k in ("none", "gz") or tier != "quick" else SC_SIZES_SLOW):
            yield {"kind": "scale", "family": fam, "L": L, "fill": u["fill"], "seed": seed % 4, "cc": "gz", "dc": k,
                   "order": list(ORDERS[L % 6])}, L
    else:
        for part in ("control", "data"):
            other = "data.tar.gz" if part == "control" else "control.tar.xz"
            for r in (3, 4, 5):
                for sub in itertools.combinations(CAND[part], r):
                    base = [db.INFO] + list(sub) + [other]
                    for rot in range(len(base)):
                        yield {"kind": "scale", "family": fam, "members": base[rot:] + base[:rot]}, len(base)
        for r in (3, 5):
            base = [db.INFO] + CAND["control"][:r] + CAND["data"][5 - r:]
            for rot in range(len(base)):
                yield {"kind": "scale", "family": fam, "members": base[rot:] + base[:rot]}, len(base)


def run_scale(u, tier, seed):
    part = core.Part()
    for case, rank in scale_cases(u, tier, seed):
        bad = exec_scale(case)
        part.states += 1
        part.transitions += 1
        part.traces += 1
        part.evaluations += 1
        part.max_depth = max(part.max_depth, rank if rank < 6000 else 0)
        for sig, exp, obs in bad:
            part.violation(sig, case, exp, obs, rank=rank)
        if bad:
            part.outcomes["VIOLATION:" + bad[0][0]] += 1
        else:
            part.nontrivial += 1
            part.outcomes["scale/%s/%s" % (u["family"], u.get("k", "rejected"))] += 1
            part.extra["beyond the small scope: %s cases" % u["family"]] += 1
        if rank in (40, 65536, 5):
            part.sample(case)
    return part


def _bucket(n):
    return "<= 8 KiB" if n <= 8192 else "8..128 KiB" if n <= 131072 else "> 128 KiB"


def run_unit(u, tier, seed):
    if u["kind"] == "large":
        return run_large(u, tier, seed)
    if u["kind"] == "scale":
        return run_scale(u, tier, seed)
    part = core.Part()
    if u["kind"] == "defective":
        for si, names in enumerate(u["sets"]):
            part.states += 1
            for members in member_orders(names, tier):
                part.states += 1
                part.transitions += 1
                bad, kind, outcome = check_defective(members)
                part.traces += 1
                part.evaluations += 1
                part.nontrivial += 1
                part.outcomes["defective/%s -> %s" % (kind, outcome)] += 1
                part.max_depth = max(part.max_depth, len(members))
                case = {"kind": "defective", "members": members}
                for sig, exp, obs in bad:
                    part.violation(sig, case, exp, obs)
                if len(members) in (0, 3, 11):
                    part.sample(case)
            more = {0: ["realfile"], 2: ["positional"]}.get(si % 4, []) if tier == "quick" else ["realfile"] + (["positional"] if si % 2 else [])
            for mode in ["filename"] + more:
                part.states += 1
                part.transitions += 1
                bad, kind, outcome = check_defective(list(names), mode)
                part.traces += 1
                part.evaluations += 1
                part.nontrivial += 1
                part.outcomes["defective via %s/%s -> %s" % (mode, kind, outcome)] += 1
                part.extra["opened via %s (defective set)" % mode] += 1
                case = {"kind": "defective", "members": list(names), "open": mode}
                for sig, exp, obs in bad:
                    part.violation(sig, case, exp, obs)
        return part
    content = dict(u["content"])
    content["universe"] = data_names(seed) + (DOT_NAMES if content.get("dotnames") else [])
    pk = Packer(content)
    part.states += 1 + 5 + 25
    part.transitions += 5 + 25

    def run_mode(cc, dc, order, mode, what):
        raw = pk.raw(cc, dc, order)
        bad = check_valid(raw, content, content["universe"], mode=mode)
        part.states += 1
        part.transitions += 1
        part.traces += 1
        part.evaluations += 1
        part.nontrivial += 1
        case = {"kind": "valid", "content": content, "cc": cc, "dc": dc, "order": list(order), "open": mode}
        for sig, exp, obs in bad:
            part.violation(sig, case, exp, obs)
        part.outcomes["via %s control=%s -> %s" % (mode, cc, "violating" if bad else "as packed")] += 1
        part.extra["opened via %s (%s)" % (mode, what)] += 1
        return case

    if u["kind"] == "valid-routes":
        for cc in [u["cc"]]:
            for dc in db.COMPRESSIONS:
                for order in ROUTE_ORDERS[tier]:
                    part.states += 1
                    part.transitions += 1
                    raw = pk.raw(cc, dc, order)
                    for route in ROUTES:
                        bad = check_route(raw, content, route)
                        part.states += 1
                        part.transitions += 1
                        part.traces += 1
                        part.evaluations += 1
                        part.nontrivial += 1
                        case = {"kind": "valid", "content": content, "cc": cc, "dc": dc, "order": list(order), "route": route}
                        for sig, exp, obs in bad:
                            part.violation(sig, case, exp, obs)
                        part.outcomes["route %s data=%s -> %s" % (route, dc, "violating" if bad else "as packed")] += 1
                        part.extra["asked via route %s" % route] += 1
        part.max_depth = 5
        part.sample(case)
        return part
    if u["kind"] == "valid-kinds":
        i = 0
        for cc in db.COMPRESSIONS:
            for dc in db.COMPRESSIONS:
                for order in kind_orders(tier):
                    part.states += 1
                    part.transitions += 1
                    modes = ["filename", EXTRA_MODES[i % len(EXTRA_MODES)]] if tier == "quick" else OPEN_MODES[1:]
                    for mode in modes:
                        case = run_mode(cc, dc, order, mode, "three contents")
                    i += 1
        part.max_depth = 5
        part.sample(case)
        return part
    for cc, dc, order in CONFIGS:
        raw = pk.raw(cc, dc, order)
        part.states += 1
        part.transitions += 1
        bad = check_valid(raw, content, content["universe"])
        part.traces += 1
        part.evaluations += 1
        case = {"kind": "valid", "content": content, "cc": cc, "dc": dc, "order": list(order)}
        if content["data"] and (cc != "none" or dc != "none" or order != (0, 1, 2)):
            part.nontrivial += 1
        if bad:
            for sig, exp, obs in bad:
                part.violation(sig, case, exp, obs)
            part.outcomes["violating"] += 1
        else:
            part.outcomes["accepted control=%s data=%s" % (cc, dc)] += 1
        part.extra["order %s" % "".join("bcd"[i] for i in order)] += 1
        part.extra["data files=%d" % len(content["data"])] += 1
        part.extra["scripts=%d" % len(content["scripts"])] += 1
        part.extra["empty scripts=%d" % len([1 for _n, c in content["scripts"] if not c])] += 1
        if content.get("dotnames"):
            part.extra["dot-name packages"] += 1
    # isolation: the same observations with another package opened (and a defective one refused) in between
    for cc, dc, order in (CONFIGS[0], CONFIGS[len(CONFIGS) // 2], CONFIGS[-1]):
        raw = pk.raw(cc, dc, order)
        bad = check_valid(raw, content, content["universe"], interleave=True)
        part.states += 1
        part.transitions += 1
        part.traces += 1
        part.evaluations += 1
        part.nontrivial += 1
        case = {"kind": "valid", "content": content, "cc": cc, "dc": dc, "order": list(order), "interleave": True}
        for sig, exp, obs in bad:
            part.violation("isolation/" + sig, case, exp, obs)
        part.outcomes["isolation/" + ("violating" if bad else "ok")] += 1
    if content.get("empties"):
        # the empty-content packages through a file name as well: every compression pair, the member order rotating
        i = 0
        for cc in db.COMPRESSIONS:
            for dc in db.COMPRESSIONS:
                for mode in (["filename"] if tier == "quick" else ["filename", "realfile"]):
                    run_mode(cc, dc, ORDERS[i % len(ORDERS)], mode, "empty contents")
                i += 1
    part.max_depth = 4
    part.sample({"kind": "valid", "content": content, "cc": "xz", "dc": "none", "order": [2, 0, 1]})
    return part


def replay(case):
    if case["kind"] == "scale":
        return exec_scale(case)
    mode = case.get("open", "fileobj")
    if case["kind"] == "defective":
        return check_defective(list(case["members"]), mode)[0]
    if case["kind"] == "large":
        lg = Large(case["content"])
        return check_history(lg.raw(case["cc"], case["dc"], tuple(case["order"])), lg, case["ops"], mode)[0]
    content = case["content"]
    pk = Packer(content)
    raw = pk.raw(case["cc"], case["dc"], tuple(case["order"]))
    if case.get("route"):
        return check_route(raw, content, case["route"])
    if case.get("interleave"):
        return [("isolation/" + b[0],) + tuple(b[1:]) for b in check_valid(raw, content, content["universe"], True)]
    return check_valid(raw, content, content["universe"], mode=mode)


def repro_py(case):
    if case["kind"] == "defective" and not case.get("open"):
        return ("import io\nfrom debian.debfile import DebFile, DebError\nfrom mc.props import c07\nfrom mc.models import debbuilder as db\n"
                "members = %r\nraw = db.assemble([(n, c07.member_bytes(n)) for n in members])\n"
                "try:\n    DebFile(fileobj=io.BytesIO(raw))\nexcept DebError:\n    pass\nelse:\n    raise AssertionError('accepted')\n"
                % (case["members"],))
    return ("from mc.props import c07\ncase = %r\nbad = c07.replay(case)\nassert not bad, bad\n" % (case,))
