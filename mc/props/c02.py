"""C02 - Deb822 paragraphs survive dump and re-parse, whatever the input form (Engine B)."""
import io
import itertools

from .. import core

ID = "C02"
LEVEL = "model_checking"
RULE = ("paragraphs = ordered (name, value) lists, values = first line x all continuation-line lists up to length n over "
        "8 line shapes; documents = 1-3 paragraphs; every document is built through the public API, dumped, and read "
        "back through 6 input forms x {plain, one comment line at each line boundary, comments at all boundaries} "
        "(x clearsign armor x {Deb822, Dsc, Changes} for single paragraphs).  states = distinct documents, "
        "transitions = (document, form, comment placement, armor, class) configurations, traces = parser executions; "
        "non-trivial = documents with a continuation line or more than one field/paragraph; sweep = one-field "
        "paragraphs that carry one swept character in the value (first line and continuation line) or in the field name, "
        "run through the same single-paragraph configurations (plain + comments at all boundaries, armor)")
BUDGET = {"quick": 240, "thorough": 3000}


def bounds(tier):
    return {"names": NAMES, "first_lines": len(firsts(0)), "continuation_shapes": len(conts(0)),
            "continuation_lines": "0..2" if tier == "quick" else "0..3",
            "two_field_paragraphs": "every 7th x every 11th value (of the 584 with <= 2 continuation lines), two name pairs" if tier == "quick"
            else "every 3rd x every 5th value (of the 584 with <= 2 continuation lines), two name pairs, every single comment placement",
            "documents": "all pairs over a 20-paragraph pool and triples over 6, separators of 1 and 2 blank lines",
            "input_forms": ["str", "bytes", "lines with newlines", "lines without", "StringIO", "BytesIO"],
            "comment_placements": "none / each single line boundary / all boundaries",
            "sweep": "one character at a time: %d values 'x<c>y' + continuation line ' x<c>y' under field A (c = printable "
                     "ASCII U+0021..U+007E and %d non-ASCII letters) and %d field names 'X<c>Y' with value 'v' (c = "
                     "printable ASCII except ':'); forms x {plain, comments at all boundaries} and the armor variants"
                     % (len(sweep_value_chars()), len(SWEEP_NON_ASCII), len(sweep_name_chars()))}


def assumptions():
    return ["values are assigned with an already trimmed first line; continuation lines are compared verbatim",
            "comment lines are lines starting with '#' in column 0", "clearsign armor: BEGIN PGP SIGNED MESSAGE, "
            "0, 1 or 2 Hash armor headers, blank line, payload, blank line, signature block",
            "sweep: the swept value characters are printable, non-blank characters only - control characters, white "
            "space and the characters str.splitlines cuts at (\\x0b \\x0c \\x1c-\\x1e \\x85 U+2028 U+2029) are not "
            "'printable/UTF-8 values' in the sense of the quantifier; swept field-name characters are the policy set "
            "U+0021..U+007E without ':' (the swept character is never first, so '#' and '-' are legal)"]


NAMES = ["A", "Long-Name", "x1", "a9"]


def firsts(seed):
    v = core.rep(seed, ["v", "q", "1", "Z"])
    return ["", v, ":x", "#y", "a b", "a:b", "é", "-----BEGIN"]


def conts(seed):
    c = core.rep(seed, ["c", "r", "2", "Y"])
    return [" " + c, "\td", " .", " e: f", " #g", "  h  ", " i\t", " -----BEGIN PGP X-----"]


SWEEP_NON_ASCII = ["é", "ß", "Ω", "я", "中", "ç", "ñ", "ø", "ж", "ü", "λ", "√"]
SWEEP_CHUNK = 24


def sweep_value_chars():
    return [chr(cp) for cp in range(0x21, 0x7F)] + SWEEP_NON_ASCII


def sweep_name_chars():
    return [chr(cp) for cp in range(0x21, 0x7F) if chr(cp) != ":"]


def sweep_pars():
    """one-field paragraphs, simplest first: values with one swept character, then field names with one"""
    out = [[("A", "x%sy\n x%sy" % (c, c))] for c in sweep_value_chars()]
    out += [[("X%sY" % c, "v")] for c in sweep_name_chars()]
    return out


def values(tier, seed, fi):
    n = 2 if tier == "quick" else 3
    f = firsts(seed)[fi]
    out = []
    for k in range(0, n + 1):
        for cs in itertools.product(conts(seed), repeat=k):
            out.append("\n".join((f,) + cs))
    return out


def all_values(tier, seed):
    out = []
    for fi in range(len(firsts(seed))):
        out += values(tier, seed, fi)
    return out


def forms(text):
    b = text.encode("utf-8")
    nonl = text.split("\n")[:-1] if text.endswith("\n") else text.split("\n")
    return [("str", lambda: text), ("bytes", lambda: b), ("lines_nl", lambda: text.splitlines(True)),
            ("lines_nonl", lambda: list(nonl)), ("textio", lambda: io.StringIO(text)), ("bytesio", lambda: io.BytesIO(b))]


ARMOR_HEADERS = [("1hdr", "Hash: SHA512\n"), ("2hdr", "Hash: SHA256\nHash: SHA1\n"), ("0hdr", "")]


def armor(text, headers="Hash: SHA512\n"):
    return ("-----BEGIN PGP SIGNED MESSAGE-----\n" + headers + "\n" + text +
            "\n-----BEGIN PGP SIGNATURE-----\n\niQabc\n=xyz\n-----END PGP SIGNATURE-----\n")


def with_comments(text, where):
    ls = text.split("\n")[:-1]
    out = []
    for i, l in enumerate(ls):
        if where == "all" or where == i:
            out.append("#cm")
        out.append(l)
    if where == "all" or where == len(ls):
        out.append("#cm")
    return "\n".join(out) + "\n"


def build(par):
    """-> dumped text or None if the API rejects a value"""
    from debian.deb822 import Deb822
    d = Deb822()
    try:
        for k, v in par:
            d[k] = v
    except ValueError:
        return None
    return d.dump()


def check_single(par, full):
    """-> (violations, n executions)"""
    from debian.deb822 import Deb822, Dsc, Changes
    bad = []
    n = 0
    text = build(par)
    if text is None:
        return [("deb822/valid-value-rejected", "accepted", "ValueError for %r" % (par,))], 0
    want = [(k, v) for k, v in par]
    nl = text.count("\n")
    variants = [("plain", text), ("call", with_comments(text, "all"))]
    if full:
        variants += [("c%d" % w, with_comments(text, w)) for w in range(nl + 1)]
    for vn, t in variants:
        for fn, mk in forms(t):
            n += 2
            try:
                got = list(Deb822(mk()).items())
                gp = [list(p.items()) for p in Deb822.iter_paragraphs(mk())]
            except Exception as e:
                bad.append(("deb822/single/raises/%s" % fn, want, "%s: %s on %r" % (type(e).__name__, e, t)))
                continue
            vclass = vn if vn in ("plain", "call") else "c<i>"
            if got != want:
                bad.append(("deb822/single/%s/%s" % (vclass, fn), want, "%r from %r" % (got, t)))
            elif gp != [want]:
                bad.append(("deb822/single-iter/%s/%s" % (vclass, fn), [want], "%r from %r" % (gp, t)))
    for hn, hdrs in ARMOR_HEADERS:
        a = armor(text, hdrs)
        for fn, mk in forms(a):
            for cls in (Deb822, Dsc, Changes):
                n += 1
                try:
                    got = list(cls(mk()).items())
                except Exception as e:
                    bad.append(("deb822/armor-%s/raises/%s/%s" % (hn, fn, cls.__name__), want,
                                "%s: %s" % (type(e).__name__, e)))
                    continue
                if got != want:
                    bad.append(("deb822/armor-%s/%s/%s" % (hn, fn, cls.__name__), want, "%r from %r" % (got, a)))
    n += 1
    rd = Deb822(text).dump()
    if rd != text:
        bad.append(("deb822/redump", text, rd))
    if len(par) >= 2:
        # dump, re-order, dump again: the second dump must re-parse to the paragraph's fields in their new order
        for how in ("first", "sort"):
            d = Deb822()
            for k, v in par:
                d[k] = v
            d.dump()
            if how == "first":
                d.order_first(par[-1][0])
            else:
                d.sort_fields(key=lambda x: [-ord(ch) for ch in x.lower()])
            n += 1
            now = list(d.items())
            got = list(Deb822(d.dump()).items())
            if sorted(now) != sorted(want) or (how == "first" and now != [want[-1]] + want[:-1]):
                bad.append(("deb822/reorder/%s/live-order" % how, [want[-1]] + want[:-1], now))
            elif got != now:
                bad.append(("deb822/reorder/%s/dump-after-reorder" % how, now, "%r from %r" % (got, d.dump())))
    return bad, n


def check_multi(pars, sep):
    from debian.deb822 import Deb822
    texts = [build(p) for p in pars]
    if any(t is None for t in texts):
        return [("deb822/valid-value-rejected", "accepted", "ValueError")], 0
    t = sep.join(texts)
    want = [[(k, v) for k, v in p] for p in pars]
    bad = []
    n = 0
    for vn, tt in (("plain", t), ("call", with_comments(t, "all"))):
        for fn, mk in forms(tt):
            n += 1
            try:
                gp = [list(p.items()) for p in Deb822.iter_paragraphs(mk())]
            except Exception as e:
                bad.append(("deb822/multi/raises/%s" % fn, want, "%s: %s" % (type(e).__name__, e)))
                continue
            if gp != want:
                bad.append(("deb822/multi/%s/%s" % (vn, fn), want, "%r from %r" % (gp, tt)))
    return bad, n


def two_field_pars(tier, seed):
    # both tiers draw from the values with <= 2 continuation lines (584); thorough takes a denser grid and, in
    # run_unit, every single comment placement
    vals = all_values("quick", seed)
    a, b = (7, 11) if tier == "quick" else (3, 5)
    out = []
    for v in vals[::a]:
        for w in vals[::b]:
            out.append([("A", v), ("Long-Name", w)])
            out.append([("x1", w), ("a9", v)])
    return out


def pool(seed):
    vals = all_values("quick", seed)
    singles = [[("A", v)] for v in vals]
    twos = two_field_pars("quick", seed)
    allp = singles + twos
    return allp[::37][:20]


def units(tier, seed):
    out = [{"kind": "single1", "first": fi} for fi in range(len(firsts(seed)))]
    n2 = len(two_field_pars(tier, seed))
    step = 400
    out += [{"kind": "single2", "lo": i, "hi": min(n2, i + step)} for i in range(0, n2, step)]
    ns = len(sweep_pars())
    out += [{"kind": "sweep", "lo": i, "hi": min(ns, i + SWEEP_CHUNK)} for i in range(0, ns, SWEEP_CHUNK)]
    out += [{"kind": "multi2", "a": i} for i in range(20)]
    out += [{"kind": "multi3", "a": i} for i in range(6)]
    return out


def unit_cost(u, tier):
    return {"single1": 30, "single2": 10, "sweep": 1, "multi2": 2, "multi3": 3}[u["kind"]]


def run_unit(u, tier, seed):
    part = core.Part()

    def do_single(par, full):
        bad, n = check_single(par, full)
        part.states += 1
        part.transitions += n
        part.traces += n
        part.evaluations += n
        case = {"kind": "single", "par": par, "full": full}
        for sig, exp, obs in bad:
            part.violation(sig, case, exp, obs, rank=sum(len(v) for _k, v in par))
        if not bad:
            part.outcomes["%s/%d-fields/%d-cont" % ("sweep" if u["kind"] == "sweep" else "single", len(par),
                                                     min(3, sum(v.count("\n") for _k, v in par)))] += 1
        if len(par) > 1 or "\n" in par[0][1]:
            part.nontrivial += 1

    if u["kind"] == "single1":
        vals = values(tier, seed, u["first"])
        for v in vals:
            do_single([("A", v)], True)
        part.sample({"kind": "single", "par": [("A", vals[len(vals) // 2])], "full": True})
    elif u["kind"] == "single2":
        pars = two_field_pars(tier, seed)[u["lo"]:u["hi"]]
        for par in pars:
            do_single(par, tier == "thorough")
        part.sample({"kind": "single", "par": pars[0], "full": False})
    elif u["kind"] == "sweep":
        pars = sweep_pars()[u["lo"]:u["hi"]]
        for par in pars:
            do_single(par, False)
        part.sample({"kind": "single", "par": pars[0], "full": False})
    else:
        pl = pool(seed)
        rest = [pl] if u["kind"] == "multi2" else [pl[:6], pl[:6]]
        first = pl[u["a"]]
        for tail in itertools.product(*rest):
            pars = [first] + list(tail)
            for sep in ("\n", "\n\n"):
                bad, n = check_multi(pars, sep)
                part.states += 1
                part.transitions += n
                part.traces += n
                part.evaluations += n
                part.nontrivial += 1
                case = {"kind": "multi", "pars": pars, "sep": sep}
                for sig, exp, obs in bad:
                    part.violation(sig, case, exp, obs, rank=1000 + len(pars))
                if not bad:
                    part.outcomes["multi/%d-paragraphs" % len(pars)] += 1
        part.sample({"kind": "multi", "pars": [first, pl[0]], "sep": "\n"})
    return part


def replay(case):
    if case["kind"] == "single":
        return check_single([tuple(x) for x in case["par"]], case["full"])[0]
    return check_multi([[tuple(x) for x in p] for p in case["pars"]], case["sep"])[0]
