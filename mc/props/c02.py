"""C02 - Deb822 paragraphs survive dump and re-parse, whatever the input form (Engine B)."""
import io
import itertools

from .. import core

ID = "C02"
LEVEL = "model_checking"
RULE = ("paragraphs = ordered (name, value) lists, values = first line x all continuation-line lists up to length n over "
        "8 line shapes; documents = 1-3 paragraphs; every document is built through the public API, dumped, and read "
        "back through 6 input forms x {plain, one comment line at each line boundary, comments at all boundaries} "
        "(x clearsign armor x {Deb822, Dsc, Changes} for single paragraphs).  states = distinct documents, "
        "transitions = (document, form, comment placement, armor, class) configurations, traces = parser executions; "
        "non-trivial = documents with a continuation line or more than one field/paragraph; sweep = one-field "
        "paragraphs that carry one swept character in the value (first line and continuation line) or in the field name, "
        "run through the same single-paragraph configurations (plain + comments at all boundaries, armor); long lines = "
        "one- and two-field paragraphs and two-paragraph documents in which the first line and/or a continuation line of "
        "one value is a physical line of exactly L characters (ASCII) / L bytes or L characters of 2-byte UTF-8 letters, "
        "L around the buffer sizes a reader may use, through the same configurations; blank lines = documents of 1-3 "
        "paragraphs with 0-2 empty or whitespace-only lines before the first paragraph and 1-3 such lines between "
        "paragraphs (default parser setting: a whitespace-only line separates paragraphs like an empty one): one state "
        "per document, transitions = traces = parser executions (6 input forms x {Deb822, iter_paragraphs, Dsc, Changes} "
        "for one paragraph, 6 forms x iter_paragraphs otherwise), non-trivial when a leading or separating line is "
        "whitespace-only or there is more than one of them")
BUDGET = {"quick": 240, "thorough": 3000}


def bounds(tier):
    return {"names": NAMES, "first_lines": len(firsts(0)), "continuation_shapes": len(conts(0)),
            "continuation_lines": "0..2" if tier == "quick" else "0..%d" % DEEP_CONTS,
            "two_field_paragraphs": "every 7th x every 11th value (of the 584 with <= 2 continuation lines), two name pairs" if tier == "quick"
            else "every value x every 3rd value (of the 584 with <= 2 continuation lines), two name pairs, every single comment placement",
            "documents": "all pairs over a %d-paragraph pool and triples over %d, separators of 1 and 2 blank lines"
                         % tuple(len(x) for x in pools(tier, 0)),
            "input_forms": ["str", "bytes", "lines with newlines", "lines without", "StringIO", "BytesIO"],
            "comment_placements": "none / each single line boundary / all boundaries",
            "sweep": "one character at a time: %d values 'x<c>y' + continuation line ' x<c>y' under field A (c = printable "
                     "ASCII U+0021..U+007E and %d non-ASCII letters) and %d field names 'X<c>Y' with value 'v' (c = "
                     "printable ASCII except ':') and the two-field paragraphs '<c>Y: v', 'Z: w' (c neither '#' nor '-'); forms x {plain, comments at all boundaries} and the armor variants"
                     % (len(sweep_value_chars()), len(SWEEP_NON_ASCII), len(sweep_name_chars())),
            "blank_lines": {"line_shapes": BLANK_LINES,
                            "leading": "all %d sequences of 0..2 such lines before the first paragraph" % len(blank_seqs(0, 2)),
                            "separators": "all %d sequences of 1..3 such lines between two paragraphs" % len(blank_seqs(1, 3)),
                            "documents": "every leading sequence x (each of %d paragraphs alone; all %d ordered pairs x every "
                                         "separator); three paragraphs x every pair of separators, no leading line"
                                         % (len(blank_pars(0)), len(blank_pars(0)) ** 2),
                            "configurations": "one paragraph: 6 input forms x {Deb822, iter_paragraphs, Dsc, Changes}; "
                                              "several: 6 input forms x iter_paragraphs; default parser settings"},
            "long_lines": {"physical_line_lengths": long_lengths(tier), "fills": [f for f, _m in LONG_FILLS],
                           "value_layouts": ([l for l, _m in LONG_LAYOUTS] if tier != "quick" else
                                             "shapes x %r for fills ascii and utf8-bytes at lengths < 16384 (utf8-chars: 2 "
                                             "fields with F resp. f+C); reduced products at the larger lengths - see "
                                             "long_specs()" % (LONG_LAYOUTS_QUICK,)),
                           "paragraph_shapes": LONG_SHAPES,
                           "documents": "two paragraphs, the long value (layouts F, f+C) in the first or in the second, "
                                        "separator 1 blank line: %d" % sum(len(long_docs(L, tier)) for L in long_lengths(tier)),
                           "single_paragraphs": sum(len(long_specs(L, tier)) for L in long_lengths(tier)),
                           "configurations": "6 forms x {plain, comments at all boundaries} x {Deb822, iter_paragraphs} "
                                             "+ armor (%s) x 6 forms x {Deb822, Dsc, Changes}"
                                             % ("1 Hash header" if tier == "quick" else "0/1/2 Hash headers")}}


def assumptions():
    return ["values are assigned with an already trimmed first line; continuation lines are compared verbatim",
            "comment lines are lines starting with '#' in column 0", "clearsign armor: BEGIN PGP SIGNED MESSAGE, "
            "0, 1 or 2 Hash armor headers, blank line, payload, blank line, signature block",
            "sweep: the swept value characters are printable, non-blank characters only - control characters, white "
            "space and the characters str.splitlines cuts at (\\x0b \\x0c \\x1c-\\x1e \\x85 U+2028 U+2029) are not "
            "'printable/UTF-8 values' in the sense of the quantifier; swept field-name characters are the policy set "
            "U+0021..U+007E without ':', in the middle of the name and - except '#' and '-' - as its first character",
            "blank lines: with the default setting (strict whitespace-separates-paragraphs = True) a line of blanks and "
            "tabs only is a paragraph separator exactly like an empty line (Policy 5.1, Debian bug 715558), and any number "
            "of such lines before the first paragraph or between two paragraphs is skipped; the unchanged library reads "
            "Deb822(' \\n\\t\\nA: b\\n') as {'A': 'b'} in every input form, and Dsc / Changes likewise",
            "long lines: the statement puts no bound on the length of a line; lengths are those of the physical line "
            "'Name: first line' resp. ' continuation' without its newline (8190..8193 bracket a cut after 8192 units "
            "whether or not the newline is counted); 'bytes' fills make the UTF-8 encoded line exactly L bytes long "
            "(fewer characters), 'chars' fills make it L characters long (more bytes); one filler letter repeated, "
            "no blanks inside the long line"]


NAMES = ["A", "Long-Name", "x1", "a9"]


def firsts(seed):
    v = core.rep(seed, ["v", "q", "1", "Z"])
    return ["", v, ":x", "#y", "a b", "a:b", "é", "-----BEGIN"]


def conts(seed):
    c = core.rep(seed, ["c", "r", "2", "Y"])
    return [" " + c, "\td", " .", " e: f", " #g", "  h  ", " i\t", " -----BEGIN PGP X-----"]


SWEEP_NON_ASCII = ["é", "ß", "Ω", "я", "中", "ç", "ñ", "ø", "ж", "ü", "λ", "√"]
SWEEP_CHUNK = 24


def sweep_value_chars():
    return [chr(cp) for cp in range(0x21, 0x7F)] + SWEEP_NON_ASCII


def sweep_name_chars():
    return [chr(cp) for cp in range(0x21, 0x7F) if chr(cp) != ":"]


def sweep_pars():
    """one-field paragraphs, simplest first: values with one swept character, then field names with one"""
    out = [[("A", "x%sy\n x%sy" % (c, c))] for c in sweep_value_chars()]
    out += [[("X%sY" % c, "v")] for c in sweep_name_chars()]
    # ... and as the first character of the name, which only '#' and '-' may not be
    out += [[("%sY" % c, "v"), ("Z", "w")] for c in sweep_name_chars() if c not in "#-"]
    return out


LONG_LENGTHS = [8190, 8191, 8192, 8193, 16384, 65536, 65537]
LONG_LENGTHS_THOROUGH = [4095, 4096, 4097, 16383, 16385, 32767, 32768, 32769, 65535, 131072, 131073]
# fill -> how a physical line of length L (characters, or bytes once encoded) with the given ASCII prefix is filled
LONG_FILLS = [("ascii", "L characters = L bytes of one ASCII letter"),
              ("utf8-bytes", "2-byte letters (one ASCII letter of padding if needed): exactly L bytes, fewer characters"),
              ("utf8-chars", "2-byte letters: exactly L characters, more bytes")]
# layout of the value that carries the long line(s): F = long first line, C = long continuation line, lower case = short
LONG_LAYOUTS = [("F", "long first line only"), ("F+c", "long first line, short continuation line"),
                ("f+C", "short first line, long continuation line"), ("f+C+c", "short first, long continuation, short continuation"),
                ("F+C", "long first line and long continuation line"), ("+C", "empty first line, long continuation line"),
                ("F+C+c", "long first line, long continuation line, short continuation line")]
LONG_LAYOUTS_QUICK = ["F", "f+C", "F+C+c"]
LONG_SHAPES = ["1 field", "2 fields, long value first", "2 fields, long value second"]


def long_fill(prefix, L, fill, seed):
    """text that completes `prefix` (ASCII) to a physical line of length L in the unit of `fill`"""
    a = core.rep(seed, ["x", "q", "1", "Z"])
    n = L - len(prefix)
    if fill == "ascii":
        return a * n
    u = core.rep(seed, ["é", "ß", "ø", "ж"])
    if fill == "utf8-chars":
        return u * n
    return a * (n % 2) + u * (n // 2)


def long_value(name, L, fill, layout, seed):
    c = core.rep(seed, ["c", "r", "2", "Y"])
    v = core.rep(seed, ["v", "q", "1", "Z"])
    first, _, rest = layout.partition("+")
    lines = [{"F": long_fill(name + ": ", L, fill, seed), "f": v, "": ""}[first]]
    for r in rest.split("+") if rest else []:
        lines.append(" " + (long_fill(" ", L, fill, seed) if r == "C" else c))
    return "\n".join(lines)


def long_par(spec, seed):
    L, fill, layout, shape = spec["L"], spec["fill"], spec["layout"], spec["shape"]
    other = core.rep(seed, ["y", "w", "3", "X"])
    if shape == 0:
        return [("A", long_value("A", L, fill, layout, seed))]
    if shape == 1:
        return [("Long-Name", long_value("Long-Name", L, fill, layout, seed)), ("x1", other)]
    return [("x1", other + "\n d"), ("a9", long_value("a9", L, fill, layout, seed))]


def long_lengths(tier):
    return LONG_LENGTHS if tier == "quick" else sorted(LONG_LENGTHS + LONG_LENGTHS_THOROUGH)


def long_specs(L, tier):
    """single-paragraph specs for one length, simplest first.  quick: the full fill x shape product over three layouts
    at the lengths around 8192, a reduced product at the larger lengths (a case costs time proportional to L);
    thorough: fills x shapes x all layouts at every length"""
    if tier != "quick":
        fills, layouts = [f for f, _m in LONG_FILLS], [l for l, _m in LONG_LAYOUTS]
        return [{"L": L, "fill": f, "layout": l, "shape": sh} for f in fills for sh in range(len(LONG_SHAPES)) for l in layouts]
    full = [(sh, l) for sh in range(len(LONG_SHAPES)) for l in LONG_LAYOUTS_QUICK]
    if L < 16384:
        plan = [("ascii", full), ("utf8-bytes", full), ("utf8-chars", [(1, "F"), (2, "f+C")])]
    elif L < 65536:
        plan = [("ascii", [(sh, l) for sh in range(len(LONG_SHAPES)) for l in ("F", "f+C")]),
                ("utf8-bytes", [(1, "F"), (2, "f+C"), (0, "F+C+c")])]
    else:
        plan = [("ascii", [(1, "F"), (2, "f+C"), (0, "F+C+c")]), ("utf8-bytes", [(1, "F")])]
    return [{"L": L, "fill": f, "layout": l, "shape": sh} for f, cells in plan for sh, l in cells]


def long_docs(L, tier):
    """two-paragraph documents for one length: (spec of the long paragraph, position of the long paragraph)"""
    if tier != "quick":
        plan = [(f, (0, 1), ("F", "f+C")) for f, _m in LONG_FILLS]
    elif L < 16384:
        plan = [("ascii", (0, 1), ("F", "f+C")), ("utf8-bytes", (0,), ("F", "f+C")), ("utf8-chars", (0,), ("F",))]
    else:
        plan = [("ascii", (0,), ("F", "f+C")), ("utf8-bytes", (0,), ("F",))]
    return [({"L": L, "fill": f, "layout": l, "shape": sh}, pos)
            for f, shapes, layouts in plan for sh in shapes for l in layouts for pos in (0, 1)]


def squeeze(x):
    """readable rendering of results that contain very long runs of one character"""
    import re
    t = x if isinstance(x, str) else repr(x)
    return re.sub(r"(.)\1{39,}", lambda m: "<%r x %d>" % (m.group(1), len(m.group(0))), t, flags=re.S)


def run_long(case):
    """executes one long-line case -> (violations, n executions)"""
    if case["kind"] == "long":
        bad, n = check_single(long_par(case["spec"], case["seed"]), False, ARMOR_HEADERS[:1] if case.get("one_armor") else None)
    else:
        bad, n = check_multi(long_doc_pars(case["spec"], case["pos"], case["seed"]), "\n")
    return [(sig, squeeze(exp), squeeze(obs)) for sig, exp, obs in bad], n


def long_doc_pars(spec, pos, seed):
    short = [("A", core.rep(seed, ["s", "t", "4", "W"])), ("Long-Name", "k\n l")]
    lp = long_par(spec, seed)
    return [lp, short] if pos == 0 else [short, lp]


def values(tier, seed, fi):
    n = 2 if tier == "quick" else 3
    f = firsts(seed)[fi]
    out = []
    for k in range(0, n + 1):
        for cs in itertools.product(conts(seed), repeat=k):
            out.append("\n".join((f,) + cs))
    return out


DEEP_CONTS = 5        # thorough: continuation-line lists up to this length (values() stops at 3, deep_values() adds 4..)


def deep_values(seed, fi, k, prefix):
    """the values with first line fi and exactly k continuation lines of which the first len(prefix) are given"""
    f = firsts(seed)[fi]
    cs = conts(seed)
    head = tuple(cs[i] for i in prefix)
    return ["\n".join((f,) + head + tail) for tail in itertools.product(cs, repeat=k - len(head))]


def all_values(tier, seed):
    out = []
    for fi in range(len(firsts(seed))):
        out += values(tier, seed, fi)
    return out


def forms(text):
    b = text.encode("utf-8")
    nonl = text.split("\n")[:-1] if text.endswith("\n") else text.split("\n")
    return [("str", lambda: text), ("bytes", lambda: b), ("lines_nl", lambda: text.splitlines(True)),
            ("lines_nonl", lambda: list(nonl)), ("textio", lambda: io.StringIO(text)), ("bytesio", lambda: io.BytesIO(b))]


ARMOR_HEADERS = [("1hdr", "Hash: SHA512\n"), ("2hdr", "Hash: SHA256\nHash: SHA1\n"), ("0hdr", "")]


def armor(text, headers="Hash: SHA512\n"):
    return ("-----BEGIN PGP SIGNED MESSAGE-----\n" + headers + "\n" + text +
            "\n-----BEGIN PGP SIGNATURE-----\n\niQabc\n=xyz\n-----END PGP SIGNATURE-----\n")


def with_comments(text, where):
    ls = text.split("\n")[:-1]
    out = []
    for i, l in enumerate(ls):
        if where == "all" or where == i:
            out.append("#cm")
        out.append(l)
    if where == "all" or where == len(ls):
        out.append("#cm")
    return "\n".join(out) + "\n"


def build(par):
    """-> dumped text or None if the API rejects a value"""
    from debian.deb822 import Deb822
    d = Deb822()
    try:
        for k, v in par:
            d[k] = v
    except ValueError:
        return None
    return d.dump()


def check_single(par, full, armors=None):
    """-> (violations, n executions)"""
    from debian.deb822 import Deb822, Dsc, Changes
    bad = []
    n = 0
    text = build(par)
    if text is None:
        return [("deb822/valid-value-rejected", "accepted", "ValueError for %r" % (par,))], 0
    want = [(k, v) for k, v in par]
    nl = text.count("\n")
    variants = [("plain", text), ("call", with_comments(text, "all"))]
    if full:
        variants += [("c%d" % w, with_comments(text, w)) for w in range(nl + 1)]
    for vn, t in variants:
        for fn, mk in forms(t):
            n += 2
            try:
                got = list(Deb822(mk()).items())
                gp = [list(p.items()) for p in Deb822.iter_paragraphs(mk())]
            except Exception as e:
                bad.append(("deb822/single/raises/%s" % fn, want, "%s: %s on %r" % (type(e).__name__, e, t)))
                continue
            vclass = vn if vn in ("plain", "call") else "c<i>"
            if got != want:
                bad.append(("deb822/single/%s/%s" % (vclass, fn), want, "%r from %r" % (got, t)))
            elif gp != [want]:
                bad.append(("deb822/single-iter/%s/%s" % (vclass, fn), [want], "%r from %r" % (gp, t)))
    for hn, hdrs in (ARMOR_HEADERS if armors is None else armors):
        a = armor(text, hdrs)
        for fn, mk in forms(a):
            for cls in (Deb822, Dsc, Changes):
                n += 1
                try:
                    got = list(cls(mk()).items())
                except Exception as e:
                    bad.append(("deb822/armor-%s/raises/%s/%s" % (hn, fn, cls.__name__), want,
                                "%s: %s" % (type(e).__name__, e)))
                    continue
                if got != want:
                    bad.append(("deb822/armor-%s/%s/%s" % (hn, fn, cls.__name__), want, "%r from %r" % (got, a)))
    n += 1
    rd = Deb822(text).dump()
    if rd != text:
        bad.append(("deb822/redump", text, rd))
    if len(par) >= 2:
        # dump, re-order, dump again: the second dump must re-parse to the paragraph's fields in their new order
        for how in ("first", "sort"):
            d = Deb822()
            for k, v in par:
                d[k] = v
            d.dump()
            if how == "first":
                d.order_first(par[-1][0])
            else:
                d.sort_fields(key=lambda x: [-ord(ch) for ch in x.lower()])
            n += 1
            now = list(d.items())
            got = list(Deb822(d.dump()).items())
            if sorted(now) != sorted(want) or (how == "first" and now != [want[-1]] + want[:-1]):
                bad.append(("deb822/reorder/%s/live-order" % how, [want[-1]] + want[:-1], now))
            elif got != now:
                bad.append(("deb822/reorder/%s/dump-after-reorder" % how, now, "%r from %r" % (got, d.dump())))
    return bad, n


# ------------------------------------------------------------------------------------------------ blank lines
BLANK_LINES = ["", " ", "\t"]          # an empty line and two whitespace-only lines (without their newline)


def blank_seqs(lo, hi):
    """all sequences of lo..hi lines over BLANK_LINES, shortest first"""
    return [list(t) for n in range(lo, hi + 1) for t in itertools.product(BLANK_LINES, repeat=n)]


def blank_pars(seed):
    v, c = firsts(seed)[1], conts(seed)[0]
    return [[("A", v)], [("A", v + "\n" + c)], [("x1", "a b"), ("Long-Name", v + "\n .\n" + c)]]


def check_blank(lead, pars, seps):
    """lead: list of blank lines before the first paragraph; seps: one list of blank lines per paragraph boundary
    -> (violations, n executions)"""
    from debian.deb822 import Deb822, Dsc, Changes
    texts = [build(p) for p in pars]
    if any(t is None for t in texts):
        return [("deb822/valid-value-rejected", "accepted", "ValueError")], 0
    t = "".join(l + "\n" for l in lead) + texts[0]
    for sep, tx in zip(seps, texts[1:]):
        t += "".join(l + "\n" for l in sep) + tx
    want = [[(k, v) for k, v in p] for p in pars]
    bad = []
    n = 0
    for fn, mk in forms(t):
        n += 1
        try:
            gp = [list(p.items()) for p in Deb822.iter_paragraphs(mk())]
        except Exception as e:
            bad.append(("deb822/blank-lines/iter/raises/%s" % fn, want, "%s: %s on %r" % (type(e).__name__, e, t)))
            gp = want
        if gp != want:
            bad.append(("deb822/blank-lines/iter/%s" % fn, want, "%r from %r" % (gp, t)))
        if len(pars) > 1:
            continue
        for cls in (Deb822, Dsc, Changes):
            n += 1
            try:
                got = list(cls(mk()).items())
            except Exception as e:
                bad.append(("deb822/blank-lines/%s/raises/%s" % (cls.__name__, fn), want[0],
                            "%s: %s on %r" % (type(e).__name__, e, t)))
                continue
            if got != want[0]:
                bad.append(("deb822/blank-lines/%s/%s" % (cls.__name__, fn), want[0], "%r from %r" % (got, t)))
    return bad, n


def check_multi(pars, sep):
    from debian.deb822 import Deb822
    texts = [build(p) for p in pars]
    if any(t is None for t in texts):
        return [("deb822/valid-value-rejected", "accepted", "ValueError")], 0
    t = sep.join(texts)
    want = [[(k, v) for k, v in p] for p in pars]
    bad = []
    n = 0
    for vn, tt in (("plain", t), ("call", with_comments(t, "all"))):
        for fn, mk in forms(tt):
            n += 1
            try:
                gp = [list(p.items()) for p in Deb822.iter_paragraphs(mk())]
            except Exception as e:
                bad.append(("deb822/multi/raises/%s" % fn, want, "%s: %s" % (type(e).__name__, e)))
                continue
            if gp != want:
                bad.append(("deb822/multi/%s/%s" % (vn, fn), want, "%r from %r" % (gp, tt)))
    return bad, n


def two_field_pars(tier, seed):
    # both tiers draw from the values with <= 2 continuation lines (584); thorough takes a denser grid and, in
    # run_unit, every single comment placement
    return two_field_slice(tier, seed, 0, None)


def _grid(tier):
    return (7, 11) if tier == "quick" else (1, 3)


def two_field_count(tier, seed):
    vals = all_values("quick", seed)
    a, b = _grid(tier)
    return len(vals[::a]) * len(vals[::b]) * 2


def two_field_slice(tier, seed, lo, hi):
    """two_field_pars(tier, seed)[lo:hi] without building the whole list"""
    vals = all_values("quick", seed)
    a, b = _grid(tier)
    vs, ws = vals[::a], vals[::b]
    n = len(vs) * len(ws) * 2
    out = []
    for k in range(lo, n if hi is None else min(hi, n)):
        v, w = vs[k // 2 // len(ws)], ws[k // 2 % len(ws)]
        out.append([("x1", w), ("a9", v)] if k % 2 else [("A", v), ("Long-Name", w)])
    return out


def pools(tier, seed):
    """-> (paragraphs for the two-paragraph documents, paragraphs for the three-paragraph documents); the thorough
    pools contain the quick ones"""
    vals = all_values("quick", seed)
    singles = [[("A", v)] for v in vals]
    twos = two_field_pars("quick", seed)
    allp = singles + twos
    pl = allp[::37]
    if tier == "quick":
        return pl[:20], pl[:6]
    return pl, pl[:6] + pl[6::6]


def pool(seed):
    return pools("quick", seed)[0]


def units(tier, seed):
    out = [{"kind": "single1", "first": fi} for fi in range(len(firsts(seed)))]
    if tier != "quick":
        nc = len(conts(seed))
        for k in range(4, DEEP_CONTS + 1):
            # 512 values per unit: the first k - 3 continuation lines are fixed
            out += [{"kind": "single1-deep", "first": fi, "conts": k, "prefix": list(pre)}
                    for fi in range(len(firsts(seed))) for pre in itertools.product(range(nc), repeat=k - 3)]
    n2 = two_field_count(tier, seed)
    step = 400
    out += [{"kind": "single2", "lo": i, "hi": min(n2, i + step)} for i in range(0, n2, step)]
    ns = len(sweep_pars())
    out += [{"kind": "sweep", "lo": i, "hi": min(ns, i + SWEEP_CHUNK)} for i in range(0, ns, SWEEP_CHUNK)]
    out += [{"kind": "long", "L": L} for L in long_lengths(tier)]
    out += [{"kind": "blank", "lead": lead} for lead in blank_seqs(0, 2)]
    p2, p3 = pools(tier, seed)
    out += [{"kind": "multi2", "a": i} for i in range(len(p2))]
    out += [{"kind": "multi3", "a": i} for i in range(len(p3))]
    return out


def unit_cost(u, tier):
    if u["kind"] == "long":
        return 4 + u["L"] // 4096
    if tier != "quick" and u["kind"] == "multi3":
        return 14
    if u["kind"] == "blank":
        return 2
    return {"single1": 30, "single1-deep": 14, "single2": 10, "sweep": 1, "multi2": 2, "multi3": 3}[u["kind"]]


def run_unit(u, tier, seed):
    part = core.Part()

    def do_single(par, full):
        bad, n = check_single(par, full)
        part.states += 1
        part.transitions += n
        part.traces += n
        part.evaluations += n
        case = {"kind": "single", "par": par, "full": full}
        for sig, exp, obs in bad:
            part.violation(sig, case, exp, obs, rank=sum(len(v) for _k, v in par))
        if not bad:
            part.outcomes["%s/%d-fields/%d-cont" % ("sweep" if u["kind"] == "sweep" else "single", len(par),
                                                     min(3, sum(v.count("\n") for _k, v in par)))] += 1
        if len(par) > 1 or "\n" in par[0][1]:
            part.nontrivial += 1

    if u["kind"] == "single1":
        vals = values(tier, seed, u["first"])
        for v in vals:
            do_single([("A", v)], True)
        part.sample({"kind": "single", "par": [("A", vals[len(vals) // 2])], "full": True})
    elif u["kind"] == "single1-deep":
        vals = deep_values(seed, u["first"], u["conts"], u["prefix"])
        for v in vals:
            do_single([("A", v)], True)
        part.sample({"kind": "single", "par": [("A", vals[len(vals) // 2])], "full": True})
    elif u["kind"] == "single2":
        pars = two_field_slice(tier, seed, u["lo"], u["hi"])
        for par in pars:
            do_single(par, tier == "thorough")
        part.sample({"kind": "single", "par": pars[0], "full": False})
    elif u["kind"] == "sweep":
        pars = sweep_pars()[u["lo"]:u["hi"]]
        for par in pars:
            do_single(par, False)
        part.sample({"kind": "single", "par": pars[0], "full": False})
    elif u["kind"] == "blank":
        lead = u["lead"]
        bp = blank_pars(seed)
        seps = blank_seqs(1, 3)
        docs = [([p], []) for p in bp]
        docs += [([p, q], [sep]) for p in bp for q in bp for sep in seps]
        if not lead:
            docs += [(list(bp), [s1, s2]) for s1 in seps for s2 in seps]
        for pars, ss in docs:
            bad, n = check_blank(lead, pars, ss)
            part.states += 1
            part.transitions += n
            part.traces += n
            part.evaluations += n
            if len(lead) > 1 or any(len(x) > 1 for x in ss) or any(l for x in [lead] + ss for l in x):
                part.nontrivial += 1
            case = {"kind": "blank", "lead": lead, "pars": pars, "seps": ss}
            for sig, exp, obs in bad:
                part.violation(sig, case, exp, obs, rank=len(lead) + len(pars) + sum(len(x) for x in ss))
            if not bad:
                part.outcomes["blank-lines/%d-paragraphs/%d-leading/separators<=%d" % (
                    len(pars), len(lead), max([len(x) for x in ss] or [0]))] += 1
        part.sample({"kind": "blank", "lead": lead, "pars": docs[len(docs) // 2][0], "seps": docs[len(docs) // 2][1]})
    elif u["kind"] == "long":
        one = tier == "quick"
        cases = [{"kind": "long", "spec": spec, "seed": seed, "one_armor": one} for spec in long_specs(u["L"], tier)]
        cases += [{"kind": "longdoc", "spec": spec, "pos": pos, "seed": seed} for spec, pos in long_docs(u["L"], tier)]
        for case in cases:
            bad, n = run_long(case)
            spec = case["spec"]
            part.states += 1
            part.transitions += n
            part.traces += n
            part.evaluations += n
            part.nontrivial += 1
            for sig, exp, obs in bad:
                part.violation(sig, case, exp, obs, rank=(100000 if case["kind"] == "long" else 200000) + spec["L"])
            if not bad:
                part.outcomes["long/%s/%s/%s" % (spec["fill"], spec["layout"], "document" if case["kind"] == "longdoc"
                                                 else "%d-fields" % (1 if spec["shape"] == 0 else 2))] += 1
        part.sample({"kind": "long", "spec": long_specs(u["L"], tier)[0], "seed": seed, "one_armor": one})
    else:
        p2, p3 = pools(tier, seed)
        pl = p2 if u["kind"] == "multi2" else p3
        rest = [pl] if u["kind"] == "multi2" else [pl, pl]
        first = pl[u["a"]]
        for tail in itertools.product(*rest):
            pars = [first] + list(tail)
            for sep in ("\n", "\n\n"):
                bad, n = check_multi(pars, sep)
                part.states += 1
                part.transitions += n
                part.traces += n
                part.evaluations += n
                part.nontrivial += 1
                case = {"kind": "multi", "pars": pars, "sep": sep}
                for sig, exp, obs in bad:
                    part.violation(sig, case, exp, obs, rank=1000 + len(pars))
                if not bad:
                    part.outcomes["multi/%d-paragraphs" % len(pars)] += 1
        part.sample({"kind": "multi", "pars": [first, pl[0]], "sep": "\n"})
    return part


def replay(case):
    if case["kind"] in ("long", "longdoc"):
        return run_long(case)[0]
    if case["kind"] == "single":
        return check_single([tuple(x) for x in case["par"]], case["full"])[0]
    if case["kind"] == "blank":
        return check_blank(case["lead"], [[tuple(x) for x in p] for p in case["pars"]], case["seps"])[0]
    return check_multi([[tuple(x) for x in p] for p in case["pars"]], case["sep"])[0]
