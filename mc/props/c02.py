"""C02 - Deb822 paragraphs survive dump and re-parse, whatever the input form (Engine B)."""
import io
import itertools

from .. import core

ID = "C02"
LEVEL = "model_checking"
RULE = ("paragraphs = ordered (name, value) lists, values = first line x all continuation-line lists up to length n over "
        "8 line shapes; documents = 1-3 paragraphs; every document is built through the public API, dumped, and read "
        "back through 6 input forms x {plain, one comment line at each line boundary, comments at all boundaries} "
        "(x clearsign armor x {Deb822, Dsc, Changes} for single paragraphs).  states = distinct documents, "
        "transitions = (document, form, comment placement, armor, class) configurations, traces = parser executions; "
        "non-trivial = documents with a continuation line or more than one field/paragraph; sweep = one-field "
        "paragraphs that carry one swept character in the value (first line and continuation line) or in the field name, "
        "run through the same single-paragraph configurations (plain + comments at all boundaries, armor); long lines = "
        "one- and two-field paragraphs and two-paragraph documents in which the first line and/or a continuation line of "
        "one value is a physical line of exactly L characters (ASCII) / L bytes or L characters of 2-byte UTF-8 letters, "
        "L around the buffer sizes a reader may use, through the same configurations; blank lines = documents of 1-3 "
        "paragraphs with 0-2 empty or whitespace-only lines before the first paragraph and 1-3 such lines between "
        "paragraphs (default parser setting: a whitespace-only line separates paragraphs like an empty one): one state "
        "per document, transitions = traces = parser executions (6 input forms x {Deb822, iter_paragraphs, Dsc, Changes} "
        "for one paragraph, 6 forms x iter_paragraphs otherwise), non-trivial when a leading or separating line is "
        "whitespace-only or there is more than one of them; other routes = for the documents of a sub-space (bounds: routes) the "
        "same behaviour reached another way - how the paragraph object came into being x how it is dumped, every other "
        "entry point / option value that reads the text back x every kind of input, how the result is read, armor x "
        "comment lines - each of which must give exactly what the default route gives: one state per document, "
        "transitions = traces = executions of a route; the blank-line documents are additionally read through the option "
        "values and classes that must not change the reading")
BUDGET = {"quick": 240, "thorough": 3000}


def bounds(tier):
    return {"names": NAMES, "first_lines": len(firsts(0)), "continuation_shapes": len(conts(0)),
            "continuation_lines": "0..2" if tier == "quick" else "0..%d" % DEEP_CONTS,
            "two_field_paragraphs": "every 7th x every 11th value (of the 584 with <= 2 continuation lines), two name pairs" if tier == "quick"
            else "every value x every 3rd value (of the 584 with <= 2 continuation lines), two name pairs, every single comment placement",
            "documents": "all pairs over a %d-paragraph pool and triples over %d, separators of 1 and 2 blank lines"
                         % tuple(len(x) for x in pools(tier, 0)),
            "input_forms": ["str", "bytes", "lines with newlines", "lines without", "StringIO", "BytesIO"],
            "comment_placements": "none / each single line boundary / all boundaries",
            "sweep": "one character at a time: %d values 'x<c>y' + continuation line ' x<c>y' under field A (c = printable "
                     "ASCII U+0021..U+007E and %d non-ASCII letters) and %d field names 'X<c>Y' with value 'v' (c = "
                     "printable ASCII except ':') and the two-field paragraphs '<c>Y: v', 'Z: w' (c neither '#' nor '-'); forms x {plain, comments at all boundaries} and the armor variants; plus %d marker lines of the neighbouring layers spelled in full (%s) as "
                     "first line, continuation line, value after an empty first line, twice in one value, followed by a second field"
                     % (len(sweep_value_chars()), len(SWEEP_NON_ASCII), len(sweep_name_chars()), len(MARKER_LINES), ", ".join(repr(m) for m in MARKER_LINES)),
            "blank_lines": {"line_shapes": BLANK_LINES,
                            "leading": "all %d sequences of 0..2 such lines before the first paragraph" % len(blank_seqs(0, 2)),
                            "separators": "all %d sequences of 1..3 such lines between two paragraphs" % len(blank_seqs(1, 3)),
                            "documents": "every leading sequence x (each of %d paragraphs alone; all %d ordered pairs x every "
                                         "separator); three paragraphs x every pair of separators, no leading line"
                                         % (len(blank_pars(0)), len(blank_pars(0)) ** 2),
                            "configurations": "one paragraph: 6 input forms x {Deb822, iter_paragraphs, Dsc, Changes}; "
                                              "several: 6 input forms x iter_paragraphs; default parser settings"},
            "routes": {"documents": "one field A x every first line x every continuation-line list of length 0..%d; two fields x all 36 ordered pairs "
                                    "of six value shapes%s; all ordered pairs over a %d-paragraph pool (separator "
                                    "1 blank line), pairs over 3 with 2 blank lines, triples over 2; the %d field-name sweep "
                                    "paragraphs (reduced route set: objects %s, plain text, readers x %s, no armor x comments): %d documents"
                                    % (1 if tier == "quick" else 2, "" if tier == "quick" else " and every 11th two-field paragraph of the quick grid",
                                       4 if tier == "quick" else 10, len([p for p in sweep_pars() if p[0][0] != "A"]),
                                       list(ROUTE_OBJECTS_LIGHT), list(ROUTE_FORMS_REDUCED), len(route_docs(tier, 0))),
                       "objects": ROUTE_OBJECTS, "dumps": ROUTE_DUMPS,
                       "dumps_per_object": "all for %s; %s for the others" % (list(ROUTE_OBJECTS_ALL_DUMPS), list(ROUTE_DUMPS_CORE)),
                       "readers": "Deb822(...) and Deb822.iter_paragraphs(...) with every parameter spelled out as keyword / "
                                  "positionally, use_apt_pkg=True, shared_storage=True, strict = {} / {ws: True} / {ws: False}, "
                                  "fields = all names (also reversed with an absent name), each single name and each all-but-one "
                                  "(where every paragraph keeps a field), encoding='iso-8859-1' on Latin-1 bytes; cls(...) and "
                                  "cls.iter_paragraphs(...) for cls in %s; paragraph by paragraph from one iterator (Deb822, "
                                  "Dsc), Deb822(it) then iter_paragraphs(it)" % ROUTE_CLASSES,
                       "input_kinds": list(STANDARD_FORMS) + ROUTE_FORMS_EXTRA,
                       "input_kinds_per_reader": "plain text: all readers x the six forms, core readers %s x the further kinds; "
                                                 "comments at all boundaries and sweep paragraphs: all readers x %s"
                                                 % (list(ROUTE_CORE), list(ROUTE_FORMS_REDUCED)),
                       "reads": ROUTE_READS,
                       "armor": "6 forms x {Deb822, Dsc, Changes, Sources, BuildInfo} x {iter_paragraphs, strict ws False, keywords, "
                                "dump of the result}; split_gpg_and_payload / gpg_stripped_paragraph on the line-wise forms; "
                                "armor x {comments at all payload boundaries, at each single one, one before the armor} x 6 forms "
                                "x {Deb822, Dsc, Changes} x {constructor, iter_paragraphs}",
                       "blank_line_documents": "forms str (+ BytesIO without leading lines) x iter_paragraphs with strict {ws: True} "
                                               "positionally, fields = all names, Release / Changes iter_paragraphs; when every "
                                               "blank line is empty also strict {ws: False}, Packages / Sources iter_paragraphs"},
            "long_lines": {"physical_line_lengths": long_lengths(tier), "fills": [f for f, _m in LONG_FILLS],
                           "value_layouts": ([l for l, _m in LONG_LAYOUTS] if tier != "quick" else
                                             "shapes x %r for fills ascii and utf8-bytes at lengths < 16384 (utf8-chars: 2 "
                                             "fields with F resp. f+C); reduced products at the larger lengths - see "
                                             "long_specs()" % (LONG_LAYOUTS_QUICK,)),
                           "paragraph_shapes": LONG_SHAPES,
                           "documents": "two paragraphs, the long value (layouts F, f+C) in the first or in the second, "
                                        "separator 1 blank line: %d" % sum(len(long_docs(L, tier)) for L in long_lengths(tier)),
                           "single_paragraphs": sum(len(long_specs(L, tier)) for L in long_lengths(tier)),
                           "configurations": "6 forms x {plain, comments at all boundaries} x {Deb822, iter_paragraphs} "
                                             "+ armor (%s) x 6 forms x {Deb822, Dsc, Changes}"
                                             % ("1 Hash header" if tier == "quick" else "0/1/2 Hash headers")},
            "beyond_the_small_scope": {
                "count_ladder_fields_per_paragraph": {
                    "n": "every n in 1..40 and %s (2500 / 2501 / 5000 dropped: more than a second per case)" % SCALE_FIELDS_BIG,
                    "paragraph": "n fields, names of four shapes, six kinds of value (single-line, ':x', multi-line, empty, 'a:b', "
                                 "empty first line + continuation), alone or with one more field 'A' (multi-line, a continuation "
                                 "line 'A: b') first / middle / last (n > 40: alone, middle)",
                    "dumps": "dump() with the configurations of the single-paragraph pass (6 forms x {plain, comments at all "
                             "boundaries} x {Deb822, iter_paragraphs}, armor x 6 forms x 3 classes, re-dump, re-order) and "
                             "dump(fd) binary, dump(fd, text_mode=True), str(), bytes() read back"},
                "count_ladder_continuation_lines": {
                    "n": "every n in 1..40 and %s" % SCALE_BIG,
                    "arrangements": "plain; the 8 continuation-line kinds cycling; one line of kind ' e: f', ' #g', '  h  ' "
                                    "or the armor-like line as the first / middle / last of n plain ones (n > 40: three of these)",
                    "shapes": "single field / between two other fields; first line v, empty or ':x'"},
                "count_ladder_paragraphs": {
                    "n": "every n in 1..40 and %s (2500+ dropped: more than a second per case)" % SCALE_PARS_BIG,
                    "document": "1-, 2- and 3-field paragraphs in turn, alone or with an 8-field paragraph first / middle / last; "
                                "separator 1 or 2 blank lines (n > 40: 1); 6 forms x {plain, comments at all boundaries}"},
                "size_ladder": {
                    "L": SCALE_SIZES + (SCALE_SIZES_THOROUGH if tier != "quick" else []),
                    "not_in_quick": SCALE_SIZES_THOROUGH if tier == "quick" else [],
                    "shapes": "the physical line 'A: ...' resp. the continuation line ' ...' is L characters long",
                    "content": "plain filler (one letter; words of 7 letters and a blank) and one token of %s" % [n for n, _t in SCALE_TOKENS],
                    "places": "offsets in the dump: behind the start of the long line, at its end, and for every block size of %s "
                              "inside: token starting at b-1, b, b+1 and ending at b (L >= 65535: the largest block size only, "
                              "tokens %s)" % (SCALE_BLOCKS, list(SCALE_TOKENS_CONT)),
                    "cases": sum(len(scale_cases("size", L, tier)) for L in SCALE_SIZES + (SCALE_SIZES_THOROUGH if tier != "quick" else []))}}}


def assumptions():
    return ["values are assigned with an already trimmed first line; continuation lines are compared verbatim",
            "comment lines are lines starting with '#' in column 0 (the inserted line is %r)" % COMMENT, "clearsign armor: BEGIN PGP SIGNED MESSAGE, "
            "0, 1 or 2 Hash armor headers, blank line, payload, blank line, signature block",
            "sweep: the swept value characters are printable, non-blank characters only - control characters, white "
            "space and the characters str.splitlines cuts at (\\x0b \\x0c \\x1c-\\x1e \\x85 U+2028 U+2029) are not "
            "'printable/UTF-8 values' in the sense of the quantifier; swept field-name characters are the policy set "
            "U+0021..U+007E without ':', in the middle of the name and - except '#' and '-' - as its first character",
            "blank lines: with the default setting (strict whitespace-separates-paragraphs = True) a line of blanks and "
            "tabs only is a paragraph separator exactly like an empty line (Policy 5.1, Debian bug 715558), and any number "
            "of such lines before the first paragraph or between two paragraphs is skipped; the unchanged library reads "
            "Deb822(' \\n\\t\\nA: b\\n') as {'A': 'b'} in every input form, and Dsc / Changes likewise",
            "other routes: a route is included when the library documents it as a way to do the same thing (parameters of "
            "Deb822 / iter_paragraphs / dump, sub-classes for field names they do not treat specially, mapping methods, "
            "copy); every route is compared with the expectation of the default route, not with another route's output; "
            "apt_pkg is not installed, so use_apt_pkg=True is the documented fall-back to the internal parser (its warning "
            "is ignored); fields= lists under which a paragraph would lose all its fields are left out (iter_paragraphs "
            "stops at an empty paragraph); encoding='iso-8859-1' only for documents that are Latin-1 encodable",
            "other routes, left out: Dsc / Changes / Sources / BuildInfo reading a multi-paragraph document in which a "
            "comment line stands alone between two blank lines (comments at all boundaries x separator of 2 blank lines): "
            "these classes look for clearsign armor in the raw lines before comments are dropped, take the lone comment for "
            "a paragraph, and iteration ends there - Dsc.iter_paragraphs('A:\\n\\n#cm\\n\\nA:\\n') yields one paragraph "
            "where Deb822.iter_paragraphs yields two.  The statement's multi-paragraph clause is about "
            "Deb822.iter_paragraphs; whether it binds the armor-scanning classes is doubtful, so the case is not demanded",
            "ladders: paragraphs and documents are generated from the description stored in the case; the oracle is that of "
            "the single-paragraph resp. multi-paragraph pass; a lone CR is not placed inside values here (it is a line "
            "boundary for str input and not for file input, and not printable text in the sense of the quantifier); "
            "dump(fd) / str() / bytes() must read back to the paragraph's fields (their text is not compared with dump())",
            "long lines: the statement puts no bound on the length of a line; lengths are those of the physical line "
            "'Name: first line' resp. ' continuation' without its newline (8190..8193 bracket a cut after 8192 units "
            "whether or not the newline is counted); 'bytes' fills make the UTF-8 encoded line exactly L bytes long "
            "(fewer characters), 'chars' fills make it L characters long (more bytes); one filler letter repeated, "
            "no blanks inside the long line"]


NAMES = ["A", "Long-Name", "x1", "a9"]


def firsts(seed):
    v = core.rep(seed, ["v", "q", "1", "Z"])
    return ["", v, ":x", "#y", "a b", "a:b", "é", "-----BEGIN"]


def conts(seed):
    c = core.rep(seed, ["c", "r", "2", "Y"])
    return [" " + c, "\td", " .", " e: f", " #g", "  h  ", " i\t", " -----BEGIN PGP X-----"]


MARKER_LINES = ["-----BEGIN PGP SIGNED MESSAGE-----", "-----BEGIN PGP SIGNATURE-----", "-----END PGP SIGNATURE-----",
                "-----BEGIN PGP MESSAGE-----", "Hash: SHA512", "- -----BEGIN PGP SIGNED MESSAGE-----", "- x", "-", "--",
                "#comment", "# A: b", "B: w", "B:", ":", ".", "\\n", "Version: GnuPG v1", "=abcd", "iQEzBAEBCAAdFiEE"]
SWEEP_NON_ASCII = ["é", "ß", "Ω", "я", "中", "ç", "ñ", "ø", "ж", "ü", "λ", "√"]
SWEEP_CHUNK = 24


def sweep_value_chars():
    return [chr(cp) for cp in range(0x21, 0x7F)] + SWEEP_NON_ASCII


def sweep_name_chars():
    return [chr(cp) for cp in range(0x21, 0x7F) if chr(cp) != ":"]


def sweep_pars():
    """one-field paragraphs, simplest first: values with one swept character, then field names with one"""
    out = [[("A", "x%sy\n x%sy" % (c, c))] for c in sweep_value_chars()]
    out += [[("X%sY" % c, "v")] for c in sweep_name_chars()]
    # ... and as the first character of the name, which only '#' and '-' may not be
    out += [[("%sY" % c, "v"), ("Z", "w")] for c in sweep_name_chars() if c not in "#-"]
    # markers of the neighbouring layers (armor, armor headers, dash-escaping, comments, field syntax) spelled in full
    # inside a value: as its first line, as a continuation line, and between two fields
    for m in MARKER_LINES:
        out.append([("A", "x\n " + m)])
        out.append([("A", "x\n " + m + "\n y"), ("B", "w")])
        out.append([("A", "\n " + m)])
        if not m.startswith("#"):
            out.append([("A", m), ("B", "w")])
            out.append([("A", m + "\n " + m)])
    return out


LONG_LENGTHS = [8190, 8191, 8192, 8193, 16384, 65536, 65537]
LONG_LENGTHS_THOROUGH = [4095, 4096, 4097, 16383, 16385, 32767, 32768, 32769, 65535, 131072, 131073]
# fill -> how a physical line of length L (characters, or bytes once encoded) with the given ASCII prefix is filled
LONG_FILLS = [("ascii", "L characters = L bytes of one ASCII letter"),
              ("utf8-bytes", "2-byte letters (one ASCII letter of padding if needed): exactly L bytes, fewer characters"),
              ("utf8-chars", "2-byte letters: exactly L characters, more bytes")]
# layout of the value that carries the long line(s): F = long first line, C = long continuation line, lower case = short
LONG_LAYOUTS = [("F", "long first line only"), ("F+c", "long first line, short continuation line"),
                ("f+C", "short first line, long continuation line"), ("f+C+c", "short first, long continuation, short continuation"),
                ("F+C", "long first line and long continuation line"), ("+C", "empty first line, long continuation line"),
                ("F+C+c", "long first line, long continuation line, short continuation line")]
LONG_LAYOUTS_QUICK = ["F", "f+C", "F+C+c"]
LONG_SHAPES = ["1 field", "2 fields, long value first", "2 fields, long value second"]


def long_fill(prefix, L, fill, seed):
    """text that completes `prefix` (ASCII) to a physical line of length L in the unit of `fill`"""
    a = core.rep(seed, ["x", "q", "1", "Z"])
    n = L - len(prefix)
    if fill == "ascii":
        return a * n
    u = core.rep(seed, ["é", "ß", "ø", "ж"])
    if fill == "utf8-chars":
        return u * n
    return a * (n % 2) + u * (n // 2)


def long_value(name, L, fill, layout, seed):
    c = core.rep(seed, ["c", "r", "2", "Y"])
    v = core.rep(seed, ["v", "q", "1", "Z"])
    first, _, rest = layout.partition("+")
    lines = [{"F": long_fill(name + ": ", L, fill, seed), "f": v, "": ""}[first]]
    for r in rest.split("+") if rest else []:
        lines.append(" " + (long_fill(" ", L, fill, seed) if r == "C" else c))
    return "\n".join(lines)


def long_par(spec, seed):
    L, fill, layout, shape = spec["L"], spec["fill"], spec["layout"], spec["shape"]
    other = core.rep(seed, ["y", "w", "3", "X"])
    if shape == 0:
        return [("A", long_value("A", L, fill, layout, seed))]
    if shape == 1:
        return [("Long-Name", long_value("Long-Name", L, fill, layout, seed)), ("x1", other)]
    return [("x1", other + "\n d"), ("a9", long_value("a9", L, fill, layout, seed))]


def long_lengths(tier):
    return LONG_LENGTHS if tier == "quick" else sorted(LONG_LENGTHS + LONG_LENGTHS_THOROUGH)


def long_specs(L, tier):
    """single-paragraph specs for one length, simplest first.  quick: the full fill x shape product over three layouts
    at the lengths around 8192, a reduced product at the larger lengths (a case costs time proportional to L);
    thorough: fills x shapes x all layouts at every length"""
    if tier != "quick":
        fills, layouts = [f for f, _m in LONG_FILLS], [l for l, _m in LONG_LAYOUTS]
        return [{"L": L, "fill": f, "layout": l, "shape": sh} for f in fills for sh in range(len(LONG_SHAPES)) for l in layouts]
    full = [(sh, l) for sh in range(len(LONG_SHAPES)) for l in LONG_LAYOUTS_QUICK]
    if L < 16384:
        plan = [("ascii", full), ("utf8-bytes", full), ("utf8-chars", [(1, "F"), (2, "f+C")])]
    elif L < 65536:
        plan = [("ascii", [(sh, l) for sh in range(len(LONG_SHAPES)) for l in ("F", "f+C")]),
                ("utf8-bytes", [(1, "F"), (2, "f+C"), (0, "F+C+c")])]
    else:
        plan = [("ascii", [(1, "F"), (2, "f+C"), (0, "F+C+c")]), ("utf8-bytes", [(1, "F")])]
    return [{"L": L, "fill": f, "layout": l, "shape": sh} for f, cells in plan for sh, l in cells]


def long_docs(L, tier):
    """two-paragraph documents for one length: (spec of the long paragraph, position of the long paragraph)"""
    if tier != "quick":
        plan = [(f, (0, 1), ("F", "f+C")) for f, _m in LONG_FILLS]
    elif L < 16384:
        plan = [("ascii", (0, 1), ("F", "f+C")), ("utf8-bytes", (0,), ("F", "f+C")), ("utf8-chars", (0,), ("F",))]
    else:
        plan = [("ascii", (0,), ("F", "f+C")), ("utf8-bytes", (0,), ("F",))]
    return [({"L": L, "fill": f, "layout": l, "shape": sh}, pos)
            for f, shapes, layouts in plan for sh in shapes for l in layouts for pos in (0, 1)]


def squeeze(x):
    """readable rendering of results that contain very long runs of one character"""
    import re
    t = x if isinstance(x, str) else repr(x)
    return re.sub(r"(.)\1{39,}", lambda m: "<%r x %d>" % (m.group(1), len(m.group(0))), t, flags=re.S)


def run_long(case):
    """executes one long-line case -> (violations, n executions)"""
    if case["kind"] == "long":
        bad, n = check_single(long_par(case["spec"], case["seed"]), False, ARMOR_HEADERS[:1] if case.get("one_armor") else None)
    else:
        bad, n = check_multi(long_doc_pars(case["spec"], case["pos"], case["seed"]), "\n")
    return [(sig, squeeze(exp), squeeze(obs)) for sig, exp, obs in bad], n


def long_doc_pars(spec, pos, seed):
    short = [("A", core.rep(seed, ["s", "t", "4", "W"])), ("Long-Name", "k\n l")]
    lp = long_par(spec, seed)
    return [lp, short] if pos == 0 else [short, lp]


def values(tier, seed, fi):
    n = 2 if tier == "quick" else 3
    f = firsts(seed)[fi]
    out = []
    for k in range(0, n + 1):
        for cs in itertools.product(conts(seed), repeat=k):
            out.append("\n".join((f,) + cs))
    return out


DEEP_CONTS = 5        # thorough: continuation-line lists up to this length (values() stops at 3, deep_values() adds 4..)


def deep_values(seed, fi, k, prefix):
    """the values with first line fi and exactly k continuation lines of which the first len(prefix) are given"""
    f = firsts(seed)[fi]
    cs = conts(seed)
    head = tuple(cs[i] for i in prefix)
    return ["\n".join((f,) + head + tail) for tail in itertools.product(cs, repeat=k - len(head))]


def all_values(tier, seed):
    out = []
    for fi in range(len(firsts(seed))):
        out += values(tier, seed, fi)
    return out


def forms(text):
    b = text.encode("utf-8")
    nonl = text.split("\n")[:-1] if text.endswith("\n") else text.split("\n")
    return [("str", lambda: text), ("bytes", lambda: b), ("lines_nl", lambda: text.splitlines(True)),
            ("lines_nonl", lambda: list(nonl)), ("textio", lambda: io.StringIO(text)), ("bytesio", lambda: io.BytesIO(b))]


ARMOR_HEADERS = [("1hdr", "Hash: SHA512\n"), ("2hdr", "Hash: SHA256\nHash: SHA1\n"), ("0hdr", "")]


def armor(text, headers="Hash: SHA512\n"):
    return ("-----BEGIN PGP SIGNED MESSAGE-----\n" + headers + "\n" + text +
            "\n-----BEGIN PGP SIGNATURE-----\n\niQabc\n=xyz\n-----END PGP SIGNATURE-----\n")


# the comment line looks like a field once its '#' is not honoured: a reader that lets it through shows an extra field
COMMENT = "#cm: x"


def with_comments(text, where):
    ls = text.split("\n")[:-1]
    out = []
    for i, l in enumerate(ls):
        if where == "all" or where == i:
            out.append(COMMENT)
        out.append(l)
    if where == "all" or where == len(ls):
        out.append(COMMENT)
    return "\n".join(out) + "\n"


def build(par):
    """-> dumped text or None if the API rejects a value"""
    from debian.deb822 import Deb822
    d = Deb822()
    try:
        for k, v in par:
            d[k] = v
    except ValueError:
        return None
    return d.dump()


def check_single(par, full, armors=None):
    """-> (violations, n executions)"""
    from debian.deb822 import Deb822, Dsc, Changes
    bad = []
    n = 0
    text = build(par)
    if text is None:
        return [("deb822/valid-value-rejected", "accepted", "ValueError for %r" % (par,))], 0
    want = [(k, v) for k, v in par]
    nl = text.count("\n")
    variants = [("plain", text), ("call", with_comments(text, "all"))]
    if full:
        variants += [("c%d" % w, with_comments(text, w)) for w in range(nl + 1)]
    for vn, t in variants:
        for fn, mk in forms(t):
            n += 2
            try:
                got = list(Deb822(mk()).items())
                gp = [list(p.items()) for p in Deb822.iter_paragraphs(mk())]
            except Exception as e:
                bad.append(("deb822/single/raises/%s" % fn, want, "%s: %s on %r" % (type(e).__name__, e, t)))
                continue
            vclass = vn if vn in ("plain", "call") else "c<i>"
            if got != want:
                bad.append(("deb822/single/%s/%s" % (vclass, fn), want, "%r from %r" % (got, t)))
            elif gp != [want]:
                bad.append(("deb822/single-iter/%s/%s" % (vclass, fn), [want], "%r from %r" % (gp, t)))
    for hn, hdrs in (ARMOR_HEADERS if armors is None else armors):
        a = armor(text, hdrs)
        for fn, mk in forms(a):
            for cls in (Deb822, Dsc, Changes):
                n += 1
                try:
                    got = list(cls(mk()).items())
                except Exception as e:
                    bad.append(("deb822/armor-%s/raises/%s/%s" % (hn, fn, cls.__name__), want,
                                "%s: %s" % (type(e).__name__, e)))
                    continue
                if got != want:
                    bad.append(("deb822/armor-%s/%s/%s" % (hn, fn, cls.__name__), want, "%r from %r" % (got, a)))
    n += 1
    rd = Deb822(text).dump()
    if rd != text:
        bad.append(("deb822/redump", text, rd))
    if len(par) >= 2:
        # dump, re-order, dump again: the second dump must re-parse to the paragraph's fields in their new order
        for how in ("first", "sort"):
            d = Deb822()
            for k, v in par:
                d[k] = v
            d.dump()
            if how == "first":
                d.order_first(par[-1][0])
            else:
                d.sort_fields(key=lambda x: [-ord(ch) for ch in x.lower()])
            n += 1
            now = list(d.items())
            got = list(Deb822(d.dump()).items())
            if sorted(now) != sorted(want) or (how == "first" and now != [want[-1]] + want[:-1]):
                bad.append(("deb822/reorder/%s/live-order" % how, [want[-1]] + want[:-1], now))
            elif got != now:
                bad.append(("deb822/reorder/%s/dump-after-reorder" % how, now, "%r from %r" % (got, d.dump())))
    return bad, n


# ------------------------------------------------------------------------------------------------ blank lines
BLANK_LINES = ["", " ", "\t"]          # an empty line and two whitespace-only lines (without their newline)


def blank_seqs(lo, hi):
    """all sequences of lo..hi lines over BLANK_LINES, shortest first"""
    return [list(t) for n in range(lo, hi + 1) for t in itertools.product(BLANK_LINES, repeat=n)]


def blank_pars(seed):
    v, c = firsts(seed)[1], conts(seed)[0]
    return [[("A", v)], [("A", v + "\n" + c)], [("x1", "a b"), ("Long-Name", v + "\n .\n" + c)]]


def blank_route_forms(lead):
    return ("str",) if lead else ("str", "bytesio")


def blank_routes(M, all_empty, names):
    D = M.Deb822
    out = [("iter-strict-ws-true", lambda x: D.iter_paragraphs(x, None, False, False, "utf-8", {WS: True})),
           ("iter-fields-all", lambda x: D.iter_paragraphs(x, fields=list(names), strict={})),
           ("Release-iter", lambda x: M.Release.iter_paragraphs(x)),
           ("Changes-iter", lambda x: M.Changes.iter_paragraphs(x))]
    if all_empty:
        out += [("iter-strict-ws-false", lambda x: D.iter_paragraphs(x, strict={WS: False})),
                ("Packages-iter", lambda x: M.Packages.iter_paragraphs(x)),
                ("Sources-iter", lambda x: M.Sources.iter_paragraphs(x, use_apt_pkg=False))]
    return out


def check_blank(lead, pars, seps):
    """lead: list of blank lines before the first paragraph; seps: one list of blank lines per paragraph boundary
    -> (violations, n executions)"""
    import warnings
    from debian import deb822 as M
    from debian.deb822 import Deb822, Dsc, Changes
    texts = [build(p) for p in pars]
    if any(t is None for t in texts):
        return [("deb822/valid-value-rejected", "accepted", "ValueError")], 0
    all_empty = not any(l for x in [lead] + list(seps) for l in x)
    t = "".join(l + "\n" for l in lead) + texts[0]
    for sep, tx in zip(seps, texts[1:]):
        t += "".join(l + "\n" for l in sep) + tx
    want = [[(k, v) for k, v in p] for p in pars]
    bad = []
    n = 0
    for fn, mk in forms(t):
        n += 1
        try:
            gp = [list(p.items()) for p in Deb822.iter_paragraphs(mk())]
        except Exception as e:
            bad.append(("deb822/blank-lines/iter/raises/%s" % fn, want, "%s: %s on %r" % (type(e).__name__, e, t)))
            gp = want
        if gp != want:
            bad.append(("deb822/blank-lines/iter/%s" % fn, want, "%r from %r" % (gp, t)))
        if fn in blank_route_forms(lead):
            # the other routes to the same reading: option values that spell out the default, fields= naming every
            # field, other classes; and - when every blank line is empty - the setting under which only empty lines
            # separate (also the default of Packages / Sources)
            for rn, f in blank_routes(M, all_empty, [k for p in pars for k, _v in p]):
                n += 1
                try:
                    with warnings.catch_warnings():
                        warnings.simplefilter("ignore")
                        gr = [list(p.items()) for p in f(mk())]
                except Exception as e:
                    gr = "%s: %s" % (type(e).__name__, e)
                if gr != want:
                    bad.append(("deb822/blank-lines/route/%s/%s" % (rn, fn), want, "%r from %r" % (gr, t)))
        if len(pars) > 1:
            continue
        for cls in (Deb822, Dsc, Changes):
            n += 1
            try:
                got = list(cls(mk()).items())
            except Exception as e:
                bad.append(("deb822/blank-lines/%s/raises/%s" % (cls.__name__, fn), want[0],
                            "%s: %s on %r" % (type(e).__name__, e, t)))
                continue
            if got != want[0]:
                bad.append(("deb822/blank-lines/%s/%s" % (cls.__name__, fn), want[0], "%r from %r" % (got, t)))
    return bad, n


def check_multi(pars, sep):
    from debian.deb822 import Deb822
    texts = [build(p) for p in pars]
    if any(t is None for t in texts):
        return [("deb822/valid-value-rejected", "accepted", "ValueError")], 0
    t = sep.join(texts)
    want = [[(k, v) for k, v in p] for p in pars]
    bad = []
    n = 0
    for vn, tt in (("plain", t), ("call", with_comments(t, "all"))):
        for fn, mk in forms(tt):
            n += 1
            try:
                gp = [list(p.items()) for p in Deb822.iter_paragraphs(mk())]
            except Exception as e:
                bad.append(("deb822/multi/raises/%s" % fn, want, "%s: %s" % (type(e).__name__, e)))
                continue
            if gp != want:
                bad.append(("deb822/multi/%s/%s" % (vn, fn), want, "%r from %r" % (gp, tt)))
    return bad, n


# ------------------------------------------------------------------------------------------------ other routes
# The same behaviour reached another way: how the paragraph object came into being, how it is dumped, which public
# entry point / option values read the text back, how the result is read.  Every route must agree with what the
# default route (d[k] = v; d.dump(); Deb822(text) / Deb822.iter_paragraphs(text); items()) is checked to give.
ROUTE_CLASSES = ["Packages", "Sources", "BuildInfo", "Release", "PdiffIndex", "Removals", "Dsc", "Changes"]
ROUTE_OBJECTS = ["setitem", "dict", "dict-keyword", "ordered-dict", "deb822dict", "from-deb822", "copy-method", "copy.copy",
                 "copy.deepcopy", "update-pairs", "update-mapping", "setdefault", "emptied-and-refilled", "overwritten",
                 "after-rejected-value", "parsed", "parsed-bytes", "parsed-copy", "parsed-reassigned", "latin-1-object"] + \
                ["%s-dict" % c for c in ROUTE_CLASSES] + ["%s-parsed" % c for c in ROUTE_CLASSES]
ROUTE_DUMPS = ["dump()", "dump(None)", "second-dump", "str", "__unicode__", "bytes", "dump-fd-binary", "dump-fd-binary-keywords",
               "dump-fd-binary-encoding", "dump-fd-binary-latin-1", "dump-fd-text", "dump-fd-text-positional",
               "dump-real-file-binary", "dump-real-file-text", "wrapper-dump()", "wrapper-dump-fd-binary", "wrapper-dump-fd-text"]
ROUTE_READS = ["subscript", "keys-values", "get", "get_as_string", "dict()", "len-contains", "equals-built", "pop-each"]
ROUTE_FORMS_EXTRA = ["iterator", "generator-bytes", "tuple", "bytes-lines-nl", "bytes-lines-nonl", "real-file-text",
                     "real-file-binary"]
WS = "whitespace-separates-paragraphs"
GPG_SCANNING = ("Dsc", "Changes", "Sources", "BuildInfo")     # classes that look for armor in the raw lines first


def route_object(name, par, text):
    """the paragraph `par` as an object that came into being the way `name` says"""
    import collections
    import copy
    from debian import deb822 as M

    def filled():
        d = M.Deb822()
        for k, v in par:
            d[k] = v
        return d
    if name == "setitem":
        return filled()
    if name == "dict":
        return M.Deb822(dict(par))
    if name == "dict-keyword":
        return M.Deb822(sequence=dict(par), fields=None, encoding="utf-8", strict=None)
    if name == "ordered-dict":
        return M.Deb822(collections.OrderedDict(par))
    if name == "deb822dict":
        return M.Deb822(M.Deb822Dict(list(par)))
    if name == "from-deb822":
        return M.Deb822(filled())
    if name == "copy-method":
        return filled().copy()
    if name == "copy.copy":
        return copy.copy(filled())
    if name == "copy.deepcopy":
        return copy.deepcopy(filled())
    if name == "update-pairs":
        d = M.Deb822()
        d.update(list(par))
        return d
    if name == "update-mapping":
        d = M.Deb822()
        d.update(dict(par))
        return d
    if name == "setdefault":
        d = M.Deb822()
        for k, v in par:
            d.setdefault(k, v)
            d.setdefault(k, "other")
        return d
    if name == "emptied-and-refilled":
        d = filled()
        d.dump()
        for k, _v in par:
            del d[k]
        d.dump()
        for k, v in par:
            d[k] = v
        return d
    if name == "overwritten":
        d = M.Deb822()
        for k, _v in par:
            d[k] = "zz\n zz"
        d.dump()
        for k, v in par:
            d[k] = v
        return d
    if name == "after-rejected-value":
        d = M.Deb822()
        for k, v in par:
            for wrong in ("zz\n", "zz\n\n zz", "zz\nzz"):
                try:
                    d[k] = wrong
                except ValueError:
                    pass
            d[k] = v
        return d
    if name == "parsed":
        return M.Deb822(text)
    if name == "parsed-bytes":
        return M.Deb822(text.encode("utf-8"))
    if name == "parsed-copy":
        return M.Deb822(text).copy()
    if name == "parsed-reassigned":
        d = M.Deb822(text)
        for k, v in par:
            d[k] = v
        return d
    if name == "latin-1-object":
        return M.Deb822(dict(par), encoding="iso-8859-1")
    cname, _, how = name.partition("-")
    cls = getattr(M, cname)
    return cls(dict(par)) if how == "dict" else cls(text)


def route_dump(name, d, tmpdir, enc):
    """the text of paragraph object `d` obtained the way `name` says (enc = the encoding the object was made with)"""
    import os
    from debian import deb822 as M
    if name == "dump()":
        return d.dump()
    if name == "dump(None)":
        return d.dump(None)
    if name == "second-dump":
        d.dump()
        return d.dump()
    if name == "str":
        return str(d)
    if name == "__unicode__":
        return d.__unicode__()
    if name == "bytes":
        return bytes(d).decode(enc)
    if name in ("dump-fd-binary", "dump-fd-binary-keywords", "dump-fd-binary-encoding", "dump-fd-binary-latin-1",
                "wrapper-dump-fd-binary"):
        fd = io.BytesIO()
        if name == "dump-fd-binary":
            r = d.dump(fd)
        elif name == "dump-fd-binary-keywords":
            r = d.dump(fd=fd, encoding=None, text_mode=False)
        elif name == "dump-fd-binary-encoding":
            r, enc = d.dump(fd, encoding="utf-8"), "utf-8"
        elif name == "dump-fd-binary-latin-1":
            r, enc = d.dump(fd, "iso-8859-1"), "iso-8859-1"
        else:
            r = M.RestrictedWrapper(d).dump(fd)
        return fd.getvalue().decode(enc) if r is None else "returned %r" % (r,)
    if name in ("dump-fd-text", "dump-fd-text-positional", "wrapper-dump-fd-text"):
        fd = io.StringIO()
        if name == "dump-fd-text":
            r = d.dump(fd, text_mode=True)
        elif name == "dump-fd-text-positional":
            r = d.dump(fd, None, True)
        else:
            r = M.RestrictedWrapper(d).dump(fd, text_mode=True)
        return fd.getvalue() if r is None else "returned %r" % (r,)
    if name == "dump-real-file-binary":
        path = os.path.join(tmpdir, "dump.bin")
        with open(path, "wb") as f:
            d.dump(f)
        with open(path, "rb") as f:
            return f.read().decode(enc)
    if name == "dump-real-file-text":
        path = os.path.join(tmpdir, "dump.txt")
        with open(path, "w", encoding="utf-8", newline="") as f:
            d.dump(f, text_mode=True)
        with open(path, "rb") as f:
            return f.read().decode("utf-8")
    if name == "wrapper-dump()":
        return M.RestrictedWrapper(d).dump()
    raise AssertionError(name)


def route_read(name, d, built):
    """the (name, value) list of paragraph object `d` read the way `name` says"""
    if name == "subscript":
        return [(k, d[k]) for k in d]
    if name == "keys-values":
        return list(zip(d.keys(), d.values()))
    if name == "get":
        return [(k, d.get(k, "absent")) for k in d.keys()]
    if name == "get_as_string":
        return [(k, d.get_as_string(k)) for k in d]
    if name == "dict()":
        return list(dict(d).items())
    if name == "len-contains":
        ks = list(d)
        return [(k, d[k]) for k in ks if k in d] if len(d) == len(ks) else "len() = %d, %d names" % (len(d), len(ks))
    if name == "equals-built":
        return list(d.items()) if (d == built and built == d) else "== is False for %r and %r" % (d, built)
    if name == "pop-each":
        c = d.copy()
        return [(k, c.pop(k)) for k in list(c)] + [(k, "left behind") for k in c]
    raise AssertionError(name)


def route_forms(text, tmpdir, tag, opened):
    """the six input forms and further documented kinds of 'an object that returns a line each time'"""
    import os
    b = text.encode("utf-8")
    path = os.path.join(tmpdir, "in-%s.txt" % tag)
    with open(path, "wb") as f:
        f.write(b)

    def real(mode):
        f = open(path, "r", encoding="utf-8", newline="") if mode == "t" else open(path, "rb")
        opened.append(f)
        return f
    nonl = text.split("\n")[:-1] if text.endswith("\n") else text.split("\n")
    return forms(text) + [
        ("iterator", lambda: iter(text.splitlines(True))),
        ("generator-bytes", lambda: (l for l in b.splitlines(True))),
        ("tuple", lambda: tuple(text.splitlines(True))),
        ("bytes-lines-nl", lambda: b.splitlines(True)),
        ("bytes-lines-nonl", lambda: [l.encode("utf-8") for l in nonl]),
        ("real-file-text", lambda: real("t")),
        ("real-file-binary", lambda: real("b"))]


def route_field_lists(pars):
    """fields= arguments under which every paragraph keeps at least one field -> [(label, list)]"""
    names = []
    for p in pars:
        for k, _v in p:
            if k not in names:
                names.append(k)
    out = [("all", list(names)), ("all-reversed-plus-absent", ["Absent"] + list(reversed(names)))]
    for nm in names:
        if all(any(k == nm for k, _v in p) for p in pars):
            out.append(("one", [nm]))
        rest = [x for x in names if x != nm]
        if rest and all(any(k in rest for k, _v in p) for p in pars):
            out.append(("all-but-one", rest))
    return out


def route_parsers(pars, one_shot):
    """-> [(route, f(make_input) -> list of paragraphs as (name, value) lists, expected list)] for a document"""
    from debian import deb822 as M
    want = [[(k, v) for k, v in p] for p in pars]
    D = M.Deb822

    def items(ps):
        return [list(p.items()) for p in ps]
    out = [("ctor-keywords", lambda mk: items([D(sequence=mk(), fields=None, _parsed=None, encoding="utf-8", strict=None)]), want[:1]),
           ("iter-keywords", lambda mk: items(D.iter_paragraphs(sequence=mk(), fields=None, use_apt_pkg=False,
                                                                shared_storage=False, encoding="utf-8", strict=None)), want),
           ("iter-use-apt-pkg", lambda mk: items(D.iter_paragraphs(mk(), use_apt_pkg=True)), want),
           ("iter-shared-storage", lambda mk: items(D.iter_paragraphs(mk(), shared_storage=True)), want),
           ("iter-positional", lambda mk: items(D.iter_paragraphs(mk(), None, False, False, "utf-8", None)), want)]
    for sn, st in (("strict-empty", {}), ("strict-ws-true", {WS: True}), ("strict-ws-false", {WS: False})):
        out.append(("ctor-%s" % sn, lambda mk, st=st: items([D(mk(), strict=dict(st))]), want[:1]))
        out.append(("iter-%s" % sn, lambda mk, st=st: items(D.iter_paragraphs(mk(), strict=dict(st))), want))
    for fl, fields in route_field_lists(pars):
        exp = [[(k, v) for k, v in p if k in fields] for p in want]
        out.append(("ctor-fields-%s" % fl, lambda mk, fields=fields: items([D(mk(), fields=list(fields))]), exp[:1]))
        out.append(("iter-fields-%s" % fl, lambda mk, fields=fields: items(D.iter_paragraphs(mk(), fields=list(fields))), exp))
        if fl == "all":
            out.append(("ctor-fields-positional-%s" % fl, lambda mk, fields=fields: items([D(mk(), list(fields))]), exp[:1]))
            out.append(("iter-fields-positional-%s" % fl, lambda mk, fields=fields: items(D.iter_paragraphs(mk(), list(fields))), exp))
    for cname in ROUTE_CLASSES:
        cls = getattr(M, cname)
        out.append(("%s-ctor" % cname, lambda mk, cls=cls: items([cls(mk())]), want[:1]))
        out.append(("%s-iter" % cname, lambda mk, cls=cls: items(cls.iter_paragraphs(mk())), want))
        if cname in ("Packages", "Sources"):      # they override iter_paragraphs (asks for apt_pkg; other strict default)
            allf = route_field_lists(pars)[0][1]
            for fl, fields in route_field_lists(pars):
                exp = [[(k, v) for k, v in p if k in fields] for p in want]
                out.append(("%s-iter-fields-%s" % (cname, fl),
                            lambda mk, cls=cls, fields=fields: items(cls.iter_paragraphs(mk(), fields=list(fields))), exp))
            out.append(("%s-iter-positional" % cname,
                        lambda mk, cls=cls: items(cls.iter_paragraphs(mk(), list(allf), False, False, "utf-8", None)), want))
            out.append(("%s-iter-no-apt-pkg" % cname, lambda mk, cls=cls: items(cls.iter_paragraphs(mk(), use_apt_pkg=False)), want))
    for cname in ("Dsc", "Packages"):
        out.append(("%s-ctor-keywords" % cname,
                    lambda mk, cls=getattr(M, cname): items([cls(sequence=mk(), fields=None, encoding="utf-8", strict=None)]), want[:1]))
    if one_shot:
        def by_hand(mk, cls=D):
            src = mk()
            it = src if hasattr(src, "read") else iter(src)
            got = []
            while len(got) <= len(want):
                p = cls(it)
                if not p:
                    break
                got.append(p)
            return items(got)

        def ctor_then_iter(mk):
            src = mk()
            it = src if hasattr(src, "read") else iter(src)
            first = D(it)
            return items([first] + list(D.iter_paragraphs(it)))
        out.append(("paragraph-by-paragraph", by_hand, want))
        out.append(("Dsc-paragraph-by-paragraph", lambda mk: by_hand(mk, M.Dsc), want))
        out.append(("ctor-then-iter", ctor_then_iter, want))
    return out


def latin1_ok(pars):
    try:
        "".join(k + v for p in pars for k, v in p).encode("iso-8859-1")
        return True
    except UnicodeEncodeError:
        return False


STANDARD_FORMS = ("str", "bytes", "lines_nl", "lines_nonl", "textio", "bytesio")
ROUTE_CORE = ("ctor-keywords", "iter-keywords", "ctor-strict-ws-false", "iter-strict-ws-false", "iter-fields-all",
              "ctor-fields-one", "Packages-iter", "Sources-iter", "Dsc-ctor", "Dsc-iter", "Release-iter",
              "paragraph-by-paragraph", "Dsc-paragraph-by-paragraph", "ctor-then-iter")


def route_is_core(rn):
    return rn in ROUTE_CORE


ROUTE_DUMPS_CORE = ("dump()", "str", "bytes", "dump-fd-binary", "dump-fd-text")
ROUTE_OBJECTS_ALL_DUMPS = ("setitem", "parsed", "copy-method", "Dsc-dict", "Release-parsed", "latin-1-object")
ROUTE_OBJECTS_LIGHT = ("setitem", "dict", "copy-method", "parsed", "Packages-dict", "Dsc-parsed")
ROUTE_FORMS_REDUCED = ("str", "bytesio", "lines_nonl", "generator-bytes")


def check_routes(pars, sep, armors=None, light=False):
    """every other route for one document -> (violations, n executions).  light: the reading routes over four input
    kinds, plain text only, and no armor x comment product (used for the one-character sweep paragraphs)"""
    import shutil
    import tempfile
    import warnings
    tmpdir = tempfile.mkdtemp(prefix="c02-routes-")
    opened = []
    try:
        with warnings.catch_warnings():
            warnings.simplefilter("ignore")
            return _check_routes(pars, sep, armors, tmpdir, opened, light)
    finally:
        for f in opened:
            f.close()
        shutil.rmtree(tmpdir, ignore_errors=True)


def _check_routes(pars, sep, armors, tmpdir, opened, light):
    from debian import deb822 as M
    texts = [build(p) for p in pars]
    if any(t is None for t in texts):
        return [("deb822/valid-value-rejected", "accepted", "ValueError")], 0
    want = [[(k, v) for k, v in p] for p in pars]
    bad = []
    n = 0
    l1 = latin1_ok(pars)
    # (1) how the object came into being x how it is dumped
    for par, text, w in zip(pars, texts, want):
        for on in ROUTE_OBJECTS:
            if light and on not in ROUTE_OBJECTS_LIGHT:
                continue
            enc = "iso-8859-1" if on == "latin-1-object" else "utf-8"
            if on == "latin-1-object" and not l1:
                continue
            n += 1
            try:
                d = route_object(on, par, text)
                got = list(d.items())
            except Exception as e:
                bad.append(("deb822/route/object/%s/raises" % on, w, "%s: %s" % (type(e).__name__, e)))
                continue
            if got != w:
                bad.append(("deb822/route/object/%s/fields" % on, w, got))
                continue
            for dn in ROUTE_DUMPS:
                if dn == "dump-fd-binary-latin-1" and not l1:
                    continue
                if on not in ROUTE_OBJECTS_ALL_DUMPS and dn not in ROUTE_DUMPS_CORE:
                    continue
                n += 1
                try:
                    out = route_dump(dn, d, tmpdir, enc)
                except Exception as e:
                    out = "%s: %s" % (type(e).__name__, e)
                if out != text:
                    # the text differs from dump(); say whether a reader of it would also see other fields
                    try:
                        same = list(M.Deb822(out).items()) == w
                    except Exception:
                        same = False
                    sig = "deb822/route/dump/%s" % dn if on == "setitem" else "deb822/route/object/%s/dump/%s" % (on, dn)
                    bad.append((sig + ("/text-only" if same else ""), text, "%r (object made by route %s)" % (out, on)))
    # (2) entry points and option values that read the document back, over all kinds of input
    doc = sep.join(texts)
    for vn, tt in (("plain", doc), ("call", with_comments(doc, "all")))[:1 if light else 2]:
        lone_comment = vn == "call" and len(sep) > 1
        fl = route_forms(tt, tmpdir, vn, opened)
        for fn, mk in fl:
            if (light or vn == "call") and fn not in ROUTE_FORMS_REDUCED:
                continue
            one_shot = fn not in ("str", "bytes")
            for rn, f, exp in route_parsers(pars, one_shot):
                if fn not in STANDARD_FORMS and vn == "plain" and not light and not route_is_core(rn):
                    continue          # the further input kinds go through the core routes only
                if lone_comment and rn.split("-")[0] in GPG_SCANNING:
                    continue          # see assumptions(): a comment line alone between two blank lines
                n += 1
                try:
                    got = f(mk)
                except Exception as e:
                    got = "%s: %s" % (type(e).__name__, e)
                if got != exp:
                    bad.append(("deb822/route/parse/%s/%s/%s" % (rn, vn, fn), exp, "%r from %r" % (got, tt)))
        if l1:
            lb = tt.encode("iso-8859-1")
            for fn, mk in (("bytes", lambda: lb), ("bytesio", lambda: io.BytesIO(lb)), ("bytes-lines-nl", lambda: lb.splitlines(True))):
                n += 2
                try:
                    got = [list(M.Deb822(mk(), encoding="iso-8859-1").items())]
                    gp = [list(p.items()) for p in M.Deb822.iter_paragraphs(mk(), encoding="iso-8859-1")]
                except Exception as e:
                    got = gp = "%s: %s" % (type(e).__name__, e)
                if got != want[:1]:
                    bad.append(("deb822/route/parse/ctor-encoding-latin-1/%s/%s" % (vn, fn), want[:1], "%r from %r" % (got, lb)))
                if gp != want:
                    bad.append(("deb822/route/parse/iter-encoding-latin-1/%s/%s" % (vn, fn), want, "%r from %r" % (gp, lb)))
    # (3) how the result is read
    for i, (par, text, w) in enumerate(zip(pars, texts, want)):
        try:
            built = M.Deb822(dict(par))
            objs = [("parsed", M.Deb822(text)), ("iterated", list(M.Deb822.iter_paragraphs(doc))[i])]
            if any(list(d.items()) != w for _src, d in objs):
                continue        # the default route itself is wrong here: reported by the passes that own it
        except Exception:
            continue
        for src, d in objs:
            for rn in ROUTE_READS:
                n += 1
                try:
                    got = route_read(rn, d, built)
                except Exception as e:
                    got = "%s: %s" % (type(e).__name__, e)
                if got != w:
                    bad.append(("deb822/route/read/%s" % rn, w, "%r (%s from %r)" % (got, src, text)))
    # (4) clearsign armor: the other entry points, and armor x comment lines (single paragraphs)
    if len(pars) == 1:
        text, w = texts[0], want[0]
        payload = [l.encode("utf-8") for l in text.split("\n")[:-1]]
        for hn, hdrs in (ARMOR_HEADERS if armors is None else armors):
            a = armor(text, hdrs)
            for fn, mk in forms(a):
                for cname in ("Deb822", "Dsc", "Changes", "Sources", "BuildInfo"):
                    cls = getattr(M, cname)
                    routes = [("iter", lambda: [list(p.items()) for p in cls.iter_paragraphs(mk(), use_apt_pkg=False)], [w]),
                              ("ctor-strict-ws-false", lambda: [list(cls(mk(), strict={WS: False}).items())], [w]),
                              ("ctor-keywords", lambda: [list(cls(sequence=mk(), encoding="utf-8").items())], [w]),
                              ("ctor-then-dump", lambda: cls(mk()).dump(), text)]
                    if cname in ("Sources", "BuildInfo"):
                        routes.append(("ctor", lambda: [list(cls(mk()).items())], [w]))
                    for rn, f, exp in routes:
                        n += 1
                        try:
                            got = f()
                        except Exception as e:
                            got = "%s: %s" % (type(e).__name__, e)
                        if got != exp:
                            bad.append(("deb822/route/armor-%s/%s/%s/%s" % (hn, rn, fn, cname), exp, "%r from %r" % (got, a)))
                if fn in ("str", "bytes"):
                    continue
                for rn, f in (("split_gpg_and_payload", lambda: M.Deb822.split_gpg_and_payload(iter(mk()))[1]),
                              ("gpg_stripped_paragraph", lambda: M.Deb822.gpg_stripped_paragraph(iter(mk()))),
                              ("Dsc.split_gpg_and_payload-strict", lambda: M.Dsc.split_gpg_and_payload(iter(mk()), {WS: False})[1])):
                    n += 1
                    try:
                        got = f()
                    except Exception as e:
                        got = "%s: %s" % (type(e).__name__, e)
                    if got != payload:
                        bad.append(("deb822/route/armor-%s/%s/%s" % (hn, rn, fn), payload, "%r from %r" % (got, a)))
            # the statement's configurations are a product: clearsigned AND comment lines interleaved
            nl = text.count("\n")
            cvars = [("call", armor(with_comments(text, "all"), hdrs)), ("before-armor", COMMENT + "\n" + a)]
            cvars += [("c<i>", armor(with_comments(text, i), hdrs)) for i in range(nl + 1)]
            if light:
                cvars = []
            for vn, ac in cvars:
                for fn, mk in forms(ac):
                    for cls in (M.Deb822, M.Dsc, M.Changes):
                        n += 2
                        try:
                            got = list(cls(mk()).items())
                            gp = [list(p.items()) for p in cls.iter_paragraphs(mk())]
                        except Exception as e:
                            got = gp = "%s: %s" % (type(e).__name__, e)
                        if got != w:
                            bad.append(("deb822/route/armor-%s/comments-%s/ctor/%s/%s" % (hn, vn, fn, cls.__name__), w,
                                        "%r from %r" % (got, ac)))
                        elif gp != [w]:
                            bad.append(("deb822/route/armor-%s/comments-%s/iter/%s/%s" % (hn, vn, fn, cls.__name__), [w],
                                        "%r from %r" % (gp, ac)))
    return bad, n


def route_values(tier, seed):
    """values of the one-field paragraphs of the routes pass: every first line x every continuation-line list of length
    0..1 (quick) / 0..2 (thorough)"""
    n = 1 if tier == "quick" else 2
    out = []
    for f in firsts(seed):
        for k in range(0, n + 1):
            for cs in itertools.product(conts(seed), repeat=k):
                out.append("\n".join((f,) + cs))
    return out


def route_docs(tier, seed):
    """the documents of the routes pass, simplest first -> [(pars, sep, light)]"""
    vals = route_values(tier, seed)
    docs = [([[("A", v)]], "\n") for v in vals]
    # two fields: all ordered pairs over six value shapes (which of the two fields has an empty first line, continuation
    # lines, a first line that looks like something else), the two name pairs alternating
    f, c = firsts(seed), conts(seed)
    shapes = ["", f[1], f[1] + "\n" + c[0], "\n" + c[0], f[1] + "\n" + c[2] + "\n" + c[0], f[2] + "\n" + c[4]]
    for i, v in enumerate(shapes):
        for j, w in enumerate(shapes):
            docs.append(([[("x1", w), ("a9", v)] if (i + j) % 2 else [("A", v), ("Long-Name", w)]], "\n"))
    if tier != "quick":
        n2 = two_field_count("quick", seed)
        docs += [([p], "\n") for k in range(0, n2, 11) for p in two_field_slice("quick", seed, k, k + 1)]
    pl = pools("quick", seed)[1][:4] if tier == "quick" else pools("quick", seed)[0][:10]
    docs += [([p, q], "\n") for p in pl for q in pl]
    docs += [([p, q], "\n\n") for p in pl[:3] for q in pl[:3]]
    docs += [([p, q, r], "\n") for p in pl[:2] for q in pl[:2] for r in pl[:2]]
    docs = [(pars, sep, False) for pars, sep in docs]
    docs += [([p], "\n", True) for p in sweep_pars() if p[0][0] != "A"]      # the field-name sweeps
    return docs


ROUTE_CHUNK = 16


def two_field_pars(tier, seed):
    # both tiers draw from the values with <= 2 continuation lines (584); thorough takes a denser grid and, in
    # run_unit, every single comment placement
    return two_field_slice(tier, seed, 0, None)


def _grid(tier):
    return (7, 11) if tier == "quick" else (1, 3)


def two_field_count(tier, seed):
    vals = all_values("quick", seed)
    a, b = _grid(tier)
    return len(vals[::a]) * len(vals[::b]) * 2


def two_field_slice(tier, seed, lo, hi):
    """two_field_pars(tier, seed)[lo:hi] without building the whole list"""
    vals = all_values("quick", seed)
    a, b = _grid(tier)
    vs, ws = vals[::a], vals[::b]
    n = len(vs) * len(ws) * 2
    out = []
    for k in range(lo, n if hi is None else min(hi, n)):
        v, w = vs[k // 2 // len(ws)], ws[k // 2 % len(ws)]
        out.append([("x1", w), ("a9", v)] if k % 2 else [("A", v), ("Long-Name", w)])
    return out


def pools(tier, seed):
    """-> (paragraphs for the two-paragraph documents, paragraphs for the three-paragraph documents); the thorough
    pools contain the quick ones"""
    vals = all_values("quick", seed)
    singles = [[("A", v)] for v in vals]
    twos = two_field_pars("quick", seed)
    allp = singles + twos
    pl = allp[::37]
    if tier == "quick":
        return pl[:20], pl[:6]
    return pl, pl[:6] + pl[6::6]


def pool(seed):
    return pools("quick", seed)[0]


def units(tier, seed):
    out = [{"kind": "single1", "first": fi} for fi in range(len(firsts(seed)))]
    if tier != "quick":
        nc = len(conts(seed))
        for k in range(4, DEEP_CONTS + 1):
            # 512 values per unit: the first k - 3 continuation lines are fixed
            out += [{"kind": "single1-deep", "first": fi, "conts": k, "prefix": list(pre)}
                    for fi in range(len(firsts(seed))) for pre in itertools.product(range(nc), repeat=k - 3)]
    n2 = two_field_count(tier, seed)
    step = 400
    out += [{"kind": "single2", "lo": i, "hi": min(n2, i + step)} for i in range(0, n2, step)]
    ns = len(sweep_pars())
    out += [{"kind": "sweep", "lo": i, "hi": min(ns, i + SWEEP_CHUNK)} for i in range(0, ns, SWEEP_CHUNK)]
    out += [{"kind": "long", "L": L} for L in long_lengths(tier)]
    out += scale_units(tier)
    out += [{"kind": "blank", "lead": lead} for lead in blank_seqs(0, 2)]
    nr = len(route_docs(tier, seed))
    out += [{"kind": "routes", "lo": i, "hi": min(nr, i + ROUTE_CHUNK)} for i in range(0, nr, ROUTE_CHUNK)]
    p2, p3 = pools(tier, seed)
    out += [{"kind": "multi2", "a": i} for i in range(len(p2))]
    out += [{"kind": "multi3", "a": i} for i in range(len(p3))]
    return out


def unit_cost(u, tier):
    if u["kind"] == "scale":
        return 1 + {"fields": 4, "cont": 4, "pars": 8, "size": 0.01}[u["family"]] * u["arg"] / 100.0
    if u["kind"] == "long":
        return 4 + u["L"] // 4096
    if tier != "quick" and u["kind"] == "multi3":
        return 14
    if u["kind"] == "blank":
        return 2
    if u["kind"] == "routes":
        return 6
    return {"single1": 30, "single1-deep": 14, "single2": 10, "sweep": 1, "multi2": 2, "multi3": 3}[u["kind"]]


def run_unit(u, tier, seed):
    part = core.Part()

    def do_single(par, full):
        bad, n = check_single(par, full)
        part.states += 1
        part.transitions += n
        part.traces += n
        part.evaluations += n
        case = {"kind": "single", "par": par, "full": full}
        for sig, exp, obs in bad:
            part.violation(sig, case, exp, obs, rank=sum(len(v) for _k, v in par))
        if not bad:
            part.outcomes["%s/%d-fields/%d-cont" % ("sweep" if u["kind"] == "sweep" else "single", len(par),
                                                     min(3, sum(v.count("\n") for _k, v in par)))] += 1
        if len(par) > 1 or "\n" in par[0][1]:
            part.nontrivial += 1

    if u["kind"] == "scale":
        case = None
        for case in scale_cases(u["family"], u["arg"], tier):
            case = dict(case, seed=seed)
            bad, n = run_scale(case)
            part.states += 1
            part.transitions += n
            part.traces += n
            part.evaluations += n
            part.nontrivial += 1
            for sig, exp, obs in bad:
                part.violation(sig, case, exp, obs, rank=300000 + u["arg"])
            if not bad:
                part.outcomes[scale_family(case)] += 1
            part.extra["%s ladder cases" % u["family"]] += 1
        part.sample(case)
        return part
    if u["kind"] == "single1":
        vals = values(tier, seed, u["first"])
        for v in vals:
            do_single([("A", v)], True)
        part.sample({"kind": "single", "par": [("A", vals[len(vals) // 2])], "full": True})
    elif u["kind"] == "single1-deep":
        vals = deep_values(seed, u["first"], u["conts"], u["prefix"])
        for v in vals:
            do_single([("A", v)], True)
        part.sample({"kind": "single", "par": [("A", vals[len(vals) // 2])], "full": True})
    elif u["kind"] == "single2":
        pars = two_field_slice(tier, seed, u["lo"], u["hi"])
        for par in pars:
            do_single(par, tier == "thorough")
        part.sample({"kind": "single", "par": pars[0], "full": False})
    elif u["kind"] == "sweep":
        pars = sweep_pars()[u["lo"]:u["hi"]]
        for par in pars:
            do_single(par, False)
        part.sample({"kind": "single", "par": pars[0], "full": False})
    elif u["kind"] == "blank":
        lead = u["lead"]
        bp = blank_pars(seed)
        seps = blank_seqs(1, 3)
        docs = [([p], []) for p in bp]
        docs += [([p, q], [sep]) for p in bp for q in bp for sep in seps]
        if not lead:
            docs += [(list(bp), [s1, s2]) for s1 in seps for s2 in seps]
        for pars, ss in docs:
            bad, n = check_blank(lead, pars, ss)
            part.states += 1
            part.transitions += n
            part.traces += n
            part.evaluations += n
            if len(lead) > 1 or any(len(x) > 1 for x in ss) or any(l for x in [lead] + ss for l in x):
                part.nontrivial += 1
            case = {"kind": "blank", "lead": lead, "pars": pars, "seps": ss}
            for sig, exp, obs in bad:
                part.violation(sig, case, exp, obs, rank=len(lead) + len(pars) + sum(len(x) for x in ss))
            if not bad:
                part.outcomes["blank-lines/%d-paragraphs/%d-leading/separators<=%d" % (
                    len(pars), len(lead), max([len(x) for x in ss] or [0]))] += 1
        part.sample({"kind": "blank", "lead": lead, "pars": docs[len(docs) // 2][0], "seps": docs[len(docs) // 2][1]})
    elif u["kind"] == "routes":
        docs = route_docs(tier, seed)[u["lo"]:u["hi"]]
        arm = ARMOR_HEADERS[:1] if tier == "quick" else None
        for pars, sep, light in docs:
            case = {"kind": "routes", "pars": pars, "sep": sep, "one_armor": tier == "quick", "light": light}
            bad, n = check_routes(pars, sep, arm, light)
            part.states += 1
            part.transitions += n
            part.traces += n
            part.evaluations += n
            part.nontrivial += 1
            for sig, exp, obs in bad:
                part.violation(sig, case, exp, obs, rank=500 * len(pars) + sum(len(k) + len(v) for p in pars for k, v in p))
            if not bad:
                part.outcomes["routes%s/%d-paragraphs/%d-fields/%d-cont" % (
                    "-sweep" if light else "", len(pars), min(3, sum(len(p) for p in pars)), min(3, sum(v.count("\n") for p in pars for _k, v in p)))] += 1
            part.extra["route executions"] += n
        part.sample(dict(case, pars=docs[0][0], sep=docs[0][1], light=docs[0][2]))
    elif u["kind"] == "long":
        one = tier == "quick"
        cases = [{"kind": "long", "spec": spec, "seed": seed, "one_armor": one} for spec in long_specs(u["L"], tier)]
        cases += [{"kind": "longdoc", "spec": spec, "pos": pos, "seed": seed} for spec, pos in long_docs(u["L"], tier)]
        for case in cases:
            bad, n = run_long(case)
            spec = case["spec"]
            part.states += 1
            part.transitions += n
            part.traces += n
            part.evaluations += n
            part.nontrivial += 1
            for sig, exp, obs in bad:
                part.violation(sig, case, exp, obs, rank=(100000 if case["kind"] == "long" else 200000) + spec["L"])
            if not bad:
                part.outcomes["long/%s/%s/%s" % (spec["fill"], spec["layout"], "document" if case["kind"] == "longdoc"
                                                 else "%d-fields" % (1 if spec["shape"] == 0 else 2))] += 1
        part.sample({"kind": "long", "spec": long_specs(u["L"], tier)[0], "seed": seed, "one_armor": one})
    else:
        p2, p3 = pools(tier, seed)
        pl = p2 if u["kind"] == "multi2" else p3
        rest = [pl] if u["kind"] == "multi2" else [pl, pl]
        first = pl[u["a"]]
        for tail in itertools.product(*rest):
            pars = [first] + list(tail)
            for sep in ("\n", "\n\n"):
                bad, n = check_multi(pars, sep)
                part.states += 1
                part.transitions += n
                part.traces += n
                part.evaluations += n
                part.nontrivial += 1
                case = {"kind": "multi", "pars": pars, "sep": sep}
                for sig, exp, obs in bad:
                    part.violation(sig, case, exp, obs, rank=1000 + len(pars))
                if not bad:
                    part.outcomes["multi/%d-paragraphs" % len(pars)] += 1
        part.sample({"kind": "multi", "pars": [first, pl[0]], "sep": "\n"})
    return part


# ------------------------------------------------------------------------------------------------ beyond the small scope
# Count ladders (fields per paragraph, continuation lines per value, paragraphs per document) and a size ladder with
# content placed at block boundaries.  Every case is generated from the compact description stored in it.
SCALE_SMALL = list(range(1, 41))
SCALE_BIG = [63, 64, 65, 100, 127, 128, 129, 255, 256, 257, 999, 1000, 1001, 1025, 2500, 2501, 5000]
SCALE_FIELDS_BIG = [n for n in SCALE_BIG if n <= 1025]
SCALE_PARS_BIG = [n for n in SCALE_BIG if n <= 1025]
SCALE_SIZES = [997, 998, 999, 1000, 4095, 4096, 4097, 16383, 16384, 16385, 65535, 65536, 65537, 131072]
SCALE_SIZES_THOROUGH = [131071, 131073, 262143, 262144, 262145]
SCALE_BLOCKS = [4096, 16384, 65536, 131072, 262144]
SCALE_TOKENS = [("blank", " "), ("field", " e: f"), ("colon", ":"), ("line-break", "\n "), ("line-break-field", "\n e: f"),
                ("two-byte", "é")]
SCALE_TOKENS_CONT = ("field", "line-break", "two-byte")       # the tokens also placed in a long continuation line


def scale_field(i, seed):
    """the i-th field of a ladder paragraph: names of different shapes, values alternately single-line and multi-line"""
    v = core.rep(seed, ["v", "q", "1", "Z"])
    c = conts(seed)
    name = ("F%d", "Long-Name-%d", "x%d", "a9-%d-b")[i % 4] % i
    value = ("%s%d" % (v, i), ":x", "%s %d\n%s%d\n%s" % (v, i, c[0], i, c[i % len(c)]), "", "a:b", "\n%s" % c[(i // 4) % len(c)])[i % 6]
    if not value and i % 12 == 3:
        value = "#y"
    return (name, value)


def scale_par(desc, seed):
    kind = desc["ladder"]
    c = conts(seed)
    if kind == "fields":
        # n fields; the field "A" with the interesting value first / in the middle / last (None: no such field)
        par = [scale_field(i, seed) for i in range(1, desc["n"] + 1)]
        if desc.get("at") is not None:
            par.insert({"first": 0, "middle": len(par) // 2, "last": len(par)}[desc["at"]], ("A", "a:b\n e: f\n .\n\tA: b"))
        return par
    if kind == "cont":
        n, arr = desc["n"], desc["arr"]
        lines = [c[0] + str(i) if arr != "cycle" else c[i % len(c)] for i in range(n)]
        if isinstance(arr, (list, tuple)):
            lines[{"first": 0, "middle": n // 2, "last": n - 1}[arr[1]]] = c[arr[0]]
        first = firsts(seed)[desc["first"]]
        par = [("A", "\n".join([first] + lines))]
        return par if desc["shape"] == 0 else [("x1", "y")] + par + [("a9", "w\n d")]
    if kind == "size":
        L, a = desc["L"], core.rep(seed, ["x", "q", "1", "Z"])
        # the dump is "A: " + value + newline: offsets are those of the dump; the long physical line is L characters long
        if desc["shape"] == "first":
            text = "A: " + a * (L - 3)
        else:
            text = "A: v\n " + a * (L - 1)
        if desc["filler"] == "words":
            body = ((a * 7 + " ") * (len(text) // 8 + 1))[:len(text) - 7]
            text = text[:6] + body[:-1] + a
        if desc["token"] is not None:
            t, p = dict(SCALE_TOKENS)[desc["token"]], desc["at"]
            text = text[:p] + t + text[p + len(t):]
        return [("A", text[3:])] if not desc.get("second") else [("A", text[3:]), ("x1", "y\n d")]
    raise AssertionError(desc)


def scale_doc(desc, seed):
    """n paragraphs: one-field and multi-field paragraphs alternating, one long-ish paragraph first / middle / last"""
    n = desc["n"]
    pars = []
    for i in range(n):
        pars.append([scale_field(i + 1, seed)] if i % 3 == 0 else [scale_field(i + 1, seed), scale_field(i + 2, seed)] if i % 3 == 1 else
                    [("A", "%d" % i), scale_field(i + 3, seed), ("Long-Name", "k\n l")])
    if desc.get("at") is not None:
        pars[{"first": 0, "middle": n // 2, "last": n - 1}[desc["at"]]] = [scale_field(i, seed) for i in range(1, 9)]
    return pars


def scale_places(L, shape, tname):
    """offsets in the dump where the token is put: behind the start of the long line, at its very end, and around every
    block boundary inside: starting at b-1, b, b+1 and ending at b"""
    t = dict(SCALE_TOKENS)[tname]
    start = 3 if shape == "first" else 6
    end = start + (L - 3 if shape == "first" else L - 1)
    out = [start + 2, end - len(t) - 1]
    for b in SCALE_BLOCKS:
        out += [b - 1, b, b + 1, b - len(t)]
    seen = []
    for p in out:
        if start + 2 <= p and p + len(t) <= end - 1 and p not in seen:
            seen.append(p)
    return seen


def scale_cases(fam, arg, tier):
    """the cases of one rung, simplest first.  The small counts / sizes get the full arrangement; the large ones a
    reduced one (a case costs time proportional to its size)"""
    out = []
    big = arg > 40
    if fam == "fields":
        for at in (None, "middle") if big else (None, "first", "middle", "last"):
            out.append({"kind": "scale", "gen": {"ladder": "fields", "n": arg, "at": at}})
    elif fam == "cont":
        if big:
            arrs = ["plain", "cycle", [3, "middle"], [5, "last"], [7, "first"]]
        else:
            arrs = ["plain", "cycle"] + [[k, w] for k in (3, 4, 5, 7) for w in (("first",) if arg == 1 else ("first", "last") if arg == 2
                                                                              else ("first", "middle", "last"))]
        for arr in arrs:
            for first, shape in ((1, 0),) if big else ((1, 0), (2, 1)) if arg % 2 else ((0, 0), (2, 1)):
                out.append({"kind": "scale", "gen": {"ladder": "cont", "n": arg, "arr": arr, "first": first, "shape": shape}})
    elif fam == "pars":
        for at in (None, "middle") if big else (None, "first", "middle", "last"):
            for sep in ("\n",) if big else ("\n", "\n\n"):
                out.append({"kind": "scale-doc", "gen": {"ladder": "pars", "n": arg, "at": at}, "sep": sep})
    else:
        L = arg
        huge = L >= 65535
        for shape in ("first", "cont"):
            for filler in ("solid",) if huge else ("solid", "words"):
                out.append({"kind": "scale", "gen": {"ladder": "size", "L": L, "shape": shape, "filler": filler, "token": None, "at": None}})
            for tname, _t in SCALE_TOKENS:
                if shape == "cont" and tname not in SCALE_TOKENS_CONT:
                    continue
                if huge and (tname not in SCALE_TOKENS_CONT or shape == "cont" and tname != "line-break"):
                    continue
                places = scale_places(L, shape, tname)
                if huge:
                    # around the largest block boundary inside only
                    b = max(b for b in SCALE_BLOCKS if b <= L + 1)
                    places = [p for p in places if abs(p - b) <= len(_t)]
                for p in places:
                    out.append({"kind": "scale", "gen": {"ladder": "size", "L": L, "shape": shape, "filler": "solid", "token": tname,
                                                         "at": p, "second": p % 2 == 1}})
    return out


def scale_family(case):
    g = case["gen"]
    if g["ladder"] == "size":
        return "size/%s/%s" % (g["shape"], g["token"] or "filler")
    return "ladder/" + g["ladder"]


def check_dump_fd(par):
    """dump(fd) in binary and in text mode, and str() / bytes(): their text read back gives the paragraph's fields"""
    from debian.deb822 import Deb822
    d = Deb822()
    for k, v in par:
        d[k] = v
    want = [(k, v) for k, v in par]
    bad = []
    for name in ("dump-fd-binary", "dump-fd-text", "str", "bytes"):
        try:
            if name == "dump-fd-binary":
                fd = io.BytesIO()
                d.dump(fd)
                src = fd.getvalue()
            elif name == "dump-fd-text":
                fd = io.StringIO()
                d.dump(fd, text_mode=True)
                src = fd.getvalue()
            else:
                src = str(d) if name == "str" else bytes(d)
            got = list(Deb822(src).items())
        except Exception as e:
            bad.append(("deb822/%s/raises" % name, want, "%s: %s" % (type(e).__name__, e)))
            continue
        if got != want:
            bad.append(("deb822/%s/read-back" % name, want, got))
    return bad, 4


def run_scale(case):
    """-> (violations, executions)"""
    fam = scale_family(case)
    if case["kind"] == "scale-doc":
        bad, n = check_multi(scale_doc(case["gen"], case["seed"]), case["sep"])
    else:
        par = scale_par(case["gen"], case["seed"])
        bad, n = check_single(par, False, ARMOR_HEADERS[:1])
        b2, n2 = check_dump_fd(par)
        bad, n = bad + b2, n + n2
    return [(fam + "/" + sig.split("/", 1)[1], squeeze(_brief(exp)), squeeze(_brief(obs))) for sig, exp, obs in bad], n


def _brief(x):
    t = x if isinstance(x, str) else repr(x)
    return t if len(t) <= 1500 else t[:700] + " ...<%d characters>... " % (len(t) - 1400) + t[-700:]


def scale_units(tier):
    out = [{"kind": "scale", "family": "fields", "arg": n} for n in SCALE_SMALL + SCALE_FIELDS_BIG]
    out += [{"kind": "scale", "family": "cont", "arg": n} for n in SCALE_SMALL + SCALE_BIG]
    out += [{"kind": "scale", "family": "pars", "arg": n} for n in SCALE_SMALL + SCALE_PARS_BIG]
    out += [{"kind": "scale", "family": "size", "arg": L} for L in SCALE_SIZES + (SCALE_SIZES_THOROUGH if tier != "quick" else [])]
    return out


def replay(case):
    if case["kind"] in ("scale", "scale-doc"):
        return run_scale(case)[0]
    if case["kind"] in ("long", "longdoc"):
        return run_long(case)[0]
    if case["kind"] == "single":
        return check_single([tuple(x) for x in case["par"]], case["full"])[0]
    if case["kind"] == "routes":
        return check_routes([[tuple(x) for x in p] for p in case["pars"]], case["sep"],
                            ARMOR_HEADERS[:1] if case.get("one_armor") else None, bool(case.get("light")))[0]
    if case["kind"] == "blank":
        return check_blank(case["lead"], [[tuple(x) for x in p] for p in case["pars"]], case["seps"])[0]
    return check_multi([[tuple(x) for x in p] for p in case["pars"]], case["sep"])[0]
