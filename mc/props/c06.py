"""C06 - ar members are exact, isolated, file-like views of the archive.

Engine A.  Per archive (written by mc.models.arwriter, never by the repo) and per open mode:
  * metadata: names, order, size/owner/group/mtime, getmember = last of that name;
  * graph mode: reachable-state fixpoint over the vector of member cursors; a state is installed on a
    freshly opened archive with seek(); every operation of the alphabet is applied to every member in
    every state, with the shared file object pre-positioned adversarially (0 / end of archive);
  * tree mode: every operation history up to depth d replayed from a fresh archive (no state install).
  * access routes: for a sub-family of archives the same exploration (fixpoint + depth 2) on member objects obtained the
    other public ways (ACCESS_SHARED / ACCESS_FNAME: other constructor argument forms, iteration, members property,
    getmember / [] / extractfile, ArMember.from_file), with keyword-argument forms of the operations and close() in the
    alphabet; every archive's listing is also read through iter(), .members and extractfile().
  * beyond the small scope (bounds()["beyond_the_small_scope"]): a size ladder (members of 997 bytes .. 256 KiB + 1 around every
    power-of-two block size and k * 65536, line ends / lone CR / CR LF exactly at, before and after every block boundary, read(),
    read(n) with n = what remains, chunked reads, readline, readline(n), readlines, both open modes, three positions in the
    archive), count ladders (1..40 ... 5000 members per archive, 1..40 ... 5000 lines per member) and deep-narrow histories
    (12 operations incl. close(), every history of depth 5; thorough 6).  Signatures start with size/, ladder/ or deep/; the
    inputs are regenerated from the compact description in the case.
Oracle: an io.BytesIO holding exactly the member's bytes, same call, same arguments.
"""
import io
import itertools
import os
import tempfile

from .. import core
from ..models import arwriter

ID = "C06"
LEVEL = "model_checking"
RULE = ("states = (archive, open mode, vector of member cursors) reached by BFS to fixpoint; transitions = one file "
        "operation on one member (x adversarial position of the shared file object); traces = operation histories "
        "replayed from a fresh archive in tree mode; non-trivial = states in which some cursor is non-zero")
BUDGET = {"quick": 240, "thorough": 3000}


def bounds(tier):
    return {"members": "0..2 over 10 contents (all), 3 over a 4-content core; plus one sparse archive whose first member is "
                       "1000000001 bytes long (10-digit size field), histories to depth 2-3", "name_styles": ["gnu", "bsd"],
            "open_modes": ["shared fileobj", "filename", "shared real file object whose path now names another archive (%d archives, tree depth 2)" % 14], "graph": "fixpoint",
            "tree_depth": {"quick": "2 (3 on the 2-member core)", "thorough": "3 (4 on the 2-member core)"}[tier],
            "seek_targets": "[0, size+1]",
            "access_routes": {"shared file object": ACCESS_SHARED, "file name": ACCESS_FNAME,
                              "archives": "the 10 one-member archives, 6 two-member archives, 1 three-member archive (unique member "
                                          "names), each explored per route: fixpoint over cursor vectors + every history to depth 2",
                              "alphabet": "read() read(1) read(size+1) readline() readline(2) readlines() tell() seek(0) seek(size) "
                                          "seek(+-1,1) seek(-1,2) peer + read(size=1) read(size=-1) readline(size=2) readline(size=-1) "
                                          "seek(offset=,whence=) for whence 0/1/2 + close()",
                              "listing": "for EVERY archive of the check: iter(ar), ar.members, extractfile(name) / extractfile(member) "
                                         "(unique names) list the same members (recorded fields compared) as getmembers()"},
            "beyond_the_small_scope": {
                "size_ladder": {"member sizes": SIZES + (SIZES_THOROUGH if tier == "thorough" else []),
                                "content": "non-periodic-in-blocks filler (period 23) with marks: %s = LF / lone CR / CR LF placed at B+delta for "
                                           "every multiple B of the granularity inside the member and for B = size (so a line ends exactly at, "
                                           "just before and just after every block boundary and the end); patterns that coincide at a size "
                                           "run once" % ", ".join(SIZE_PATS),
                                "position in the archive": "first member / after a 1-byte (padded) member / data starting at file offset 65536; "
                                                           "always followed by a member %r" % FOLLOWER,
                                "scripts": "%s: read(), read(n) for n = remaining / -1 / +1 from 0, from 1 and from every 64 KiB boundary +-1, "
                                           "reading in chunks of 4096/16384/65536/65537 to the end, readline() to the end, readlines(), readline(n) "
                                           "with n = remaining / -1 / +1 and in blocks of 16384/65536/65537, interleaved with the follower, "
                                           "seeks relative to the end; every step compared with BytesIO (result, all cursors), shared file "
                                           "object pre-positioned at 0 / end alternately" % ", ".join(SIZE_SCRIPTS),
                                "open modes": ["shared fileobj", "filename"]},
                "member_count_ladder": {"n": "every n in 1..40 and %r with a shared file object; up to 1025 by file name (one open file per "
                                             "member)" % [n for n in COUNTS if n > 40],
                                        "arrangements": "unique names / last member repeats the first name / every name twice; contents rotate "
                                                        "over the 10 small contents (odd, even, empty) plus the member's number; name style and "
                                                        "metadata rotate",
                                        "checked": "names, recorded fields through getmembers / iter / members, getmember and [] = last of the name "
                                                   "for every name, extractfile (n <= 300); then 8 rounds over ALL members (readline ascending, read() "
                                                   "descending, read(1), seek(0), readlines evens-then-odds, seek(1), tell, read(-1)) - each result and "
                                                   "cursor against BytesIO, all cursors after every round"},
                "lines_per_member_ladder": {"n": "every n in 1..40 and %r" % [n for n in COUNTS if n > 40], "arrangements": LINE_ARRS,
                                            "last line": ["closed", "open"], "scripts": LINE_SCRIPTS},
                "deep_histories": "alphabet %r on each of the two members of [a LF b, a LF] (12 operations), EVERY history of depth %d, "
                                  "replayed from a fresh archive, both open modes" % (DEEP_OPS, 5 if tier == "quick" else 6)}}


def assumptions():
    return ["io.BytesIO is the reference for file-like behaviour", "read(0), readlines(hint), negative targets and the "
            "return value of seek are outside the statement", "arwriter output cross-checked with /usr/bin/ar when present",
            "access routes: the members of an archive are the same file-like views however the archive was opened (positional "
            "and keyword constructor arguments, mode='r' given, encoding=/errors= for the - here ASCII - member names, a "
            "BufferedReader as file object) and however the member objects were obtained (iteration, the members property, "
            "getmember / [] / extractfile by name, extractfile by member, ArMember.from_file on a file object positioned at the "
            "member's header, with and without a file name); operations may be called with keyword arguments (size=, offset=, "
            "whence=)",
            "close(): 'sharing one file object, or re-opening by file name' - a member that was closed is used again: with a "
            "file name it re-opens the file and continues at its cursor, with a shared file object close() leaves the caller's "
            "file object alone; in both cases the cursor is unchanged (this is what the unchanged library does)",
            "beyond the small scope: large members and many-member archives are generated from a compact description in the case "
            "(sizes, mark pattern, filler number), never stored; the oracle is the same io.BytesIO comparison as in the small "
            "scope; nothing is sampled - every (size, pattern, position, open mode, script) combination and every count of the "
            "ladders is run; seed rotates the 23-byte filler alphabet only",
            "left out: extractfile(name) for a name that occurs twice (documented in the source to give the first such "
            "member, unlike getmember), next() and iteration over a member (documented one-line generator; not among the "
            "operations the statement names), seekable(), copies of member objects, non-ASCII member names with other "
            "encodings"]


def contents(seed):
    a = core.rep(seed, [b"a", b"z", b"\x00", b"\xff"])
    b = core.rep(seed, [b"b", b"y", b"\x01", b"\xfe"])
    n = b"\n"
    # (the last one has a carriage return that is not a line end for a binary file)
    return [b"", a, n, a + b, a + n, n + a, a + n + b, a + n + b + n, n + n, a + b"\r" + b + n]


META = [(0, 0, 0), (1000, 1000, 1000), (123456789012, 999999, 999999)]


def units(tier, seed):
    cs = contents(seed)
    core4 = [cs[0], cs[1], cs[6], cs[4]]
    archives = [()]
    archives += [(c,) for c in cs]
    archives += list(itertools.product(cs, repeat=2))
    archives += list(itertools.product(core4, repeat=3))
    out = []
    k = 0
    for arch in archives:
        for mode in ("shared", "fname"):
            # name style / duplicate names / metadata rotate deterministically over the archive index
            style = ("gnu", "bsd")[k % 2]
            dup = (k // 2) % 3 == 0 and len(arch) >= 2
            names = ["m%d" % i for i in range(len(arch))]
            if dup:
                names[-1] = names[0]
            members = [(names[i], arch[i]) + META[(k + i) % 3] for i in range(len(arch))]
            if len(arch) == 2 and arch[0] in core4 and arch[1] in core4:
                tree = 3 if tier == "quick" else 4
            elif len(arch) == 3:
                tree = 2 if tier == "quick" else 3
            else:
                tree = 2 if tier == "quick" else 3
            out.append({"members": members, "style": style, "mode": mode, "tree": tree})
            k += 1
    # member names that spell a marker of the archive layer (the global magic, the header terminator)
    for nm in ("!<arch>\nx", "`\nab", "!<arch>"):
        for mode in ("shared", "fname"):
            members = [(nm, cs[6]) + META[k % 3], ("m1", cs[1]) + META[(k + 1) % 3]]
            out.append({"members": members, "style": ("gnu", "bsd")[k % 2], "mode": mode, "tree": 2})
            k += 1
    # a real, named file object whose path has meanwhile been given to another archive
    named = [(c,) for c in core4] + [(x, y) for x in core4[1:] for y in core4[1:]] + [(cs[7], cs[0], cs[3])]
    for arch in named:
        names = ["m%d" % i for i in range(len(arch))]
        members = [(names[i], arch[i]) + META[(k + i) % 3] for i in range(len(arch))]
        out.append({"members": members, "style": ("gnu", "bsd")[k % 2], "mode": "named", "tree": 2})
        k += 1
    # the other ways of opening the archive / getting hold of the members: singles, pairs over the core, a few triples
    routed = [(c,) for c in cs] + [(cs[1], cs[6]), (cs[6], cs[4]), (cs[4], cs[0]), (cs[0], cs[1]), (cs[6], cs[6]), (cs[9], cs[3])] + [(cs[7], cs[0], cs[3])]
    for arch in routed:
        names = ["m%d" % i for i in range(len(arch))]
        members = [(names[i], arch[i]) + META[(k + i) % 3] for i in range(len(arch))]
        for mode, accesses in (("shared", ACCESS_SHARED), ("fname", ACCESS_FNAME)):
            for access in accesses:
                out.append({"members": members, "style": ("gnu", "bsd")[k % 2], "mode": mode, "tree": 2, "access": access})
        k += 1
    out.append({"big": True})
    out += scale_units(tier)
    return out


def unit_cost(u, tier):
    if u.get("big"):
        return 40 ** 3
    if u.get("scale"):
        return {"size": 30000 + u.get("L", 0) // 4, "members": 40000, "lines": 40000, "deep": 3000000}[u["scale"]]
    n = len(u["members"])
    if u["mode"] == "named":
        return 300 * (20 * max(n, 1)) ** u["tree"]          # two scratch files per replayed history
    return ((22 if u.get("access") else 20) * max(n, 1)) ** u["tree"]


def route_ops_for(size):
    """the alphabet of the access-route units: the ordinary one, keyword-argument forms, and close()"""
    o = [("read",), ("read", 1), ("read", size + 1), ("readline",), ("readline", 2), ("readlines",), ("tell",)]
    for p in sorted({0, size}):
        o.append(("seek", p))
    o += [("seek", 1, 1), ("seek", -1, 1), ("seek", -1, 2), ("peer",)]
    o += [("read-kw", 1), ("read-kw", -1), ("readline-kw", 2), ("readline-kw", -1), ("seek-kw", 1, 0), ("seek-kw", 1, 1),
          ("seek-kw", -1, 2), ("seek-kw", 0, 0), ("close",)]
    return o


def ops_for(size):
    o = [("read",), ("read", 1), ("read", 2), ("read", size + 1), ("read", -1),
         ("readline",), ("readline", 1), ("readline", 2), ("readline", -1), ("readlines",), ("tell",)]
    for p in sorted({0, 1, size, size + 1}):
        o.append(("seek", p))
    o += [("seek", 1, 1), ("seek", -1, 1), ("seek", 0, 2), ("seek", -1, 2), ("seek", 1, 2)]
    o.append(("peer",))       # a second ArFile object over the same file reads this member in full
    return o


DECOY = arwriter.build([("decoy", b"DECOY\n", 1, 2, 3)], "gnu")


# "the other way in": other ways of opening the archive and of getting hold of its members (the cursor exploration then
# runs on the member objects obtained that way, with keyword-argument forms of the operations and close() in the alphabet)
ACCESS_SHARED = ["iter", "members-property", "getmember", "getitem", "extractfile-name", "extractfile-member", "from_file",
                 "ctor-positional", "ctor-mode-keyword", "ctor-encoding", "buffered-reader"]
ACCESS_FNAME = ["iter", "getmember", "extractfile-name", "from_file", "ctor-positional", "ctor-positional-mode", "ctor-encoding"]


def header_offsets(members):
    out, off = [], len(arwriter.MAGIC)
    for m in members:
        out.append(off)
        off += 60 + len(m[1]) + len(m[1]) % 2
    return out


class Run(object):
    def __init__(self, members, style, mode, path=None, access=None):
        from debian.arfile import ArFile
        self.members = members
        self.raw = arwriter.build(members, style)
        self.mode = mode
        self.access = access
        self.tmp = None
        if access is not None:
            self._open_via(access, path)
            self.refs = [io.BytesIO(m[1]) for m in members]
            return
        if mode == "shared":
            self.under = io.BytesIO(self.raw)
            self.ar = ArFile(fileobj=self.under)
        elif mode == "named":
            # a real file object (it has a .name); the path it was opened from now names another archive, so only the
            # file object that was handed over can give the right answers
            fd, p = tempfile.mkstemp(prefix="verif-c06-")
            os.write(fd, self.raw)
            os.close(fd)
            self.under = open(p, "rb")
            fd, p2 = tempfile.mkstemp(prefix="verif-c06-")
            os.write(fd, DECOY)
            os.close(fd)
            os.replace(p2, p)
            self.tmp = p
            try:
                self.ar = ArFile(fileobj=self.under)
            except Exception:
                self.under.close()
                os.unlink(p)
                raise
        else:
            if path is None:
                fd, path = tempfile.mkstemp(prefix="verif-c06-")
                os.write(fd, self.raw)
                os.close(fd)
                self.tmp = path
            self.under = None
            self.path = path
            try:
                self.ar = ArFile(filename=path)
            except Exception:
                if self.tmp:
                    os.unlink(self.tmp)
                raise
        self.ms = self.ar.getmembers()
        self.refs = [io.BytesIO(m[1]) for m in members]

    def _open_via(self, access, path):
        """open the archive and collect the member objects the `access` way (names are unique in these archives)"""
        from debian.arfile import ArFile, ArMember
        names = [m[0] for m in self.members]
        if self.mode == "shared":
            self.under = io.BufferedReader(io.BytesIO(self.raw)) if access == "buffered-reader" else io.BytesIO(self.raw)
            self.path = None
            if access == "ctor-positional":
                self.ar = ArFile(None, "r", self.under)
            elif access == "ctor-mode-keyword":
                self.ar = ArFile(mode="r", fileobj=self.under)
            elif access == "ctor-encoding":
                self.ar = ArFile(fileobj=self.under, encoding="ascii", errors="strict")
            else:
                self.ar = ArFile(fileobj=self.under)
        else:
            self.under = None
            self.path = path
            if access == "ctor-positional":
                self.ar = ArFile(path)
            elif access == "ctor-positional-mode":
                self.ar = ArFile(path, "r")
            elif access == "ctor-encoding":
                self.ar = ArFile(filename=path, mode="r", encoding="utf-8", errors="strict")
            else:
                self.ar = ArFile(filename=path)
        if access == "iter":
            self.ms = [m for m in self.ar]
        elif access == "members-property":
            self.ms = list(self.ar.members)
        elif access == "getmember":
            self.ms = [self.ar.getmember(n) for n in names]
        elif access == "getitem":
            self.ms = [self.ar[n] for n in names]
        elif access == "extractfile-name":
            self.ms = [self.ar.extractfile(n) for n in names]
        elif access == "extractfile-member":
            self.ms = [self.ar.extractfile(m) for m in self.ar.getmembers()]
        elif access == "from_file":
            # ArMember.from_file(fp, fname): "fp is an open File object positioned on a valid file header inside an ar archive"
            self.ms = []
            if self.mode == "shared":
                for off in header_offsets(self.members):
                    self.under.seek(off)
                    self.ms.append(ArMember.from_file(self.under, None))
            else:
                with open(path, "rb") as fp:
                    for off in header_offsets(self.members):
                        fp.seek(off)
                        self.ms.append(ArMember.from_file(fp, path))
        else:
            self.ms = self.ar.getmembers()
        if len(self.ms) != len(self.members) or any(m is None for m in self.ms):
            raise LookupError("members obtained: %r" % ([getattr(m, "name", m) for m in self.ms],))

    def close(self):
        for m in self.ms:
            m.close()
        if self.mode == "named":
            self.under.close()
        if self.tmp:
            os.unlink(self.tmp)

    def meta(self):
        """-> list of (sig, expected, observed)"""
        bad = []
        exp_names = [m[0] for m in self.members]
        if self.ar.getnames() != exp_names:
            bad.append(("ar/meta/names", exp_names, self.ar.getnames()))
            return bad
        if len(self.ms) != len(self.members):
            bad.append(("ar/meta/count", len(self.members), len(self.ms)))
            return bad
        arms = self.ar.getmembers()        # (self.ms are the same objects unless they were made by ArMember.from_file)
        if len(arms) != len(self.members):
            bad.append(("ar/meta/count", len(self.members), len(arms)))
            return bad
        for group in ([self.ms] if self.ms is arms else [arms, self.ms]):
            for i, (m, e) in enumerate(zip(group, self.members)):
                got = (m.name, m.size, m.mtime, m.owner, m.group)
                want = (e[0], len(e[1]), e[2], e[3], e[4])
                if got != want:
                    bad.append(("ar/meta/fields", want, got))
        for name in set(exp_names):
            last = max(i for i, n in enumerate(exp_names) if n == name)
            if self.ar.getmember(name) is not arms[last]:
                bad.append(("ar/meta/getmember-last", "member #%d for %r" % (last, name),
                            "member #%r" % [i for i, m in enumerate(arms) if m is self.ar.getmember(name)]))
            if self.ar[name] is not self.ar.getmember(name):
                bad.append(("ar/meta/getitem", "same as getmember", "different"))
        try:
            self.ar.getmember("absent-name")
            bad.append(("ar/meta/getmember-absent", "KeyError", "returned"))
        except KeyError:
            pass
        # the other ways of listing: iteration and the members property list the same members, in order (whether they
        # are the very same objects is not demanded: the recorded fields are compared)
        allm = self.ar.getmembers()

        def fields(m):
            return (m.name, m.size, m.mtime, m.owner, m.group) if m is not None and hasattr(m, "size") else repr(m)
        want_all = [(e[0], len(e[1]), e[2], e[3], e[4]) for e in self.members]
        if [fields(m) for m in self.ar] != want_all or [fields(m) for m in iter(self.ar)] != want_all:
            bad.append(("ar/meta/iter", want_all, [fields(m) for m in self.ar]))
        if [fields(m) for m in self.ar.members] != want_all:
            bad.append(("ar/meta/members-property", want_all, [fields(m) for m in self.ar.members]))
        for i, name in enumerate(exp_names):
            if exp_names.count(name) == 1:
                # (for a repeated name extractfile is documented to give the first member, unlike getmember)
                if fields(self.ar.extractfile(name)) != want_all[i]:
                    bad.append(("ar/meta/extractfile-name", want_all[i], fields(self.ar.extractfile(name))))
                if fields(self.ar.extractfile(allm[i])) != want_all[i]:
                    bad.append(("ar/meta/extractfile-member", want_all[i], fields(self.ar.extractfile(allm[i]))))
        if self.ar.extractfile("absent-name") is not None:
            bad.append(("ar/meta/extractfile-absent", None, repr(self.ar.extractfile("absent-name"))))
        return bad

    def install(self, state):
        for i, p in enumerate(state):
            self.ms[i].seek(p)
            self.refs[i].seek(p)

    def enabled(self, mi, op):
        if op[0] not in ("seek", "seek-kw"):
            return True
        size = len(self.members[mi][1])
        whence = op[2] if len(op) > 2 else 0
        base = {0: 0, 1: self.refs[mi].tell(), 2: size}[whence]
        return 0 <= base + op[1] <= size + 1

    def step(self, mi, op, upos):
        """apply op to member mi on both sides; -> None or (sig, expected, observed)"""
        if self.under is not None and getattr(self.under, "closed", False):
            # the file object belongs to the caller: nothing a member does may close it
            return ("ar/shared-file-object-closed", "the caller's file object is still open", "closed before %r" % (op,))
        if upos is not None and self.under is not None:
            self.under.seek(upos if upos >= 0 else len(self.raw))
        m, r = self.ms[mi], self.refs[mi]
        name = op[0]
        if name == "peer":
            from debian.arfile import ArFile
            try:
                if self.under is not None:
                    self.under.seek(0)
                    peer = ArFile(fileobj=self.under)
                else:
                    peer = ArFile(filename=self.path)
                pm = peer.getmembers()[mi]
                got = pm.read()
                pm.close()
            except Exception as e:
                return ("ar/peer/raises", "a second archive object reads the member", "%s: %s" % (type(e).__name__, e))
            if got != self.members[mi][1]:
                return ("ar/peer/result", self.members[mi][1], got)
            cur = [x.tell() for x in self.ms]
            rcur = [x.tell() for x in self.refs]
            if cur != rcur:
                return ("ar/peer/isolation", rcur, cur)
            return None
        try:
            if name == "seek":
                m.seek(*op[1:])
                r.seek(*op[1:])
                got = want = None
            elif name == "seek-kw":
                m.seek(offset=op[1], whence=op[2])
                r.seek(op[1], op[2])
                got = want = None
            elif name == "read-kw":
                want = r.read(op[1])
                got = m.read(size=op[1])
            elif name == "readline-kw":
                want = r.readline(op[1])
                got = m.readline(size=op[1])
            elif name == "close":
                # a member can be closed and used again: with a file name it re-opens the file where it was, a shared
                # file object is left alone
                want = None
                got = m.close()
            else:
                want = getattr(r, name)(*op[1:])
                got = getattr(m, name)(*op[1:])
        except Exception as e:  # the reference never raises inside the enabled domain
            return ("ar/%s/raises" % name, "no exception", "%s: %s" % (type(e).__name__, e))
        if got != want:
            return ("ar/%s/result" % name, want, got)
        cur = [x.tell() for x in self.ms]
        rcur = [x.tell() for x in self.refs]
        if cur != rcur:
            kind = "cursor" if cur[mi] != rcur[mi] else "isolation"
            return ("ar/%s/%s" % (name, kind), rcur, cur)
        return None

    def state(self):
        return tuple(x.tell() for x in self.refs)


# ---------------------------------------------------------------- a member whose size needs all 10 header digits

BIG = 1000000001          # odd: a pad byte follows


class Sparse(object):
    """read-only file object over `segments` (offset -> bytes) with "\\n" everywhere else; harness-owned"""

    def __init__(self, length, segments):
        self.length, self.segments, self.pos = length, sorted(segments.items()), 0

    def _bytes(self, a, b):
        out = bytearray(b"\n" * (b - a))
        for off, data in self.segments:
            lo, hi = max(a, off), min(b, off + len(data))
            if lo < hi:
                out[lo - a:hi - a] = data[lo - off:hi - off]
        return bytes(out)

    def read(self, n=-1):
        end = self.length if n is None or n < 0 else min(self.length, self.pos + n)
        end = max(end, self.pos)
        assert end - self.pos < (1 << 20), "harness: refusing to materialise %d bytes" % (end - self.pos)
        data = self._bytes(self.pos, end)
        self.pos = end
        return data

    def readline(self, n=-1):
        limit = self.length if n is None or n < 0 else min(self.length, self.pos + n)
        out = bytearray()
        while self.pos < limit:
            c = self._bytes(self.pos, self.pos + 1)
            out += c
            self.pos += 1
            if c == b"\n":
                break
        return bytes(out)

    def readlines(self):
        out = []
        while True:
            l = self.readline()
            if not l:
                return out
            out.append(l)

    def seek(self, off, whence=0):
        self.pos = max(0, {0: 0, 1: self.pos, 2: self.length}[whence] + off)
        return self.pos

    def tell(self):
        return self.pos


def big_archive():
    h1 = arwriter.header("big", BIG, 123456789012, 999999, 999999)
    h2 = arwriter.header("b", 1, 0, 0, 0)
    o1 = len(arwriter.MAGIC) + 60
    o2 = o1 + BIG + 1 + 60
    segs = {0: arwriter.MAGIC + h1, o1: b"beg", o1 + BIG - 3: b"end", o1 + BIG: b"\n" + h2, o2: b"q"}
    under = Sparse(o2 + 1, segs)
    refs = [Sparse(BIG, {0: b"beg", BIG - 3: b"end"}), Sparse(1, {0: b"q"})]
    return under, refs


def big_ops(mi):
    S = (BIG, 1)[mi]
    o = [("read", 1), ("read", 3), ("readline",), ("readline", 2), ("tell",), ("read",), ("readlines",), ("read", -1)]
    for p in sorted({0, 1, S - 3, S - 1, S, S + 1}):
        if p >= 0:
            o.append(("seek", p))
    o += [("seek", 1, 1), ("seek", -1, 1), ("seek", 0, 2), ("seek", -3, 2), ("seek", 1, 2)]
    return o


def run_big_history(hist):
    """-> (violation or None, executed?)"""
    from debian.arfile import ArFile
    under, refs = big_archive()
    try:
        ar = ArFile(fileobj=under)
        ms = ar.getmembers()
        got = [(m.name, m.size, m.mtime, m.owner, m.group) for m in ms]
    except Exception as e:
        return ("ar/big/open-raises", "archive with a 10-digit member size is indexed", "%s: %s" % (type(e).__name__, e)), True
    want = [("big", BIG, 123456789012, 999999, 999999), ("b", 1, 0, 0, 0)]
    if got != want:
        return ("ar/big/meta", want, got), True
    for mi, op in hist:
        m, r = ms[mi], refs[mi]
        size = (BIG, 1)[mi]
        if op[0] == "seek":
            base = {0: 0, 1: r.tell(), 2: size}[op[2] if len(op) > 2 else 0]
            if not 0 <= base + op[1] <= size + 1:
                return None, False
        if op[0] in ("read", "readlines") and (len(op) == 1 or op[1] < 0) and size - r.tell() > 16:
            return None, False            # would materialise a gigabyte
        if op[0] == "readline" and size - r.tell() > 16 and r.tell() > 4:
            pass                          # the fill is newlines: a line is one byte long
        try:
            if op[0] == "seek":
                m.seek(*op[1:])
                r.seek(*op[1:])
                g = w = None
            else:
                w = getattr(r, op[0])(*op[1:])
                g = getattr(m, op[0])(*op[1:])
        except Exception as e:
            return ("ar/big/%s/raises" % op[0], "no exception", "%s: %s" % (type(e).__name__, e)), True
        if g != w:
            return ("ar/big/%s/result" % op[0], w, g), True
        if [x.tell() for x in ms] != [x.tell() for x in refs]:
            return ("ar/big/%s/cursor" % op[0], [x.tell() for x in refs], [x.tell() for x in ms]), True
    return None, True


def run_big(part, depth):
    allops = [(mi, op) for mi in (0, 1) for op in big_ops(mi)]

    def rec(hist):
        for step in allops:
            h2 = hist + [step]
            bad, ran = run_big_history(h2)
            if not ran:
                continue
            part.transitions += 1
            part.evaluations += 1
            case = {"big": True, "history": h2}
            if bad:
                part.violation(bad[0], case, bad[1], bad[2], rank=len(h2))
                continue
            part.outcomes["big/" + step[1][0]] += 1
            if len(h2) < depth:
                rec(h2)
            else:
                part.traces += 1
    bad, _ = run_big_history([])
    part.states += 1
    if bad:
        part.violation(bad[0], {"big": True, "history": []}, bad[1], bad[2])
        return part
    rec([])
    part.nontrivial += 1
    part.sample({"big": True, "history": [(0, ("seek", BIG - 3)), (0, ("read", 10))]})
    return part


# ---------------------------------------------------------------- beyond the small scope: size and count ladders

SIZES = [997, 998, 999, 1000, 4095, 4096, 4097, 16383, 16384, 16385, 65535, 65536, 65537, 131071, 131072, 131073,
         196607, 196608, 196609, 262143, 262144, 262145]
SIZES_THOROUGH = [327679, 327680, 327681, 524287, 524288, 524289, 1048575, 1048576, 1048577]
COUNTS = list(range(1, 41)) + [63, 64, 65, 100, 127, 128, 129, 255, 256, 257, 999, 1000, 1001, 1025, 2500, 2501, 5000]
MEMBER_COUNTS_FNAME = [n for n in COUNTS if n <= 1025]      # (one open file per member in that mode)
# 23 bytes each (23 is coprime to every block size, so data shifted by a block is different data), no LF, no CR
FILLS = [b"abcdefghijklmnopqrstuvw", b"ABCDEFGHIJKLMNOPQRSTUVW", bytes(range(0x80, 0x97)), bytes(range(0xe9, 0x100))]
FOLLOWER = b"NEXT\nmember\n"
SIZE_PATS = (["fill", "nl-last", "nl-last-but-one"] + ["nl/%+d/%d" % (d, g) for g in (65536, 16384, 4096) for d in (-1, 0, 1)] +
             ["cr/-1/16384", "cr/+0/16384", "crlf/-1/16384", "crlf/-2/65536"])
SIZE_ALIGNS = ["first", "after-odd", "file-block"]
SIZE_SCRIPTS = ["read-all", "read-n", "read-rest", "chunks/65536", "chunks/16384", "chunks/65537", "chunks/4096", "readline-loop",
                "readlines", "readline-n", "readline-blocks", "interleave", "seek-end"]
MEMBER_ARRS = ["unique", "dup-ends", "pairs"]
LINE_ARRS = ["plain", "blank-alternating", "all-blank", "long-first", "long-last"]
LINE_SCRIPTS = ["readlines", "readline-loop", "readline-interleaved", "read"]


def size_marks(L, pat):
    """byte positions of the big member that do not hold filler -> byte value"""
    if pat == "fill":
        return {}
    if pat == "nl-last":
        return {L - 1: 10}
    if pat == "nl-last-but-one":
        return {L - 2: 10}
    kind, delta, gran = pat.split("/")
    d, g = int(delta), int(gran)
    out = {}
    for B in list(range(g, L + 1, g)) + [L]:
        p = B + d
        if 0 <= p < L:
            if kind == "nl":
                out[p] = 10
            elif kind == "cr":
                out[p] = 13
            else:
                out[p] = 13
                if p + 1 < L:
                    out[p + 1] = 10
    return out


def size_content(L, pat, fill):
    f = FILLS[fill % len(FILLS)]
    buf = bytearray((f * (L // len(f) + 1))[:L])
    for p, v in size_marks(L, pat).items():
        buf[p] = v
    return bytes(buf)


def line_content(n, arr, tail, fill):
    a = FILLS[fill % len(FILLS)][:1]
    lines = []
    for i in range(n):
        if arr == "all-blank" or (arr == "blank-alternating" and i % 2):
            lines.append(b"\n")
        elif (arr == "long-first" and i == 0) or (arr == "long-last" and i == n - 1):
            lines.append(a * 70000 + b"\n")
        else:
            lines.append(a + b"%d\n" % i)
    if tail == "open":
        lines[-1] = lines[-1][:-1] or a
    return b"".join(lines)


def scale_members(case):
    """-> (members, style, index of the member under study, index of the follower or None)"""
    fill = case.get("fill", 0)
    if case["scale"] == "size":
        big = size_content(case["L"], case["pat"], fill)
        pre = {"first": [], "after-odd": [("p", b"x", 0, 0, 0)],
               "file-block": [("p", b"P" * (65536 - 8 - 60 - 60), 1000, 1000, 1000)]}[case["align"]]
        ms = pre + [("big", big, 123456789012, 999999, 999999), ("next", FOLLOWER, 0, 0, 0)]
        return ms, case["style"], len(pre), len(pre) + 1
    if case["scale"] == "lines":
        data = line_content(case["n"], case["arr"], case["tail"], fill)
        return [("text", data, 1000, 1000, 1000), ("next", FOLLOWER, 0, 0, 0)], case["style"], 0, 1
    n, arr = case["n"], case["arr"]
    cs = contents(fill)
    ms = []
    for i in range(n):
        data = cs[(i + n) % len(cs)] + (b"" if i % 4 == 0 else b"%d" % i)
        name = "m%d" % i
        if arr == "dup-ends" and i == n - 1 and n >= 2:
            name = "m0"
        elif arr == "pairs" and n >= 2:
            name = "m%d" % (i % ((n + 1) // 2))
        ms.append((name, data) + META[(i + n) % 3])
    return ms, case["style"], None, None


def scale_ops(case, members, bi, fi):
    """the operation script of a size / lines case: list of (member index, op)"""
    data = members[bi][1]
    L = len(data)
    nlines = data.count(b"\n") + (0 if data.endswith(b"\n") or not data else 1)
    s = case["script"]
    B = lambda *op: (bi, op)
    F = lambda *op: (fi, op)
    if s == "read-all" or s == "read":
        return [B("read"), B("tell"), B("read"), B("read", 1), F("read"), B("seek", 0), B("read", -1), B("tell")]
    if s == "read-n":          # n = exactly what remains, one less, one more
        return [B("read", L), B("tell"), B("read", 1), B("seek", 0), B("read", L + 1), B("seek", 0), B("read", L - 1), B("read", 1),
                B("read", 1), B("seek", 1), B("read", L - 1), B("tell"), F("read", len(FOLLOWER)), F("read", 1)]
    if s == "read-rest":
        cuts = {1, L // 2, L - 1}
        for blk in range(16384, L, 16384):
            if blk % 65536 == 0 or blk == 16384:
                cuts |= {blk - 1, blk, blk + 1}
        ops = []
        for c in sorted(x for x in cuts if 0 < x < L):
            ops += [B("seek", c), B("read", L - c), B("tell"), B("seek", c), B("read"), B("seek", 0), B("read", c), B("tell")]
        return ops
    if s.startswith("chunks/"):
        k = int(s.split("/")[1])
        return [B("read", k)] * (L // k + 2) + [B("tell"), F("read", k)]
    if s == "readline-loop":
        return [B("readline")] * (nlines + 2) + [B("tell"), F("readline")]
    if s == "readlines":
        return [B("readlines"), B("tell"), B("readlines"), B("seek", 0), B("readlines"), F("readlines")]
    if s == "readline-n":      # a limit of exactly what remains / one less / one more, in one call each
        return [B("readline", L), B("tell"), B("seek", 0), B("readline", L + 1), B("tell"), B("seek", 0), B("readline", L - 1),
                B("readline", 1), B("readline", 1), B("seek", 0), B("readline", -1), B("tell"), B("seek", 1), B("readline", L - 1),
                B("tell")]
    if s == "readline-blocks":
        ops = []
        for k in (65536, 65537, 16384):
            ops += [B("seek", 0)] + [B("readline", k)] * (L // k + min(nlines, 70) + 1) + [B("tell")]
        return ops
    if s == "interleave":
        c0 = min(65536, max(L // 2, 1))
        return [B("read", c0), F("readline"), B("readline"), F("read"), B("tell"), B("read"), F("seek", 0), F("read"), B("tell")]
    if s == "readline-interleaved":
        return [B("readline"), F("readline")] * (min(nlines, 3)) + [B("readline")] * nlines + [B("tell"), F("read")]
    if s == "seek-end":
        ops = [B("seek", -1, 2), B("read"), B("seek", 0, 2), B("read", 1), B("readline"), B("seek", L + 1), B("read"),
               B("readline"), B("readlines"), B("tell")]
        if L >= 65536:
            ops += [B("seek", -65536, 2), B("read"), B("seek", -65536, 2), B("readline"), B("tell"), B("seek", -65537, 2), B("read", 65536)]
        return ops
    raise ValueError(s)


def brief_pair(want, got):
    def one(x):
        if isinstance(x, bytes) and len(x) > 80:
            return "bytes len=%d head=%r tail=%r" % (len(x), x[:24], x[-24:])
        if isinstance(x, list) and (len(x) > 12 or any(isinstance(y, bytes) and len(y) > 80 for y in x)):
            return "list of %d: %s%s" % (len(x), ", ".join(one(y) for y in x[:4]), " ... " + one(x[-1]) if len(x) > 4 else "")
        return repr(x)
    w, g = one(want), one(got)
    if isinstance(want, bytes) and isinstance(got, bytes) and len(want) > 80:
        k = next((i for i, (a, b) in enumerate(zip(want, got)) if a != b), min(len(want), len(got)))
        g += " (first difference at byte %d)" % k
    elif isinstance(want, list) and isinstance(got, list) and len(want) > 12:
        k = next((i for i, (a, b) in enumerate(zip(want, got)) if a != b), min(len(want), len(got)))
        g += " (first difference at item %d: %s vs %s)" % (k, one(want[k]) if k < len(want) else "-", one(got[k]) if k < len(got) else "-")
    return w, g


def meta_fast(r):
    """the listing of a many-member archive in O(n): names, recorded fields, lookup by name = last of that name"""
    exp = [(e[0], len(e[1]), e[2], e[3], e[4]) for e in r.members]
    names = r.ar.getnames()
    if names != [e[0] for e in exp]:
        k = next((i for i, (a, b) in enumerate(zip(names, exp)) if a != b[0]), min(len(names), len(exp)))
        return ("ar/meta/names", "%d names" % len(exp), "%d names, first difference at #%d" % (len(names), k))
    for how, ms in (("getmembers", r.ar.getmembers()), ("iter", list(r.ar)), ("members-property", list(r.ar.members))):
        got = [(m.name, m.size, m.mtime, m.owner, m.group) for m in ms]
        if got != exp:
            k = next((i for i, (a, b) in enumerate(zip(got, exp)) if a != b), min(len(got), len(exp)))
            return ("ar/meta/fields" if how == "getmembers" else "ar/meta/" + how, "%d members; #%d = %r" % (len(exp), k, exp[k] if k < len(exp) else None),
                    "%d members; #%d = %r" % (len(got), k, got[k] if k < len(got) else None))
    last = {}
    for i, e in enumerate(exp):
        last[e[0]] = i
    arms = r.ar.getmembers()
    for name, i in last.items():
        for how in ("getmember", "getitem"):
            try:
                m = r.ar.getmember(name) if how == "getmember" else r.ar[name]
            except KeyError:
                return ("ar/meta/%s-raises" % how, "member #%d for %r" % (i, name), "KeyError")
            if m is not arms[i]:
                return ("ar/meta/%s-last" % how, "member #%d for %r" % (i, name),
                        "member #%r" % [j for j, x in enumerate(arms) if x is m][:3])
    first = {}
    for i, e in enumerate(exp):
        first.setdefault(e[0], i)
    if len(exp) <= 300:
        for name, i in first.items():
            if last[name] == i and r.ar.extractfile(name) is not arms[i]:
                return ("ar/meta/extractfile-name", "member #%d for %r" % (i, name), repr(r.ar.extractfile(name)))
    return None


def run_members_case(case, part=None):
    members, style, _, _ = scale_members(case)
    n = len(members)
    try:
        r = Run(members, style, case["mode"])
    except Exception as e:
        return ("ar/open-raises/" + type(e).__name__, "archive of %d members is indexed" % n, "%s: %s" % (type(e).__name__, e))
    try:
        bad = meta_fast(r)
        if part is not None:
            part.evaluations += 1
        if bad:
            return bad
        if n <= 65:
            bad = r.meta()
            if bad:
                return bad[0]
        k = [0]

        def do(mi, op):
            if r.under is not None:
                r.under.seek((0, len(r.raw))[k[0] % 2])
            k[0] += 1
            m, ref = r.ms[mi], r.refs[mi]
            try:
                if op[0] == "seek":
                    m.seek(*op[1:])
                    ref.seek(*op[1:])
                    want = got = None
                else:
                    want = getattr(ref, op[0])(*op[1:])
                    got = getattr(m, op[0])(*op[1:])
            except Exception as e:
                return ("ar/%s/raises" % op[0], "no exception (member #%d of %d)" % (mi, n), "%s: %s" % (type(e).__name__, e))
            if part is not None:
                part.transitions += 1
            if got != want:
                return ("ar/%s/result" % op[0], "member #%d of %d: %r" % (mi, n, want), repr(got))
            if m.tell() != ref.tell():
                return ("ar/%s/cursor" % op[0], "member #%d of %d at %d" % (mi, n, ref.tell()), m.tell())
            return None

        def vector(after):
            cur, rcur = [x.tell() for x in r.ms], [x.tell() for x in r.refs]
            if cur != rcur:
                j = next(i for i in range(n) if cur[i] != rcur[i])
                return ("ar/%s/isolation" % after, "member #%d of %d at %d" % (j, n, rcur[j]), cur[j])
            if part is not None:
                part.evaluations += 1
            return None
        rounds = [(range(n), ("readline",)), (range(n - 1, -1, -1), ("read",)), (range(n), ("read", 1)), (range(n), ("seek", 0)),
                  (list(range(0, n, 2)) + list(range(1, n, 2)), ("readlines",)), (range(n - 1, -1, -1), ("seek", 1)),
                  (range(n), ("tell",)), (range(n), ("read", -1))]
        for order, op in rounds:
            for mi in order:
                if op[0] == "seek" and op[1] > len(members[mi][1]) + 1:
                    continue
                bad = do(mi, op)
                if bad:
                    return bad
            bad = vector(op[0])
            if bad:
                return bad
        return None
    finally:
        r.close()


def exec_script(members, style, mode, path, ops, part=None):
    try:
        r = Run(members, style, mode, path)
    except Exception as e:
        return ("ar/open-raises/" + type(e).__name__, "archive is indexed", "%s: %s" % (type(e).__name__, e))
    try:
        bad = r.meta()
        if bad:
            return bad[0]
        for j, (mi, op) in enumerate(ops):
            if not r.enabled(mi, op):
                continue
            bad = r.step(mi, op, None if r.under is None else (0, -1)[j % 2])
            if part is not None:
                part.transitions += 1
                part.evaluations += 1
            if bad:
                return (bad[0],) + brief_pair(bad[1], bad[2])
        return None
    finally:
        r.close()


def scale_sig(case, sig):
    if case["scale"] == "size":
        return "size/%s/%s" % (case["script"], sig)
    if case["scale"] == "lines":
        return "ladder/lines/%s/%s" % (case["script"], sig)
    return "ladder/members/%s" % sig


def run_scale_case(case, path=None, part=None):
    """-> None or (sig, expected, observed); the archive is generated from the compact description in the case"""
    if case["scale"] == "deep":
        r = Run(deep_members(case.get("fill", 0)), "gnu", case["mode"])
        try:
            for j, (mi, op) in enumerate(case["history"]):
                bad = r.step(mi, tuple(op), None if r.under is None else (0, -1)[j % 2])
                if bad:
                    return ("deep/" + bad[0], bad[1], bad[2])
            return None
        finally:
            r.close()
    if case["scale"] == "members":
        bad = run_members_case(case, part)
    else:
        members, style, bi, fi = scale_members(case)
        bad = exec_script(members, style, case["mode"], path, scale_ops(case, members, bi, fi), part)
    return (scale_sig(case, bad[0]), bad[1], bad[2]) if bad else None


# deep and narrow: a small alphabet chosen for hidden state (the lazily opened / closed file of a member, a cursor left
# beyond the end, the position of the shared file object), every history to depth 5-6 on a two-member archive
DEEP_OPS = [("readline",), ("read", 1), ("read",), ("seek", 0), ("seek", 1, 2), ("close",)]


def deep_members(fill):
    cs = contents(fill)
    return [("m0", cs[6], 0, 0, 0), ("m1", cs[4], 1000, 1000, 1000)]      # a\nb (last line open, odd size) and a\n


def run_deep(part, u, seed):
    fill = seed % len(FILLS)
    members, mode, depth = deep_members(fill), u["mode"], u["depth"]
    allops = [(mi, op) for mi in (0, 1) for op in DEEP_OPS]
    path = None
    if mode == "fname":
        fd, path = tempfile.mkstemp(prefix="verif-c06-")
        os.write(fd, arwriter.build(members, "gnu"))
        os.close(fd)
    base = {"scale": "deep", "mode": mode, "fill": fill}
    part.max_depth = depth

    def attempt(hist):
        r = Run(members, "gnu", mode, path)
        try:
            for j, (mi, op) in enumerate(hist):
                bad = r.step(mi, op, None if r.under is None else (0, -1)[j % 2])
                if bad:
                    return bad
            return None
        finally:
            r.close()

    def rec(hist):
        bad = attempt(hist)
        part.transitions += 1
        part.evaluations += 1
        if bad:
            part.violation("deep/" + bad[0], dict(base, history=hist), bad[1], bad[2], rank=len(hist))
            return
        part.outcomes["deep/" + hist[-1][1][0]] += 1
        part.states += 1
        if len(hist) == depth:
            part.traces += 1
            part.nontrivial += 1
            return
        for step in allops:
            rec(hist + [step])
    try:
        rec([allops[u["first"]]])
        part.sample(dict(base, history=[allops[u["first"]]] + [allops[-1], allops[0]]))
    finally:
        if path:
            os.unlink(path)
    return part


def scale_units(tier):
    out = []
    for L in SIZES + (SIZES_THOROUGH if tier == "thorough" else []):
        for mode in ("shared", "fname"):
            out.append({"scale": "size", "L": L, "mode": mode})
    for mode in ("shared", "fname"):
        for first in range(len(DEEP_OPS) * 2):
            out.append({"scale": "deep", "mode": mode, "first": first, "depth": 5 if tier == "quick" else 6})
        for arr in MEMBER_ARRS:
            ns = COUNTS if mode == "shared" else MEMBER_COUNTS_FNAME
            out.append({"scale": "members", "arr": arr, "mode": mode, "ns": [n for n in ns if n <= 40]})
            out.append({"scale": "members", "arr": arr, "mode": mode, "ns": [n for n in ns if 40 < n <= 257]})
            out.append({"scale": "members", "arr": arr, "mode": mode, "ns": [n for n in ns if 257 < n <= 1025]})
            if mode == "shared":
                out.append({"scale": "members", "arr": arr, "mode": mode, "ns": [n for n in ns if n > 1025]})
        for arr in LINE_ARRS:
            out.append({"scale": "lines", "arr": arr, "mode": mode})
    return out


def run_scale_unit(part, u, tier, seed):
    if u["scale"] == "deep":
        return run_deep(part, u, seed)
    fill = seed % len(FILLS)
    mode = u["mode"]
    if u["scale"] == "members":
        for n in u["ns"]:
            if n == 1 and u["arr"] != "unique":
                continue
            case = {"scale": "members", "n": n, "arr": u["arr"], "mode": mode, "style": ("gnu", "bsd")[n % 2], "fill": fill}
            part.states += 1
            bad = run_scale_case(case, None, part)
            part.traces += 1
            if bad:
                part.violation(bad[0], case, bad[1], bad[2], rank=n)
                continue
            part.nontrivial += 1
            part.outcomes["ladder/members/%s" % u["arr"]] += 1
            part.extra["member-count ladder cases (%s)" % mode] += 1
            part.max_depth = max(part.max_depth, 8)
            if n == 40:
                part.sample(case)
        return part
    if u["scale"] == "lines":
        ns = COUNTS
        for n in ns:
            for tail in ("closed", "open"):
                base = {"scale": "lines", "n": n, "arr": u["arr"], "tail": tail, "mode": mode, "style": ("gnu", "bsd")[n % 2], "fill": fill}
                members = scale_members(base)[0]
                path = None
                if mode == "fname":
                    fd, path = tempfile.mkstemp(prefix="verif-c06-")
                    os.write(fd, arwriter.build(members, base["style"]))
                    os.close(fd)
                try:
                    part.states += 1
                    for s in LINE_SCRIPTS:
                        case = dict(base, script=s)
                        bad = exec_script(members, base["style"], mode, path, scale_ops(case, members, 0, 1), part)
                        part.traces += 1
                        if bad:
                            part.violation(scale_sig(case, bad[0]), case, bad[1], bad[2], rank=n)
                            continue
                        part.nontrivial += 1
                        part.outcomes["ladder/lines/%s" % s] += 1
                        part.extra["lines-per-member ladder cases (%s)" % mode] += 1
                        if n == 40 and tail == "open":
                            part.sample(case)
                finally:
                    if path:
                        os.unlink(path)
        return part
    L = u["L"]
    seen = set()
    for pat in SIZE_PATS:
        key = frozenset(size_marks(L, pat).items())
        if key in seen:              # at this size the pattern puts its marks where an earlier one did
            continue
        seen.add(key)
        for align in SIZE_ALIGNS:
            base = {"scale": "size", "L": L, "pat": pat, "align": align, "mode": mode, "style": ("gnu", "bsd")[L % 2], "fill": fill}
            members, style, bi, fi = scale_members(base)
            path = None
            if mode == "fname":
                fd, path = tempfile.mkstemp(prefix="verif-c06-")
                os.write(fd, arwriter.build(members, style))
                os.close(fd)
            try:
                part.states += 1
                for s in SIZE_SCRIPTS:
                    case = dict(base, script=s)
                    bad = exec_script(members, style, mode, path, scale_ops(case, members, bi, fi), part)
                    part.traces += 1
                    if bad:
                        part.violation(scale_sig(case, bad[0]), case, bad[1], bad[2], rank=L)
                        continue
                    part.nontrivial += 1
                    part.outcomes["size/%s" % s] += 1
                    part.extra["size ladder cases (%s)" % mode] += 1
                    if pat == "nl/-1/65536" and s == "readlines":
                        part.sample(case)
            finally:
                if path:
                    os.unlink(path)
    return part


def run_unit(u, tier, seed):
    part = core.Part()
    if u.get("big"):
        return run_big(part, 2 if tier == "quick" else 3)
    if u.get("scale"):
        return run_scale_unit(part, u, tier, seed)
    members, style, mode = u["members"], u["style"], u["mode"]
    access = u.get("access")
    n = len(members)
    path = None

    def sg(sig):
        return "via-%s/%s" % (access, sig) if access else sig
    if mode == "fname":
        fd, path = tempfile.mkstemp(prefix="verif-c06-")
        os.write(fd, arwriter.build(members, style))
        os.close(fd)
    base = {"members": members, "style": style, "mode": mode}
    if access:
        base["access"] = access
        part.extra["archives explored via %s/%s" % (mode, access)] += 1
    try:
        try:
            r = Run(members, style, mode, path, access)
        except Exception as e:       # a well-formed archive must be indexed
            part.violation(sg("ar/open-raises/" + type(e).__name__), dict(base, start=None, history=[]),
                           "archive is indexed", "%s: %s" % (type(e).__name__, e))
            part.evaluations += 1
            return part
        metabad = r.meta()
        for sig, exp, obs in metabad:
            part.violation(sg(sig), dict(base, start=None, history=[]), exp, obs)
        r.close()
        part.evaluations += 1
        if metabad:
            return part          # the member list itself is wrong: cursor exploration would only repeat that
        if n == 0:
            part.states += 1
            part.outcomes["empty-archive"] += 1
            return part
        uposs = (0, -1) if mode in ("shared", "named") else (None,)
        allops = [(mi, op) for mi in range(n) for op in (route_ops_for if access else ops_for)(len(members[mi][1]))]
        # ---- graph mode: fixpoint over cursor vectors
        init = (0,) * n
        seen = {init}
        frontier = [init]
        while frontier:
            nxt = []
            for st in frontier:
                for mi, op in allops:
                    for upos in uposs:
                        r = Run(members, style, mode, path, access)
                        r.install(st)
                        if not r.enabled(mi, op):
                            r.close()
                            break
                        bad = r.step(mi, op, upos)
                        part.transitions += 1
                        part.evaluations += 1
                        s2 = r.state()
                        r.close()
                        if bad:
                            part.violation(sg(bad[0]), dict(base, start=list(st), history=[(mi, op, upos)]), bad[1], bad[2])
                            continue
                        part.outcomes[op[0]] += 1
                        if s2 not in seen:
                            seen.add(s2)
                            nxt.append(s2)
            frontier = nxt
        part.states += len(seen)
        part.nontrivial += sum(1 for s in seen if any(s))
        part.sample(dict(base, start=list(max(seen)), history=[allops[0] + (uposs[0],)]))
        # ---- tree mode: replay every history up to depth d from a fresh archive
        depth = u["tree"]
        part.max_depth = depth

        def rec(hist):
            # replay hist (known good) and try every extension
            for mi, op in allops:
                for upos in uposs if len(hist) == depth - 1 else uposs[:1]:
                    r = Run(members, style, mode, path, access)
                    ok = True
                    for (hmi, hop, hup) in hist:
                        if r.step(hmi, hop, hup):
                            ok = False
                            break
                    if not ok or not r.enabled(mi, op):
                        r.close()
                        break
                    bad = r.step(mi, op, upos)
                    r.close()
                    part.transitions += 1
                    h2 = hist + [(mi, op, upos)]
                    if bad:
                        part.violation(sg(bad[0]), dict(base, start=None, history=h2), bad[1], bad[2])
                        continue
                    if len(h2) < depth:
                        if upos == uposs[0]:
                            rec(h2)
                    else:
                        part.traces += 1
        rec([])
        part.sample(dict(base, start=None, history=[allops[-1] + (uposs[-1],), allops[5] + (uposs[0],)][:depth]))
    finally:
        if path:
            os.unlink(path)
    return part


def replay(case):
    if case.get("scale"):
        bad = run_scale_case(case)
        return [bad] if bad else []
    if case.get("big"):
        bad, _ = run_big_history([(mi, tuple(op)) for mi, op in case["history"]])
        return [bad] if bad else []
    access = case.get("access")
    path = None

    def sg(sig):
        return "via-%s/%s" % (access, sig) if access else sig
    if access and case["mode"] == "fname":
        fd, path = tempfile.mkstemp(prefix="verif-c06-")
        os.write(fd, arwriter.build([tuple(m) for m in case["members"]], case["style"]))
        os.close(fd)
    try:
        return [(sg(b[0]),) + tuple(b[1:]) for b in _replay(case, path, access)]
    finally:
        if path:
            os.unlink(path)


def _replay(case, path, access):
    try:
        r = Run([tuple(m) for m in case["members"]], case["style"], case["mode"], path, access)
    except Exception as e:
        return [("ar/open-raises/" + type(e).__name__, "archive is indexed", "%s: %s" % (type(e).__name__, e))]
    try:
        bad = r.meta()
        if bad:
            return bad
        if case.get("start"):
            r.install(case["start"])
        for mi, op, upos in case["history"]:
            op = tuple(op)
            if not r.enabled(mi, op):
                return []
            b = r.step(mi, op, upos)
            if b:
                return [b]
        return []
    finally:
        r.close()


def repro_py(case):
    if case.get("scale"):
        return ("from mc.props import c06\ncase = %r\nbad = c06.run_scale_case(case)\n"
                "assert not bad, bad   # (signature, expected, observed); the input is generated from the description\n" % (case,))
    return ("import io\nfrom debian.arfile import ArFile\nfrom mc.models import arwriter\n"
            "case = %r\nraw = arwriter.build([tuple(m) for m in case['members']], case['style'])\n"
            "ar = ArFile(fileobj=io.BytesIO(raw)); ms = ar.getmembers(); refs = [io.BytesIO(m[1]) for m in case['members']]\n"
            "for i, p in enumerate(case.get('start') or []): ms[i].seek(p); refs[i].seek(p)\n"
            "for mi, op, _ in case['history']:\n"
            "    got = getattr(ms[mi], op[0])(*op[1:]); want = getattr(refs[mi], op[0])(*op[1:])\n"
            "    assert op[0] == 'seek' or got == want, (op, got, want)\n"
            "    assert [m.tell() for m in ms] == [r.tell() for r in refs]\n" % (case,))
