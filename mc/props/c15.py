"""C15 - changelog parsing is total and strictness-consistent; output is a normal form (Engine B + A).

Beyond the small scope (signatures ladder/..., size/..., deep/...): n copies of every line shape in four contexts, n blocks /
settings / distributions / change lines / blank lines (well-formed and damaged at the nth element), n editing calls, for n
in 1..40 and 63..1001 (some ladders ..5000); texts of exactly L bytes (997 .. 262 145) with line ends next to the multiples
of 65 536, well-formed and damaged, and lines of exactly L characters; all editing histories of length <= 5 over 9 operations
including "go on with a deep copy" / "go back to the object left behind" (objects left behind may not change).
"""
import copy
import io
import itertools
import os
import pickle
import tempfile
import warnings

from .. import core

ID = "C15"
PRISTINE_IMPORTS = ["debian.changelog"]
LEVEL = "model_checking"
RULE = ("(a) all sequences of <= n lines over 21 line shapes (one per branch of the parser's state machine and one per "
        "_parse_error call site), allow_empty_author on/off; (b) every text obtained from well-formed changelogs by one "
        "or two line insertions/deletions/duplications; (c) all editing histories (new_block, add_change, attribute "
        "assignment) to depth d on the empty and on parsed changelogs.  states = distinct inputs/histories, "
        "transitions = one line or one editing call appended, traces = inputs/histories executed (lenient + strict + "
        "format + re-parse); non-trivial = inputs that produce at least one block.  (d) 'the other way in': every "
        "short sequence and every single-line mutation once more along the other public routes (parse_changelog on a "
        "fresh / used / failed object, explicit and positional constructor arguments, max_blocks, encoding, real files; "
        "bytes(), write_to_open_file, per-block str/bytes, copies and pickles; subscripts, len, versions and the "
        "top-block properties), each compared with the constructor + str() + iteration route validated in (a)/(b); "
        "editing histories are re-run through the set_* methods, block objects, Version-typed / positional arguments and "
        "with formatting and reading after every call; (e) beyond the small scope: count ladders (n copies of a line shape in four "
        "contexts, n blocks / settings / distributions / change lines / blank lines, n editing calls), a size ladder (texts of "
        "exactly L bytes with line ends placed next to the multiples of 65 536, lines of exactly L characters) and deep, narrow "
        "editing histories with deep copies that are left behind and returned to: one state / transition per text or history")
BUDGET = {"quick": 240, "thorough": 3000}


def bounds(tier):
    return {"line_shapes": len(shapes(0)),
            "substitution_shapes": "%d further headings / trailers / change lines used by the mutation passes (substituted for and inserted next to the lines of the well-formed "
                                   "changelogs): keys whose lower() differs in length, odd urgencies and versions, '=' and ';' inside a setting, a key repeated verbatim / under another "
                                   "capitalisation / three times, trailers with several '<' '>'" % len(extra_shapes(0)), "sequence_length": 4 if tier == "quick" else 5,
            "mutations_of_wellformed": "single edits on 3 changelogs + pairs on %s" % ("1" if tier == "quick" else "3"),
            "edit_history_depth": 2 if tier == "quick" else 3, "edit_ops": len(OPS),
            "input_forms": "sequences of length <= %d also as bytes, lists/tuples/generators of lines, StringIO, BytesIO, bytes lines: same warnings/strictness/blocks/text" % FORMS_MAXLEN[tier],
            "routes_pass": "all sequences of length <= %d over the line shapes and all single-line mutations of the 3 well-formed changelogs, allow_empty_author on/off, x {parse_changelog lenient/strict/default-strict on a fresh object, on 5 kinds of used object (parsed two-block, parsed-with-warnings, aborted strict parse, the same text twice, programmatically built), constructor with every argument explicit / positional, file=None, max_blocks in {0,1,2,10**6} (lenient, strict, prefix of the unlimited result, normal form), encoding latin-1/utf-8 for bytes / bytes lines / mixed str+bytes lines with a non-ASCII change text and the per-call encoding override, real text-mode and binary files, str() twice, bytes(), write_to_open_file, initial_blank_lines + str(block)/bytes(block), copy.copy / copy.deepcopy (with independence) / pickle, c[i] for -n <= i < n, len, get_version/versions/get_versions/full_version/epoch/upstream_version/debian_revision/debian_version, c[version text] and c[Version], package/get_package/author/date/distributions/urgency}" % ROUTES_MAXLEN[tier],
            "edit_route_variants": "every editing history also via %s; final blocks and text must equal the plain history's" % ", ".join(VARIANTS[1:]),
            "direct_blocks": "ChangeBlock built directly / new_block with an encoding, 3 argument sets x {utf-8, latin-1}: str/bytes of block and changelog agree, bytes re-parse to the same block",
            "count_ladders": {"counts": "every n in 1..40 and %r; %r as well for %r%s" % (
                                  LADDER_BIG, LADDER_BIGGER, LADDER_WIDE, "" if tier == "quick" else " and for every other ladder (thorough)"),
                              "repeat": "n copies of each of the %d line shapes x contexts %r (counts above 40: %s), allow_empty_author "
                                        "off and on (above 40: off)" % (len(shapes(0)), CONTEXTS, "contexts in-block and after-block" if tier == "quick" else "all contexts"),
                              "structures": ["%s / %s" % x for x in STRUCT_LADDERS],
                              "edit_calls": "n calls of %r on each of the %d base changelogs (n <= 10: along every editing route; above: the plain route; quick, n > 257: bases 0 and 2 only)" % (
                                  [e[0] + ("" if e[1] is None else " #%d" % e[1]) for e in EDIT_LADDERS], len(bases(0))),
                              "input_forms": "n <= 40 and n in (1000, 1001): also as %r - same warnings / strictness / blocks / text" % (LADDER_FORMS,)},
            "size_ladder": {"total_bytes": SIZE_L,
                            "texts": "built as in C04 (blocks of 25 change lines, a line end on the byte before / on / after every multiple "
                                     "of 65 536 or behind a two-byte character that straddles it), in the variants %r (quick: the damaged variants with the line end on the multiple and behind the two-byte character only); and short texts "
                                     "with one line of exactly L characters: %r" % (SIZE_VARIANTS, SIZE_LINE_STYLES),
                            "input_forms": list(LADDER_FORMS)},
            "deep_histories": "all histories of length <= %d over %d operations %r on the bases %r (the empty changelog: one level less); fork = go on with a deep copy and "
                              "leave the object behind, swap = go on with the object left behind last; observed after the last step: "
                              "normal form of the current object, every object left behind unchanged since it was left"
                              % (DEEP_DEPTH[tier], len(DEEP_OPS), [o[0] + ("" if len(o) < 2 or isinstance(o[1], dict) and not o[1] else ":" + str(o[1])[:12]) for o in DEEP_OPS], DEEP_BASES),
            "pristine_state_pass": "all sequences of length <= %d and all single-line mutations, each evaluated in a process forked from a zygote that only imported the library" % (3 if tier == "quick" else 4)}


def assumptions():
    return ["any warning emitted by the lenient constructor counts as 'a warning'",
            "editing arguments are well-formed values (a change line that is itself a trailer is structure injection)",
            "blocks are compared on package, raw version text, distributions, urgency, changes, author, date",
            "max_blocks=k is taken at its documented meaning (parsing stops at heading k+1): the blocks, the initial "
            "lines and the text are the first k blocks of the unlimited result, and the strict/lenient equivalence and "
            "the normal form hold for what was parsed; with max_blocks=0 only the lines ahead of the first heading are kept "
            "and their text is not required to be a normal form (parsing e.g. '# c' alone gives one unformattable block)",
            "ladders and sizes are judged by the same oracle as the short texts (total, strict <=> warning, normal form, same "
            "result for str / bytes / lines input); what a text of n junk lines 'should' warn is not prescribed, only that "
            "strict and lenient agree; texts and histories are regenerated from the case description on replay",
            "deep histories: an object that was deep-copied and left behind owns its blocks - editing the copy (or the original, "
            "after a swap) may not change the other one (the statement speaks about a changelog, not about the set of live objects; "
            "copy.deepcopy is the documented way to get an independent changelog)",
            "routes not covered by the statement and left out: bytes that cannot be decoded with the given encoding "
            "(not a text), parse_changelog(None) on a used object (keeps the previous blocks), _format(allow_missing_author=True) "
            "(private), add_trailing_line on a block without a trailer line (a state no parse produces; the text then runs "
            "the added line into the changes)"]


def shapes(seed):
    p = core.rep(seed, ["pkg", "lib-x.y+z", "a0", "P"])
    a = core.rep(seed, ["A B <a@b.c>", "É <>", "x y z <q@r>", "A B <a@b.c>"])
    d = core.rep(seed, ["Mon, 01 Jan 2024 00:00:00 +0000", "Thu,  5 Feb 2009 11:22:33 -1200",
                        "1 Jan 2024 0:00:00 +0100", "Mon, 01 Jan 2024 00:00:00 +0000"])
    return [
        "%s (1.0-1) unstable; urgency=low" % p,
        "%s (1.0-2) unstable frozen; urgency=low (HIGH for x), binary-only=yes" % p,
        "%s (1.0-3) unstable; bad" % p,
        "%s (1.0-4) unstable; urgency=low, urgency=high" % p,
        "%s (1.0-5) unstable; urgency=(x)" % p,
        " -- %s  %s" % (a, d),
        " -- %s %s" % (a, d),
        " --",
        " -- %s  garbage" % a,
        "",
        "  * change",
        " one-space",
        "junk",
        "# comment",
        "vim: ts=2",
        "Local variables:",
        "%s (0.1)" % p,
        "$Id: x $",
        "/* c */",
        "Old Changelog:",
        "   ",
    ]


FORMS_MAXLEN = {"quick": 3, "thorough": 4}


def extra_shapes(seed):
    """lines used by the mutation passes only (substituted for / inserted next to the lines of well-formed
    changelogs): unusual but legal spellings"""
    p = core.rep(seed, ["pkg", "lib-x.y+z", "a0", "P"])
    return [
        "%s (1.0-6) unstable; urgency=low, x\u0130d=7" % p,          # a key whose lower() has another length
        "%s (1.0-6) unstable; urgency=low, x\u212ad=7" % p,          # KELVIN SIGN folds to k
        "%s (1.0-6) unstable; urgency=low, Binary-Only=yes, X-b=c" % p,
        "%s (1.0-6) unstable; urgency=LOW (Comment, kept)" % p if False else "%s (1.0-6) unstable; urgency=LOW" % p,
        " -- \u00c9 \u0130 <>  Thu,  5 Feb 2009 11:22:33 -1200",
        "  * change with trailing blanks  \t",
        # headings the heading syntax accepts although a part is not what Policy lists: an urgency keyword of one's own,
        # version texts that are no Debian versions (the parser keeps the raw text; nothing asks for a Version)
        "%s (1.0-7) unstable; urgency=bogus" % p,
        "%s (1.2_rc1-1) unstable; urgency=low" % p,
        "%s (a:2024/01/04,1) unstable; urgency=low" % p,
        # a setting whose value contains '=' and ';', a trailer with more than one '>' and '<'
        "%s (1.0-8) unstable; urgency=low, vcs=https://h/?p=x;a=b" % p,
        " -- A \"-->\" B <x> <a@b.c>  Mon, 01 Jan 2024 00:00:00 +0000",
        # a key repeated with the very same value (verbatim, and with another capitalisation of the key): as much a
        # repeated key as one with a conflicting value
        "%s (1.0-9) unstable; urgency=low, urgency=low" % p,
        "%s (1.0-9) unstable; urgency=low, binary-only=yes, Binary-Only=yes" % p,
        "%s (1.0-9) unstable; urgency=low, x-k=1, X-K=1, x-k=2" % p,
        # a date the trailer syntax accepts although no calendar knows it (the parser keeps the text)
        " -- A B <a@b.c>  Lun, 31 Janvier 2024 25:61:00 +9999",
    ]


def allshapes(seed):
    return shapes(seed) + extra_shapes(seed)


def run(text, **kw):
    from debian.changelog import Changelog
    with warnings.catch_warnings(record=True) as w:
        warnings.simplefilter("always")
        try:
            c = Changelog(text, **kw)
            return c, [str(x.message) for x in w], None
        except Exception as e:
            return None, [str(x.message) for x in w], e


ATTRS = ("package", "_raw_version", "distributions", "urgency", "changes", "author", "date")


def blocks(c):
    out = []
    for b in c:
        out.append((b.package, b._raw_version, b.distributions, b.urgency, tuple(b.changes()), b.author, b.date))
    return out


def msg_kind(m):
    m = str(m)
    for k in ("Unexpected line while looking for first heading", "Unexpected line while looking for next heading",
              "Unexpected line while looking for start of change data", "Unexpected line while looking for more change",
              "Found eof where expected", "Invalid key-value pair", "Repeated key-value", "Badly formatted urgency",
              "Badly formatted trailer", "Empty changelog"):
        if m.startswith(k):
            return k.replace(" ", "-")
    return m[:30].replace(" ", "-")


def normal_form(c, aea, tag):
    """-> [] | [(sig, exp, obs)]  for a Changelog object c"""
    from debian.changelog import ChangelogCreateError
    try:
        s = str(c)
    except ChangelogCreateError:
        return [], "unformattable"
    except Exception as e:
        return [("chlog/%s/str-raises/%s" % (tag, type(e).__name__), "text or ChangelogCreateError", repr(e))], None
    c3, _w3, e3 = run(s, allow_empty_author=aea) if s.strip() else (None, [], None)
    if not s.strip():
        # an empty changelog formats to nothing; re-parsing "nothing" is the empty changelog again
        return ([], "empty") if len(c) == 0 else (
            [("chlog/%s/normal-form/blocks-lost" % tag, blocks(c), "empty text")], None)
    if e3 is not None:
        return [("chlog/%s/reparse-raises/%s" % (tag, type(e3).__name__), "lenient parse never raises", repr(e3))], None
    try:
        s3 = str(c3)
    except Exception as e:
        return [("chlog/%s/normal-form/reformat-raises/%s" % (tag, type(e).__name__), s, repr(e))], None
    b1, b3 = blocks(c), blocks(c3)
    if b1 != b3:
        attr = "count"
        if len(b1) == len(b3):
            for x, y in zip(b1, b3):
                for i, a in enumerate(ATTRS):
                    if x[i] != y[i]:
                        attr = a
                        break
                else:
                    continue
                break
        return [("chlog/%s/normal-form/blocks:%s" % (tag, attr), b1, b3)], None
    if s3 != s:
        return [("chlog/%s/normal-form/text" % tag, s, s3)], None
    return [], "normal"


def check_text(text, aea):
    """-> (violations, outcome class)"""
    from debian.changelog import ChangelogParseError
    c, w, e = run(text, allow_empty_author=aea)
    if e is not None:
        return [("chlog/lenient-raises/%s" % type(e).__name__, "no exception", repr(e))], None
    c2, _w2, e2 = run(text, allow_empty_author=aea, strict=True)
    if e2 is not None and not isinstance(e2, ChangelogParseError):
        return [("chlog/strict-raises-other/%s" % type(e2).__name__, "ChangelogParseError or nothing", repr(e2))], None
    if (e2 is not None) != (len(w) > 0):
        kind = msg_kind(w[0]) if w else msg_kind(e2)
        return [("chlog/strict-lenient-disagree/%s/%s" % ("strict-only" if e2 is not None else "lenient-only", kind),
                 "strict raises <=> lenient warns", "strict: %r; lenient warnings: %r" % (e2, w))], None
    bad, oc = normal_form(c, aea, "parsed")
    if bad:
        return bad, None
    if e2 is None:
        bad, _ = normal_form(c2, aea, "strict-parsed")
        if bad:
            return bad, None
    return [], ("%d-blocks/%s/%s" % (min(len(c), 3), "warn" if w else "clean", oc))


# ---------------------------------------------------------------- input forms

def forms(text):
    import io
    b = text.encode("utf-8")
    return [("bytes", lambda: b), ("lines", lambda: text.splitlines()), ("lines-nl", lambda: text.splitlines(True)),
            ("tuple", lambda: tuple(text.splitlines())), ("generator", lambda: (l for l in text.splitlines(True))),
            ("stringio", lambda: io.StringIO(text)), ("bytesio", lambda: io.BytesIO(b)),
            ("bytes-lines", lambda: b.splitlines(True))]


def fingerprint(src, aea):
    """what the statement talks about, for one way of supplying the text"""
    from debian.changelog import ChangelogCreateError
    c, w, e = run(src() if callable(src) else src, allow_empty_author=aea)
    if e is not None:
        return ("lenient-raises", type(e).__name__)
    _c2, _w2, e2 = run(src() if callable(src) else src, allow_empty_author=aea, strict=True)
    try:
        out = str(c)
    except ChangelogCreateError:
        out = "<unformattable>"
    except Exception as ex:
        out = "<str raises %s>" % type(ex).__name__
    return (bool(w), type(e2).__name__ if e2 is not None else None, blocks(c), out)


def check_forms(text, aea):
    """the same text supplied in the other documented forms gives the same changelog"""
    if not text.strip():
        return []           # an empty text is reported differently per form ('Empty changelog file' / 'Found eof')
    ref = fingerprint(text, aea)
    for name, mk in forms(text):
        got = fingerprint(mk, aea)
        if got != ref:
            what = "warns" if got[0] != ref[0] else "strict" if got[1] != ref[1] else "blocks" if got[2] != ref[2] else "text"
            return [("chlog/input-form/%s/%s" % (name, what), ref, got)]
    return []


# ---------------------------------------------------------------- (d) the other way in: parsing/formatting/reading routes

ROUTES_MAXLEN = {"quick": 2, "thorough": 3}
BIG = 10 ** 6


def _out(c):
    from debian.changelog import ChangelogCreateError
    try:
        return str(c)
    except ChangelogCreateError:
        return "<unformattable>"
    except Exception as ex:
        return "<str raises %s>" % type(ex).__name__


NCALLS = [0]


def _call(fn):
    """-> (result, warnings, exception)"""
    NCALLS[0] += 1
    with warnings.catch_warnings(record=True) as w:
        warnings.simplefilter("always")
        try:
            return fn(), [str(x.message) for x in w], None
        except Exception as e:
            return None, [str(x.message) for x in w], e


def _lenient_vs(ref, c, w, e, route):
    """compare what a lenient route produced with the reference (warned, strict exception, blocks, text)"""
    if e is not None:
        return [("chlog/via-%s/lenient-raises/%s" % (route, type(e).__name__), "no exception", repr(e))]
    if bool(w) != ref[0]:
        return [("chlog/via-%s/warns" % route, "warned: %r" % ref[0], "warnings: %r" % (w,))]
    b = blocks(c)
    if b != ref[2]:
        return [("chlog/via-%s/blocks" % route, ref[2], b)]
    o = _out(c)
    if o != ref[3]:
        return [("chlog/via-%s/text" % route, ref[3], o)]
    return []


def _strict_vs(ref, c, w, e, route):
    from debian.changelog import ChangelogParseError
    if e is not None and not isinstance(e, ChangelogParseError):
        return [("chlog/via-%s/strict-raises-other/%s" % (route, type(e).__name__), "ChangelogParseError or nothing", repr(e))]
    if (e is not None) != ref[0]:
        return [("chlog/via-%s/strict-lenient-disagree/%s" % (route, "strict-only" if e is not None else "lenient-only"),
                 "strict raises <=> lenient warns (lenient warned: %r)" % ref[0], "strict: %r" % (e,))]
    if e is None:
        b = blocks(c)
        if b != ref[2]:
            return [("chlog/via-%s/strict-blocks" % route, ref[2], b)]
        o = _out(c)
        if o != ref[3]:
            return [("chlog/via-%s/strict-text" % route, ref[3], o)]
    return []


def _method(src, aea, how, obj=None, **kw):
    """parse through parse_changelog on obj (default: a fresh empty Changelog); how: lenient | strict | default"""
    from debian.changelog import Changelog
    c = obj if obj is not None else Changelog()
    args = dict(kw, allow_empty_author=aea)
    if how != "default":
        args["strict"] = (how == "strict")

    def go():
        c.parse_changelog(src() if callable(src) else src, **args)
        return c
    return _call(go)


def used_objects(seed):
    """(name, maker of a Changelog that has already been used)"""
    from debian.changelog import Changelog
    s = shapes(seed)
    H, H2, T, CH = s[0], s[1], s[5], s[10]
    two = "\n".join([H, CH, T, "", H2, "", CH, "", T]) + "\n"
    warned = "\n".join(["junk", "", H2, CH]) + "\n"
    aborted = "\n".join(["", H, CH, T, "junk", H2]) + "\n"

    def mk_parsed(text):
        def mk():
            return _call(lambda: Changelog(text))[0]
        return mk

    def mk_aborted():
        c = Changelog()
        _call(lambda: c.parse_changelog(aborted, strict=True))
        return c

    def mk_built():
        c = Changelog()
        c.new_block(**copy.deepcopy(OPS[2][1]))
        c.add_change("  * x")
        return c
    return [("after-parse", mk_parsed(two)), ("after-warned-parse", mk_parsed(warned)),
            ("after-aborted-strict-parse", mk_aborted), ("after-building", mk_built)]


def check_parse_routes(text, aea, ref, seed):
    from debian.changelog import Changelog
    # parse_changelog on a fresh object: lenient, strict, and with its own default (strict)
    c, w, e = _method(text, aea, "lenient")
    bad = _lenient_vs(ref, c, w, e, "parse-method")
    if bad:
        return bad
    for how in ("strict", "default"):
        c, w, e = _method(text, aea, how)
        bad = _strict_vs(ref, c, w, e, "parse-method-%s" % how)
        if bad:
            return bad
    # the constructor with every argument spelled out, and positionally
    c, w, e = _call(lambda: Changelog(file=text, max_blocks=None, allow_empty_author=aea, strict=False, encoding="utf-8"))
    bad = _lenient_vs(ref, c, w, e, "ctor-explicit")
    if bad:
        return bad
    c, w, e = _call(lambda: Changelog(text, None, aea, True, "utf-8"))
    bad = _strict_vs(ref, c, w, e, "ctor-positional")
    if bad:
        return bad
    # a second parse on an object that has been used before
    for name, mk in used_objects(seed):
        c, w, e = _method(text, aea, "lenient", obj=mk())
        bad = _lenient_vs(ref, c, w, e, "second-parse/" + name)
        if bad:
            return bad
    obj = Changelog()
    _method(text, aea, "lenient", obj=obj)
    c, w, e = _method(text, aea, "lenient", obj=obj)
    bad = _lenient_vs(ref, c, w, e, "second-parse/same-text-twice")
    if bad:
        return bad
    c, w, e = _method(text, aea, "strict", obj=used_objects(seed)[0][1]())
    bad = _strict_vs(ref, c, w, e, "second-parse-strict/after-parse")
    if bad:
        return bad
    return []


def check_max_blocks(text, aea, ref, c0):
    from debian.changelog import Changelog, ChangelogCreateError
    # parsing stops when heading k+1 is met where a heading is expected; a block without a package is the one the
    # parser appends at the end of a text in which it never found a heading
    n = sum(1 for b in ref[2] if b[0] is not None)
    for k in (0, 1, 2, BIG):
        c, w, e = _call(lambda: Changelog(text, max_blocks=k, allow_empty_author=aea))
        route = "max-blocks-%s" % ("big" if k == BIG else k)
        if e is not None:
            return [("chlog/via-%s/lenient-raises/%s" % (route, type(e).__name__), "no exception", repr(e))]
        c2, _w2, e2 = _call(lambda: Changelog(text, max_blocks=k, allow_empty_author=aea, strict=True))
        if k >= n:
            bad = _lenient_vs(ref, c, w, e, route) or _strict_vs(ref, c2, _w2, e2, route)
            if bad:
                return bad
            continue
        # stopped at heading k+1: the first k blocks of the unlimited result
        bad = _strict_vs((bool(w), None, blocks(c), _out(c)), c2, _w2, e2, route)
        if bad:
            return bad
        if blocks(c) != ref[2][:k]:
            return [("chlog/via-%s/blocks" % route, ref[2][:k], blocks(c))]
        if ref[0] is False and w:
            return [("chlog/via-%s/warns" % route, "no warning (the whole text parses without one)", w)]
        try:
            exp = "".join(l + "\n" for l in c0.initial_blank_lines) + "".join(str(b) for b in list(c0)[:k])
        except ChangelogCreateError:
            exp = "<unformattable>"
        if _out(c) != exp:
            return [("chlog/via-%s/text" % route, exp, _out(c))]
        if k:
            # (k = 0 leaves only the lines ahead of the first heading; parsing those alone ends in the block the parser
            # appends at an unexpected end of text, so that text is no changelog and the statement is silent about it)
            bad, _oc = normal_form(c, aea, "via-" + route)
            if bad:
                return bad
    return []


def check_encodings(text, aea):
    """bytes in another encoding, with the encoding named at the constructor or at the call"""
    from debian.changelog import Changelog
    t = text.replace("change", "changé").replace("junk", "jünk")
    if not t.strip():
        return []
    ref = fingerprint(t, aea)
    if ref[0] == "lenient-raises":
        return []
    for enc in ("latin-1", "utf-8"):
        try:
            b = t.encode(enc)
        except UnicodeEncodeError:
            continue
        lines = t.splitlines(True)
        srcs = [("bytes", lambda: b), ("bytes-lines", lambda: b.splitlines(True)),
                ("mixed-lines", lambda: [l.encode(enc) if i % 2 else l for i, l in enumerate(lines)]),
                ("bytesio", lambda: io.BytesIO(b))]
        for name, mk in srcs:
            route = "encoding-%s/%s" % (enc, name)
            c, w, e = _call(lambda: Changelog(mk(), allow_empty_author=aea, encoding=enc))
            bad = _lenient_vs(ref, c, w, e, route)
            if bad:
                return bad
            if name == "bytes":
                c2, w2, e2 = _call(lambda: Changelog(mk(), allow_empty_author=aea, encoding=enc, strict=True))
                bad = _strict_vs(ref, c2, w2, e2, route)
                if bad:
                    return bad
                if not ref[3].startswith("<"):
                    got = _call(lambda: bytes(c))
                    if got[2] is not None or got[0] != ref[3].encode(enc):
                        return [("chlog/via-%s/bytes()" % route, ref[3].encode(enc), got[2] or got[0])]
            # the encoding given to parse_changelog overrides the one of the object
            c3, w3, e3 = _method(mk, aea, "lenient", obj=Changelog(encoding="ascii"), encoding=enc)
            bad = _lenient_vs(ref, c3, w3, e3, "call-" + route)
            if bad:
                return bad
    return []


def check_files(text, aea, ref):
    from debian.changelog import Changelog
    if not text.strip():
        return []
    d = tempfile.mkdtemp(prefix="c15-", dir="/dev/shm" if os.path.isdir("/dev/shm") else None)
    path = os.path.join(d, "changelog")
    try:
        with open(path, "w", encoding="utf-8", newline="\n") as f:
            f.write(text)
        for name, mode, kw in (("file-text", "r", {"encoding": "utf-8"}), ("file-binary", "rb", {})):
            for strict in (False, True):
                with open(path, mode, **kw) as f:
                    c, w, e = _call(lambda: Changelog(f, allow_empty_author=aea, strict=strict))
                bad = (_strict_vs if strict else _lenient_vs)(ref, c, w, e, name)
                if bad:
                    return bad
        # and out again through a real file
        if not ref[3].startswith("<"):
            c = _call(lambda: Changelog(text, allow_empty_author=aea))[0]
            out = os.path.join(d, "out")
            with open(out, "w", encoding="utf-8", newline="\n") as f:
                r = _call(lambda: c.write_to_open_file(f))
            got = open(out, encoding="utf-8", newline="\n").read() if r[2] is None else r[2]
            if got != ref[3]:
                return [("chlog/via-write-to-real-file/text", ref[3], got)]
    finally:
        for n in os.listdir(d):
            os.unlink(os.path.join(d, n))
        os.rmdir(d)
    return []


def _cce_or(fn):
    """-> value | '<unformattable>' | '<raises X>'"""
    from debian.changelog import ChangelogCreateError
    try:
        return fn()
    except ChangelogCreateError:
        return "<unformattable>"
    except Exception as ex:
        return "<raises %s: %s>" % (type(ex).__name__, ex)


def check_format_routes(c0, ref, enc="utf-8"):
    """every way of getting the text out of one object gives what str() gave"""
    s = ref[3]
    if s.startswith("<str raises"):
        return []
    sb = s.encode(enc) if not s.startswith("<") else s

    def via_file():
        f = io.StringIO()
        c0.write_to_open_file(f)
        return f.getvalue()
    routes = [("str-again", lambda: str(c0), s),
              ("bytes", lambda: bytes(c0), sb),
              ("write-to-open-file", via_file, s),
              ("block-str", lambda: "".join(l + "\n" for l in c0.initial_blank_lines) + "".join(str(b) for b in c0), s),
              ("block-bytes", lambda: "".join(l + "\n" for l in c0.initial_blank_lines).encode(enc) + b"".join(bytes(b) for b in c0), sb),
              ("index-block-str", lambda: "".join(l + "\n" for l in c0.initial_blank_lines) + "".join(str(c0[i]) for i in range(len(c0))), s),
              ("copy", lambda: str(copy.copy(c0)), s),
              ("deepcopy", lambda: str(copy.deepcopy(c0)), s),
              ("pickle", lambda: str(pickle.loads(pickle.dumps(c0))), s),
              ("str-after-all", lambda: str(c0), s)]
    for name, fn, exp in routes:
        got = _cce_or(fn)
        if got != exp:
            return [("chlog/via-%s/text" % name, exp, got)]
    # copies have the same blocks, and editing a deep copy leaves the original alone
    for name, mk in (("deepcopy", lambda: copy.deepcopy(c0)), ("pickle", lambda: pickle.loads(pickle.dumps(c0)))):
        c = mk()
        if blocks(c) != ref[2]:
            return [("chlog/via-%s/blocks" % name, ref[2], blocks(c))]
        for b in c:
            b.add_change("  * only in the copy")
            b.package = "copy"
        if len(c) == 0:
            c.initial_blank_lines.append("# only in the copy")
        if blocks(c0) != ref[2] or _out(c0) != s:
            return [("chlog/via-%s/original-changed-by-editing-the-copy" % name, (ref[2], s), (blocks(c0), _out(c0)))]
    return []


def check_read_routes(c0, ref):
    """every way of reading the blocks gives what iteration gave"""
    from debian.debian_support import Version
    bl = list(c0)
    n = len(bl)
    if len(c0) != n:
        return [("chlog/via-len/count", n, len(c0))]
    for i in range(-n, n):
        r = _cce_or(lambda: c0[i])
        if r is not bl[i]:
            return [("chlog/via-index/block", "block #%d: %r" % (i, ref[2][i]), r if isinstance(r, str) else blocks([r]))]
    r = _cce_or(lambda: c0[n])
    if not (isinstance(r, str) and r.startswith("<raises IndexError")):
        return [("chlog/via-index/past-the-end", "IndexError", r if isinstance(r, str) else blocks([r]))]
    if n == 0:
        return []
    top = ref[2][0]
    for name, fn, exp in (("package", lambda: c0.package, top[0]), ("get_package", lambda: c0.get_package(), top[0]),
                          ("distributions", lambda: c0.distributions, top[2]), ("urgency", lambda: c0.urgency, top[3]),
                          ("author", lambda: c0.author, top[5]), ("date", lambda: c0.date, top[6])):
        got = _cce_or(fn)
        if got != exp:
            return [("chlog/via-property/%s" % name, exp, got)]
    raws = [b[1] for b in ref[2]]
    if None in raws:
        # a block that never had a heading: no version at all
        for i, b in enumerate(bl):
            if raws[i] is None and _cce_or(lambda: b.version) is not None:
                return [("chlog/via-block-version/none", None, repr(_cce_or(lambda: b.version)))]
        return []
    vs = []
    for raw in raws:
        try:
            vs.append(Version(raw))
        except ValueError:
            vs.append(None)
    for i, b in enumerate(bl):
        got = _cce_or(lambda: b.version)
        if vs[i] is None:
            if not (isinstance(got, str) and got.startswith("<raises ValueError")):
                return [("chlog/via-block-version/invalid", "ValueError (%r is not a Debian version)" % raws[i], repr(got))]
        elif isinstance(got, str) or str(got) != raws[i] or type(got) is not Version:
            return [("chlog/via-block-version/value", raws[i], repr(got))]
    if vs[0] is not None:
        v0 = vs[0]
        for name, fn, exp in (("version", lambda: str(c0.version), raws[0]), ("get_version", lambda: str(c0.get_version()), raws[0]),
                              ("full_version", lambda: c0.full_version, raws[0]), ("epoch", lambda: c0.epoch, v0.epoch),
                              ("upstream_version", lambda: c0.upstream_version, v0.upstream_version),
                              ("debian_revision", lambda: c0.debian_revision, v0.debian_revision),
                              ("debian_version", lambda: c0.debian_version, v0.debian_revision)):
            got = _cce_or(fn)
            if got != exp:
                return [("chlog/via-property/%s" % name, exp, got)]
    if None not in vs:
        for name, fn in (("versions", lambda: [str(v) for v in c0.versions]), ("get_versions", lambda: [str(v) for v in c0.get_versions()])):
            got = _cce_or(fn)
            if got != raws:
                return [("chlog/via-property/%s" % name, raws, got)]
        for i, raw in enumerate(raws):
            first = min(j for j in range(n) if vs[j] == vs[i])
            for name, key in (("version-text", raw), ("version-object", vs[i])):
                got = _cce_or(lambda: c0[key])
                if got is not bl[first]:
                    return [("chlog/via-index/%s" % name, "block #%d (the first with version %s)" % (first, raw),
                             got if isinstance(got, str) else blocks([got]))]
    return []


def check_routes(text, aea, seed):
    """-> (violations, 0 | (number of route families evaluated, outcome class))"""
    from debian.changelog import Changelog
    c0, w0, e0 = run(text, allow_empty_author=aea)
    if e0 is not None:
        return [], 0                # reported by the constructor pass
    _c, _w, e2 = run(text, allow_empty_author=aea, strict=True)
    ref = (bool(w0), type(e2).__name__ if e2 is not None else None, blocks(c0), _out(c0))
    for fn in (lambda: check_parse_routes(text, aea, ref, seed), lambda: check_max_blocks(text, aea, ref, c0),
               lambda: check_encodings(text, aea), lambda: check_files(text, aea, ref),
               lambda: check_read_routes(c0, ref), lambda: check_format_routes(c0, ref)):
        bad = fn()
        if bad:
            return bad, (1, "")
    return [], (6, "%d-blocks/%s/%s" % (min(len(ref[2]), 3), "warn" if ref[0] else "clean",
                                        "unformattable" if ref[3].startswith("<") else "text"))


def check_none():
    """file=None is 'no text': the constructor parses nothing, parse_changelog reports an empty changelog in both modes"""
    from debian.changelog import Changelog, ChangelogParseError
    c, w, e = _call(lambda: Changelog(None, strict=True))
    if e is not None or w or len(c) != 0 or str(c) != "":
        return [("chlog/via-none/ctor", "an empty changelog, no warning", (w, e))]
    c, w, e = _method(None, False, "lenient")
    c2, w2, e2 = _method(None, False, "strict")
    c3, w3, e3 = _method(None, False, "default")
    if e is not None:
        return [("chlog/via-none/lenient-raises/%s" % type(e).__name__, "no exception", repr(e))]
    if not (bool(w) and isinstance(e2, ChangelogParseError) and isinstance(e3, ChangelogParseError)):
        return [("chlog/via-none/strict-lenient-disagree", "lenient warns, strict raises", (w, e2, e3))]
    return []


# ---------------------------------------------------------------- (b) mutations of well-formed changelogs

def wellformed(seed):
    s = shapes(seed)
    H, H2, T, CH = s[0], s[1], s[5], s[10]
    return [
        [H, "", CH, "", T],
        [H, CH, T, "", H2, "", CH, "    cont", "", T, ""],
        ["", H2, "", CH, "", "  [ N ]", CH, "", T],
    ]


def single_edits(lines, seed, basic=False):
    """basic: insertions of the 21 base shapes, deletions, duplications (the second edit of a pair)"""
    out = []
    sh = shapes(seed) if basic else allshapes(seed)
    for pos in range(len(lines) + 1):
        for k in range(len(sh)):
            out.append(("ins", pos, k))
    for pos in range(len(lines)):
        out.append(("del", pos))
        out.append(("dup", pos))
        if not basic:
            for k in range(len(sh)):
                out.append(("sub", pos, k))
    return out


def apply_edit(lines, e, seed):
    lines = list(lines)
    if e[0] == "ins":
        lines.insert(e[1], allshapes(seed)[e[2]])
    elif e[0] == "del":
        if e[1] < len(lines):
            del lines[e[1]]
    elif e[0] == "dup":
        if e[1] < len(lines):
            lines.insert(e[1], lines[e[1]])
    elif e[0] == "sub":
        if e[1] < len(lines):
            lines[e[1]] = allshapes(seed)[e[2]]
    return lines


# ---------------------------------------------------------------- (c) editing histories

NB = dict(package="np", version="2.0", distributions="experimental", urgency="medium", author="N <n@n>",
          date="Wed, 03 Jan 2024 00:00:00 +0000")
OPS = [("new_block", NB),
       ("new_block", dict(NB, changes=["", "  * nc", ""])),
       ("new_block", dict(NB, changes=["  * nc"], urgency_comment=" (x)", other_pairs={"binary-only": "yes"})),
       ("new_block", {}),
       ("add_change", "  * added"), ("add_change", ""), ("add_change", "    cont"),
       ("set", "version", "3:4-5"), ("set", "package", "zz"), ("set", "distributions", "a b"),
       ("set", "urgency", "critical"), ("set", "author", "Q <q@q>"), ("set", "date", "Thu, 04 Jan 2024 01:02:03 -0500"),
       # the same assignments made on a block object (top block and oldest block) instead of the Changelog
       ("bset", 0, "author", "R <r@r>"), ("bset", 0, "date", "Fri, 05 Jan 2024 01:02:03 +0000"),
       ("bset", -1, "author", "S <s@s>"), ("bset", -1, "date", "Sat, 06 Jan 2024 01:02:03 +0000"),
       ("bset", -1, "distributions", "stable"), ("badd", -1, "  * added to the oldest block"),
       # further attributes of a block object, lines after its trailer, and objects that came into being differently:
       # the changelog parsed again from its own text (on the same object), a deep copy, a pickle round trip
       ("btrail", 0, ""), ("btrail", -1, "# note"), ("bset", 0, "urgency_comment", " (c d)"),
       ("bset", -1, "other_pairs", {"x-k": "v"}), ("bset", -1, "version", "9.9-1"), ("bset", -1, "package", "yy"),
       ("bset", 0, "urgency", "high"), ("reparse",), ("deepcopy",), ("pickle",)]


def bases(seed):
    s = shapes(seed)
    H, H2, T, CH = s[0], s[1], s[5], s[10]
    return ["",
            "\n".join([H, "", CH, "", T]) + "\n",
            "\n".join([H, CH, T, "", H2, "", CH, "", T]) + "\n",
            "\n".join([H, CH]) + "\n",                    # no trailer
            "\n".join([H, CH, " --"]) + "\n"]             # bare trailer (allow_empty_author)


VARIANTS = ["plain", "set-methods", "on-block", "typed-positional", "observed", "base-via-parse-method"]
NB_ORDER = ("package", "version", "distributions", "urgency", "urgency_comment", "changes", "author", "date", "other_pairs")


def _observe(c):
    """read and format everything; -> None | description of an unexpected exception"""
    for fn in (lambda: str(c), lambda: bytes(c), lambda: len(c), lambda: [str(v) for v in c.versions],
               lambda: [(b.package, str(b.version), b.distributions, b.urgency, list(b.changes()), b.author, b.date,
                         str(b), bytes(b)) for b in c],
               lambda: copy.deepcopy(c)):
        r = _cce_or(fn)
        if isinstance(r, str) and r.startswith("<raises"):
            return r
    return None


def run_history(base, hist, variant="plain"):
    """-> (violations, outcome, (blocks, text) at the end)"""
    from debian.changelog import Changelog
    from debian.debian_support import Version
    aea = True
    if base and variant == "base-via-parse-method":
        c, _w, e = _method(base.encode("utf-8"), aea, "lenient")
    elif base:
        c, _w, e = run(base, allow_empty_author=aea)
    else:
        c, e = Changelog(), None
    if e is not None:
        return [("chlog/lenient-raises/%s" % type(e).__name__, "no exception", repr(e))], None, None
    typed = variant == "typed-positional"
    for op in hist:
        op = copy.deepcopy(op)       # the library keeps (and edits in place) the lists it is given
        try:
            if op[0] == "new_block":
                kw = dict(op[1])
                if typed:
                    if kw.get("version") is not None:
                        kw["version"] = Version(kw["version"])
                    c.new_block(*[kw.get(k) for k in NB_ORDER])
                else:
                    c.new_block(**kw)
            elif op[0] == "add_change":
                if variant == "on-block":
                    c[0].add_change(op[1])
                else:
                    c.add_change(op[1])
            elif op[0] == "bset":
                val = Version(op[3]) if typed and op[2] == "version" else op[3]
                setattr(c[op[1]], op[2], val)
            elif op[0] == "badd":
                c[op[1]].add_change(op[2])
            elif op[0] == "btrail":
                b = c[op[1]]
                if b.author is not None and b.date is not None:     # only a block that has its trailer line
                    b.add_trailing_line(op[2])
            elif op[0] == "reparse":
                text = _out(c)
                if not text.startswith("<") and text.strip():
                    _c, _w, e = _method(text, aea, "lenient", obj=c)
                    if e is not None:
                        return [("chlog/edited/reparse-raises/%s" % type(e).__name__, "lenient parse never raises", repr(e))], None, None
            elif op[0] == "deepcopy":
                c = copy.deepcopy(c)
            elif op[0] == "pickle":
                c = pickle.loads(pickle.dumps(c))
            else:
                val = Version(op[2]) if typed and op[1] == "version" else op[2]
                if variant == "set-methods":
                    getattr(c, "set_" + op[1])(val)
                elif variant == "on-block":
                    setattr(c[0], op[1], val)
                else:
                    setattr(c, op[1], val)
        except IndexError as ex:
            if _cce_or(lambda: len(c)) != 0:
                return [("chlog/edited/index-error-with-blocks", "block #%r of %r" % (op[1], _cce_or(lambda: len(c))), repr(ex))], None, None
            return [], "no-block", None          # editing the top block of an empty changelog: not a history
        if variant == "observed":
            r = _observe(c)
            if r is not None:
                return [("chlog/edited/via-observed/reading-raises", "no exception", r)], None, None
    bad, oc = normal_form(c, aea, "edited")
    return bad, oc, (blocks(c), _out(c))


def run_history_all(base, hist):
    """the plain history, then the same history along the other routes -> (violations, outcome, runs)"""
    bad, oc, fp = run_history(base, hist)
    if bad:
        return bad, oc, 1
    for k, variant in enumerate(VARIANTS[1:]):
        bad2, oc2, fp2 = run_history(base, hist, variant)
        if bad2:
            return [(sig.replace("chlog/", "chlog/via-%s/" % variant, 1), e, o) for sig, e, o in bad2], oc, k + 2
        if oc2 != oc or fp2 != fp:
            what = "outcome" if oc2 != oc else "blocks" if fp2[0] != fp[0] else "text"
            return [("chlog/edited/via-%s/%s" % (variant, what), (oc, fp), (oc2, fp2))], oc, k + 2
    return [], oc, len(VARIANTS)


# ---------------------------------------------------------------- ChangeBlock objects built directly, other encodings

def direct_cases():
    return [{"kind": "direct", "args": ki, "encoding": enc} for ki in (0, 1, 2) for enc in ("utf-8", "latin-1")]


def check_direct(ki, enc):
    from debian.changelog import Changelog, ChangeBlock

    def kw():
        d = copy.deepcopy(OPS[ki][1])
        d["author"] = "\u00d1 \u00c9 <n@n>"
        if d.get("changes"):
            d["changes"].insert(1, "  * ch\u00e4ng\u00e9")
        return d
    c = Changelog(encoding=enc)
    c.new_block(**kw())
    s = _out(c)
    if s.startswith("<"):
        return [("chlog/direct/new-block-unformattable", "text", s)]
    sb = s.encode(enc)
    b = ChangeBlock(encoding=enc, **kw())
    k = kw()
    bp = ChangeBlock(*([k.get(n) for n in NB_ORDER] + [enc]))
    c2 = Changelog()
    c2.new_block(encoding=enc, **kw())
    for name, fn, exp in (("block-str", lambda: str(b) + "\n", s), ("block-bytes", lambda: bytes(b) + b"\n", sb),
                          ("positional-block-str", lambda: str(bp) + "\n", s), ("positional-block-bytes", lambda: bytes(bp) + b"\n", sb),
                          ("changelog-bytes", lambda: bytes(c), sb), ("top-block-bytes", lambda: bytes(c[0]), sb),
                          ("top-block-str", lambda: str(c[0]), s),
                          ("new-block-encoding-str", lambda: str(c2), s), ("new-block-encoding-block-bytes", lambda: bytes(c2[0]), sb)):
        got = _cce_or(fn)
        if got != exp:
            return [("chlog/direct/%s/%s" % (enc, name), exp, got)]
    c3, w3, e3 = _call(lambda: Changelog(sb, encoding=enc, strict=True))
    if e3 is not None:
        return [("chlog/direct/%s/reparse-raises/%s" % (enc, type(e3).__name__), "parses in strict mode", repr(e3))]
    if blocks(c3) != blocks(c) or _out(c3) != s or _cce_or(lambda: bytes(c3)) != sb:
        return [("chlog/direct/%s/normal-form" % enc, (blocks(c), s), (blocks(c3), _out(c3)))]
    bad, _oc = normal_form(c, True, "direct")
    return bad


# ---------------------------------------------------------------- beyond the small scope: count ladders, size ladder
# A case is a compact description {"kind": "ladder", "ladder", "arr", "n", ...}; the text is regenerated from it.

LADDER_SMALL = list(range(1, 41))
LADDER_BIG = [63, 64, 65, 100, 127, 128, 129, 255, 256, 257, 999, 1000, 1001]
LADDER_BIGGER = [1025, 2500, 2501, 5000]          # only for the ladders named in LADDER_WIDE (and the thorough tier)
CONTEXTS = ["alone", "in-block", "after-block", "before-first-heading"]
# ladders that are not "n copies of line shape k": (ladder, arrangement)
STRUCT_LADDERS = [("blocks", "well-formed"), ("blocks", "one-space-trailers"), ("blocks", "no-blank-lines"), ("blocks", "last-one-broken"),
                  ("blocks", "last-one-without-trailer"),
                  ("settings", "well-formed"), ("settings", "last-one-repeats-a-key"), ("settings", "last-one-invalid"),
                  ("settings", "first-one-invalid"),
                  ("distributions", "well-formed"), ("change-lines", "kinds-in-turn"),
                  ("blank-lines", "between-blocks"), ("blank-lines", "whitespace-only-in-block")]
LADDER_WIDE = [("blocks", "well-formed"), ("change-lines", "kinds-in-turn"), ("settings", "well-formed")]
EDIT_LADDERS = [("add_change", 4), ("add_change", 5), ("add_change", 6), ("new_block", 0), ("new_block", 1), ("new_block", 3),
                ("add_change-alternating", None), ("new_block-then-add_change", None), ("badd-oldest", 18)]
SIZE_L = [997, 998, 999, 1000, 4095, 4096, 4097, 16383, 16384, 16385, 65535, 65536, 65537, 131071, 131072, 131073, 196608,
          262143, 262144, 262145]
SIZE_VARIANTS = ["well-formed", "junk-at-the-boundaries", "one-space-trailers", "no-final-trailer"]
SIZE_LINE_STYLES = ["change-line-of-L", "heading-of-L", "trailer-of-L", "junk-line-of-L", "one-space-line-of-L", "comment-line-of-L"]
LADDER_FORMS = ("bytes", "lines", "bytesio")


def ladder_counts(tier, wide=False):
    return LADDER_SMALL + LADDER_BIG + (LADDER_BIGGER if wide or tier != "quick" else [])


def ladder_text(case):
    """the text of a ladder / size case"""
    seed = case.get("seed", 0)
    sh = shapes(seed)
    H, H2, T, T1, CH = sh[0], sh[1], sh[5], sh[6], sh[10]
    p = H.split(" ")[0]
    ladder, arr, n = case["ladder"], case["arr"], case["n"]
    if ladder == "repeat":
        rep = [sh[case["shape"]]] * n
        lines = {"alone": rep, "in-block": [H, CH] + rep + [T], "after-block": [H, CH, T] + rep,
                 "before-first-heading": rep + [H, CH, T]}[arr]
    elif ladder == "blocks":
        lines = []
        for i in range(n):
            head = "%s (%d.%d-1) unstable; urgency=low" % (p, n - i, i % 10)
            trailer = T1 if arr == "one-space-trailers" else T
            body = [head, "", "  * change %d" % i, "", trailer, ""]
            if arr == "no-blank-lines":
                body = [head, "  * change %d" % i, trailer]
            if i == n - 1 and arr == "last-one-broken":
                body = [head, "", "  * change %d" % i, "junk", trailer, ""]
            if i == n - 1 and arr == "last-one-without-trailer":
                body = [head, "", "  * change %d" % i]
            lines += body
    elif ladder == "settings":
        pairs = ["k%d=v %d" % (i, i) for i in range(n)]
        if arr == "last-one-repeats-a-key":
            pairs[-1] = "k0=again" if n > 1 else "urgency=high"
        elif arr == "last-one-invalid":
            pairs[-1] = "bad"
        elif arr == "first-one-invalid":
            pairs[0] = "bad"
        lines = ["%s (1.0-1) unstable; urgency=low, %s" % (p, ", ".join(pairs)), "", CH, "", T]
    elif ladder == "distributions":
        lines = ["%s (1.0-1) %s; urgency=low" % (p, " ".join("d-%d" % i for i in range(n))), "", CH, "", T]
    elif ladder == "change-lines":
        kinds = ["  * item", "    cont", "", "   ", "  [ N ]", "# comment"]
        lines = [H] + [kinds[i % 6] + (" %d" % i if i % 6 in (0, 1) else "") for i in range(n)] + [T]
    elif ladder == "blank-lines":
        if arr == "between-blocks":
            lines = [H, CH, T] + [""] * n + [H2, CH, T]
        else:
            lines = [H, CH] + [" " * (1 + i % 3) for i in range(n)] + [CH, T]
    elif ladder == "size":
        return size_text(case)
    else:
        raise ValueError(ladder)
    return "\n".join(lines) + "\n"


def size_text(case):
    """texts of exactly n bytes built like C04's size ladder (blocks of 25 change lines, a line end next to every multiple of
    65 536), well-formed or damaged; or a short text with one line of exactly n characters"""
    from . import c04
    seed, L, arr = case.get("seed", 0), case["n"], case["arr"]
    sh = shapes(seed)
    H, T, T1, CH = sh[0], sh[5], sh[6], sh[10]
    if arr in SIZE_LINE_STYLES:
        if arr in ("change-line-of-L", "heading-of-L", "trailer-of-L"):
            doc = c04.size_doc(c04.comps(seed), L, arr, None)
            return c04.render(doc)[0]
        line = {"junk-line-of-L": c04._filled("junk ", L), "one-space-line-of-L": c04._filled(" one-space ", L),
                "comment-line-of-L": c04._filled("# ", L)}[arr]
        return "\n".join([H, CH, line, CH, T, "", line, ""]) + "\n"
    doc = c04.size_doc(c04.comps(seed), L, "lines", case["where"])
    text = c04.render(doc)[0]
    if arr == "well-formed":
        return text
    lines = text.split("\n")[:-1]
    if arr == "junk-at-the-boundaries":
        # every padded line (the ones whose end was placed) becomes a line of the same length that is no change line
        lines = [("junk" + l[4:]) if (l.startswith("  * lorem") and len(l) != 60) else l for l in lines]
    elif arr == "one-space-trailers":
        lines = [l.replace(">  ", "> ", 1) if l.startswith(" -- ") else l for l in lines]
        lines[1] += "z" * sum(1 for l in lines if l.startswith(" -- "))       # keep the total length
    elif arr == "no-final-trailer":
        pad = len(lines[-1]) + 1
        lines = lines[:-1]
        lines[-1] += "y" * pad
    out = "\n".join(lines) + "\n"
    assert len(out.encode("utf-8")) == L, (case, len(out.encode("utf-8")))
    return out


def check_forms_some(text, aea, names=LADDER_FORMS):
    if not text.strip():
        return []
    ref = fingerprint(text, aea)
    for name, mk in forms(text):
        if name not in names:
            continue
        got = fingerprint(mk, aea)
        if got != ref:
            what = "warns" if got[0] != ref[0] else "strict" if got[1] != ref[1] else "blocks" if got[2] != ref[2] else "text"
            return [("chlog/input-form/%s/%s" % (name, what), ref, got)]
    return []


def ladder_edit_history(case):
    """-> (base text, list of operations) of an edit ladder: n editing calls of one kind"""
    name, n = case["arr"], case["n"]
    op = case.get("op")
    if name == "add_change-alternating":
        hist = [OPS[4 + i % 3] for i in range(n)]
    elif name == "new_block-then-add_change":
        hist = [OPS[(0, 4, 5)[i % 3]] for i in range(n)]
    else:
        hist = [OPS[op]] * n
    return bases(case.get("seed", 0))[case["base"]], hist


def exec_ladder(case):
    """-> (violations with ladder/size signatures, outcome class, parses)"""
    ladder = case["ladder"]
    if ladder == "edit":
        base, hist = ladder_edit_history(case)
        if case["n"] <= 10:
            bad, oc, nruns = run_history_all(base, hist)
        else:
            bad, oc, _fp = run_history(base, hist)
            nruns = 1
        pre = "ladder/edit/%s/" % case["arr"]
        return [(pre + sig, e, o) for sig, e, o in bad], "ladder/edit/%s" % oc, nruns
    text = ladder_text(case)
    bad, oc = check_text(text, case["aea"])
    nparse = 5
    if not bad and case.get("forms"):
        bad = check_forms_some(text, case["aea"])
        nparse += 2 * len(LADDER_FORMS)
    if ladder == "size":
        pre = "size/%s/" % case["arr"]
    elif ladder == "repeat":
        pre = "ladder/repeat/%s/" % case["arr"]
    else:
        pre = "ladder/%s/%s/" % (ladder, case["arr"])
    return [(pre + sig, e, o) for sig, e, o in bad], "%s%s" % (pre.split("/")[0] + "/", oc), nparse


def ladder_cases(u, tier, seed):
    k = u["kind"]
    out = []
    if k == "ladder-repeat":
        big = u["part"] == "big"
        ns = ladder_counts(tier)[40:] if big else LADDER_SMALL
        for arr in (CONTEXTS[1:3] if big and tier == "quick" else CONTEXTS):
            for n in ns:
                for aea in ((False,) if big else (False, True)):
                    out.append({"kind": "ladder", "ladder": "repeat", "arr": arr, "shape": u["shape"], "n": n, "aea": aea, "seed": seed,
                                "forms": n <= 40 or n in (1000, 1001)})
    elif k == "ladder-struct":
        ladder, arr = STRUCT_LADDERS[u["which"]]
        ns = ladder_counts(tier, (ladder, arr) in LADDER_WIDE)
        ns = ns[40:] if u["part"] == "big" else ns[:40]
        for n in ns:
            for aea in ((False, True) if n <= 40 else (False,)):
                out.append({"kind": "ladder", "ladder": ladder, "arr": arr, "n": n, "aea": aea, "seed": seed,
                            "forms": n <= 40 or n in (1000, 1001)})
    elif k == "ladder-edit":
        name, op = EDIT_LADDERS[u["which"]]
        for base in range(len(bases(seed))):
            for n in ladder_counts(tier):
                if tier == "quick" and n > 257 and base not in (0, 2):
                    continue
                out.append({"kind": "ladder", "ladder": "edit", "arr": name, "op": op, "base": base, "n": n, "seed": seed})
    elif k == "size":
        if u["arr"] in SIZE_LINE_STYLES:
            out = [{"kind": "ladder", "ladder": "size", "arr": u["arr"], "n": L, "aea": False, "seed": seed, "forms": True} for L in SIZE_L]
        else:
            out = [{"kind": "ladder", "ladder": "size", "arr": u["arr"], "where": w, "n": L, "aea": False, "seed": seed, "forms": True}
                   for L in SIZE_L for w in ((-1, 0, 1, "mb") if u["arr"] == "well-formed" or tier != "quick" else (0, "mb"))]
    return out


def run_ladder_unit(part, u, tier, seed):
    cases = ladder_cases(u, tier, seed)
    for case in cases:
        bad, oc, nparse = exec_ladder(case)
        part.states += 1
        part.transitions += 1
        part.traces += nparse
        part.evaluations += 1 + bool(case.get("forms"))
        part.outcomes[oc] += 1
        if oc and ("normal" in oc):
            part.nontrivial += 1
        if case["ladder"] != "size":
            part.max_depth = max(part.max_depth, case["n"])
        for sig, exp, obs in bad:
            part.violation(sig, case, exp, obs, rank=1000 + case["n"])
    part.extra["%s cases (beyond the small scope)" % u["kind"]] += len(cases)
    if cases:
        part.sample(cases[0])
        part.sample(cases[-1])
    return part


# ---------------------------------------------------------------- deep, narrow editing histories (hidden state)

DEEP_OPS = [("new_block", dict(NB, changes=["", "  * nc", ""])), ("new_block", {}), ("add_change", "  * added"), ("add_change", ""),
            ("set", "date", "Thu, 04 Jan 2024 01:02:03 -0500"), ("badd", -1, "  * added to the oldest block"), ("reparse",),
            ("fork",), ("swap",)]
DEEP_DEPTH = {"quick": 5, "thorough": 6}
DEEP_BASES = [0, 2]
DEEP_LESS = {0: 1}          # the empty changelog: one level less (half of its histories end at 'no block to edit')


def _snapshot(c):
    return (blocks(c), _out(c))


def run_deep(base, hist):
    """One history over DEEP_OPS.  'fork' leaves the current object behind and goes on with a deep copy of it; 'swap'
    goes on with the object left behind last (and leaves the current one behind).  An object that is left behind may
    not change.  -> (violations, outcome)"""
    from debian.changelog import Changelog
    aea = True
    if base:
        c, _w, e = run(base, allow_empty_author=aea)
        if e is not None:
            return [("chlog/lenient-raises/%s" % type(e).__name__, "no exception", repr(e))], None
    else:
        c = Changelog()
    left = []
    for op in hist:
        op = copy.deepcopy(op)
        try:
            if op[0] == "new_block":
                c.new_block(**op[1])
            elif op[0] == "add_change":
                c.add_change(op[1])
            elif op[0] == "set":
                setattr(c, op[1], op[2])
            elif op[0] == "badd":
                c[op[1]].add_change(op[2])
            elif op[0] == "reparse":
                text = _out(c)
                if not text.startswith("<") and text.strip():
                    _c, _w, e = _method(text, aea, "lenient", obj=c)
                    if e is not None:
                        return [("chlog/deep/reparse-raises/%s" % type(e).__name__, "lenient parse never raises", repr(e))], None
            elif op[0] == "fork":
                left.append((c, _snapshot(c)))
                c = copy.deepcopy(c)
            elif op[0] == "swap":
                if left:
                    other, snap = left.pop()
                    now = _snapshot(other)
                    if now != snap:
                        return [("chlog/deep/object-left-behind-changed", snap, now)], None
                    left.append((c, _snapshot(c)))
                    c = other
        except IndexError as ex:
            if _cce_or(lambda: len(c)) != 0:
                return [("chlog/deep/index-error-with-blocks", "block #%r of %r" % (op[1], _cce_or(lambda: len(c))), repr(ex))], None
            return [], "no-block"
    for other, snap in left:
        now = _snapshot(other)
        if now != snap:
            return [("chlog/deep/object-left-behind-changed", snap, now)], None
    bad, oc = normal_form(c, aea, "deep")
    return bad, oc


def run_deep_unit(part, u, tier, seed):
    depth = DEEP_DEPTH[tier] - DEEP_LESS.get(u["base"], 0)
    base = bases(seed)[u["base"]]
    n = 0
    # the unit without a first pair owns the histories of length 0 and 1, every other unit those that start with its pair
    for L in (range(0, 2) if not u["first"] else range(0, depth - 1)):
        for rest in itertools.product(range(len(DEEP_OPS)), repeat=L):
            hist_i = tuple(u["first"]) + rest
            case = {"kind": "deep", "base": u["base"], "hist": hist_i, "seed": seed}
            bad, oc = run_deep(base, [DEEP_OPS[i] for i in hist_i])
            n += 1
            part.traces += 1
            part.evaluations += 1
            for sig, exp, obs in bad:
                part.violation("deep/" + sig, case, exp, obs, rank=300 + len(hist_i))
            if oc:
                part.outcomes["deep/" + oc] += 1
                if oc == "normal":
                    part.nontrivial += 1
    part.states += n
    part.transitions += n
    part.max_depth = depth
    part.extra["deep-narrow editing histories"] += n
    part.sample(case)
    return part


# ---------------------------------------------------------------- units

def units(tier, seed):
    n = len(shapes(seed))
    out = [{"kind": "seq", "prefix": ()}]
    out += [{"kind": "seq", "prefix": (i, j)} for i in range(n) for j in range(n)]
    for wi in range(3):
        out.append({"kind": "mut1", "w": wi})
    npair = 1 if tier == "quick" else 3
    for wi in range(npair):
        nl = len(wellformed(seed)[wi])
        for pos in range(nl + 1):
            out.append({"kind": "mut2", "w": wi, "pos": pos})
    for bi in range(len(bases(seed))):
        for oi in range(len(OPS)):
            out.append({"kind": "edit", "base": bi, "first": oi})
    # every short text once more with the library in the state it has right after import (mc/zygote.py): a text's
    # verdict must not depend on what the process parsed before
    out.append({"kind": "pristine-seq", "first": None})
    out += [{"kind": "pristine-seq", "first": i} for i in range(n)]
    out += [{"kind": "pristine-mut", "w": wi} for wi in range(3)]
    # (d) the other routes
    out.append({"kind": "routes-seq", "first": None})
    out += [{"kind": "routes-seq", "first": i} for i in range(n)]
    for wi in range(3):
        out += [{"kind": "routes-mut", "w": wi, "pos": pos} for pos in range(len(wellformed(seed)[wi]) + 1)]
    out.append({"kind": "direct"})
    # beyond the small scope
    out += [{"kind": "ladder-repeat", "shape": k, "part": part} for k in range(n) for part in ("small", "big")]
    out += [{"kind": "ladder-struct", "which": i, "part": part} for i in range(len(STRUCT_LADDERS)) for part in ("small", "big")]
    out += [{"kind": "ladder-edit", "which": i} for i in range(len(EDIT_LADDERS))]
    out += [{"kind": "size", "arr": a} for a in SIZE_VARIANTS + SIZE_LINE_STYLES]
    out += [{"kind": "deep", "base": b, "first": ()} for b in DEEP_BASES]
    out += [{"kind": "deep", "base": b, "first": (i, j)} for b in DEEP_BASES for i in range(len(DEEP_OPS)) for j in range(len(DEEP_OPS))]
    return out


def unit_cost(u, tier):
    if u["kind"].startswith("ladder") or u["kind"] == "size":
        return 9 if u.get("part") == "big" or u["kind"] == "size" else 4
    if u["kind"] == "deep":
        return 5
    return {"seq": 10 if u.get("prefix") else 1, "mut1": 3, "mut2": 8, "edit": 9, "pristine-seq": 12,
            "pristine-mut": 6, "routes-seq": 2 if tier == "quick" else 11, "routes-mut": 3, "direct": 1}[u["kind"]]


def run_unit(u, tier, seed):
    part = core.Part()
    sh = shapes(seed)
    if u["kind"].startswith("ladder") or u["kind"] == "size":
        return run_ladder_unit(part, u, tier, seed)
    if u["kind"] == "deep":
        return run_deep_unit(part, u, tier, seed)
    if u["kind"] == "seq":
        n = 4 if tier == "quick" else 5
        if not u["prefix"]:
            seqs = [()] + [(i,) for i in range(len(sh))]
            texts = [("text", ""), ("text", " \n"), ("text", "\n\n")]
        else:
            seqs = []
            texts = []
            for L in range(0, n - 1):
                for rest in itertools.product(range(len(sh)), repeat=L):
                    seqs.append(u["prefix"] + rest)
        for seq in seqs:
            part.states += 1
            part.transitions += 1
            text = "\n".join(sh[i] for i in seq) + "\n" if seq else ""
            for aea in (False, True):
                case = {"kind": "seq", "seq": seq, "aea": aea, "seed": seed}
                bad, oc = check_text(text, aea)
                part.traces += 1
                part.evaluations += 1
                if not bad and len(seq) <= FORMS_MAXLEN[tier]:
                    bad = check_forms(text, aea)
                    part.evaluations += 1
                    case = dict(case, forms=True)
                for sig, exp, obs in bad:
                    part.violation(sig, case, exp, obs, rank=len(seq))
                if oc:
                    part.outcomes[oc] += 1
                    if oc.endswith("/normal") and aea:
                        part.nontrivial += 1
            if len(seq) == 4 and seq[2] == 10:
                part.sample({"kind": "seq", "seq": seq, "aea": False})
        for _k, text in texts:
            for aea in (False, True):
                case = {"kind": "text", "text": text, "aea": aea}
                bad, oc = check_text(text, aea)
                part.traces += 1
                part.evaluations += 1
                for sig, exp, obs in bad:
                    part.violation(sig, case, exp, obs, rank=0)
        part.max_depth = n
    elif u["kind"] in ("mut1", "mut2"):
        base = wellformed(seed)[u["w"]]
        if u["kind"] == "mut1":
            edit_lists = [[e] for e in single_edits(base, seed)]
        else:
            firsts = [e for e in single_edits(base, seed) if e[1] == u["pos"]]
            edit_lists = []
            for e1 in firsts:
                l1 = apply_edit(base, e1, seed)
                for e2 in single_edits(l1, seed, basic=True):
                    edit_lists.append([e1, e2])
        for edits in edit_lists:
            lines = base
            for e in edits:
                lines = apply_edit(lines, e, seed)
            text = "\n".join(lines) + "\n"
            part.states += 1
            part.transitions += 1
            for aea in (False, True):
                case = {"kind": "mut", "w": u["w"], "edits": edits, "aea": aea, "seed": seed}
                bad, oc = check_text(text, aea)
                part.traces += 1
                part.evaluations += 1
                for sig, exp, obs in bad:
                    part.violation(sig, case, exp, obs, rank=100 + len(edits))
                if oc:
                    part.outcomes["mut/" + oc] += 1
                    if aea:
                        part.nontrivial += 1
        part.sample({"kind": "mut", "w": u["w"], "edits": edit_lists[len(edit_lists) // 2], "aea": True})
    elif u["kind"].startswith("pristine"):
        from ..pristine import Pristine
        if u["kind"] == "pristine-seq":
            n = 3 if tier == "quick" else 4
            if u["first"] is None:
                seqs = [()]
            else:
                seqs = [(u["first"],) + rest for L in range(0, n) for rest in itertools.product(range(len(sh)), repeat=L)]
            cases = [{"kind": "seq", "seq": q, "aea": aea, "seed": seed} for q in seqs for aea in (False, True)]
        else:
            base = wellformed(seed)[u["w"]]
            cases = [{"kind": "mut", "w": u["w"], "edits": [e], "aea": aea, "seed": seed}
                     for e in single_edits(base, seed) for aea in (False, True)]
        P = Pristine(ID)
        try:
            for case in cases:
                bad = P.replay(case)
                part.states += 1
                part.transitions += 1
                part.traces += 1
                part.evaluations += 1
                part.nontrivial += 1
                for sig, exp, obs in bad:
                    part.violation(sig, case, exp, obs, rank=len(case.get("seq", ())) + 100 * len(case.get("edits", ())))
                part.outcomes["pristine/" + ("violation" if bad else "ok")] += 1
        finally:
            P.close()
        part.sample(cases[len(cases) // 2])
    elif u["kind"] in ("routes-seq", "routes-mut"):
        if u["kind"] == "routes-seq":
            n = ROUTES_MAXLEN[tier]
            if u["first"] is None:
                seqs = [()]
                bad = check_none()
                part.traces += 4
                part.evaluations += 1
                for sig, exp, obs in bad:
                    part.violation(sig, {"kind": "routes-none"}, exp, obs, rank=0)
            else:
                seqs = [(u["first"],) + rest for L in range(0, n) for rest in itertools.product(range(len(sh)), repeat=L)]
            cases = [{"kind": "routes-seq", "seq": q, "aea": aea, "seed": seed} for q in seqs for aea in (False, True)]
            part.max_depth = n
        else:
            base = wellformed(seed)[u["w"]]
            cases = [{"kind": "routes-mut", "w": u["w"], "edits": [e], "aea": aea, "seed": seed}
                     for e in single_edits(base, seed) if e[1] == u["pos"] for aea in (False, True)]
        for case in cases:
            n0 = NCALLS[0]
            bad, nroutes = check_routes(case_text(case), case["aea"], seed)
            part.states += 1
            part.transitions += 1
            part.traces += NCALLS[0] - n0       # parses executed along the routes (formatting/reading routes not counted)
            part.evaluations += nroutes[0] if nroutes else 0
            if nroutes and nroutes[0] == 6:
                part.nontrivial += 1
            for sig, exp, obs in bad:
                part.violation(sig, case, exp, obs, rank=len(case.get("seq", ())) + 100 * len(case.get("edits", ())))
            part.outcomes["routes/" + ("violation" if bad else "skipped" if not nroutes else "agree/" + nroutes[1])] += 1
        if cases:
            part.sample(cases[len(cases) // 2])
    elif u["kind"] == "direct":
        for case in direct_cases():
            bad = check_direct(case["args"], case["encoding"])
            part.states += 1
            part.transitions += 1
            part.traces += 1
            part.evaluations += 10
            part.nontrivial += 1
            for sig, exp, obs in bad:
                part.violation(sig, case, exp, obs, rank=150)
            part.outcomes["direct/" + ("violation" if bad else "agree")] += 1
        part.sample(direct_cases()[-1])
    else:
        depth = 2 if tier == "quick" else 3
        base = bases(seed)[u["base"]]
        for L in range(0, depth):
            for rest in itertools.product(range(len(OPS)), repeat=L):
                hist_i = (u["first"],) + rest
                hist = [OPS[i] for i in hist_i]
                case = {"kind": "edit", "base": u["base"], "hist": hist_i, "seed": seed}
                bad, oc, nruns = run_history_all(base, hist)
                part.states += 1
                part.transitions += 1
                part.traces += nruns
                part.evaluations += nruns
                for sig, exp, obs in bad:
                    part.violation(sig, case, exp, obs, rank=200 + len(hist))
                if oc:
                    part.outcomes["edit/" + oc] += 1
                    if oc == "normal":
                        part.nontrivial += 1
        part.sample({"kind": "edit", "base": u["base"], "hist": (u["first"], 4)})
        part.max_depth = depth
    return part


def case_text(case):
    seed = case.get("seed", 0)
    if "seq" in case:
        sh = shapes(seed)
        return "\n".join(sh[i] for i in case["seq"]) + "\n" if case["seq"] else ""
    lines = wellformed(seed)[case["w"]]
    for e in case["edits"]:
        lines = apply_edit(lines, tuple(e), seed)
    return "\n".join(lines) + "\n"


def replay(case):
    seed = case.get("seed", 0)
    sh = shapes(seed)
    if case["kind"] == "ladder":
        return exec_ladder(case)[0]
    if case["kind"] == "deep":
        return [("deep/" + sig, e, o) for sig, e, o in run_deep(bases(seed)[case["base"]], [DEEP_OPS[i] for i in case["hist"]])[0]]
    if case["kind"] in ("routes-seq", "routes-mut"):
        return check_routes(case_text(case), case["aea"], seed)[0]
    if case["kind"] == "routes-none":
        return check_none()
    if case["kind"] == "direct":
        return check_direct(case["args"], case["encoding"])
    if case["kind"] == "seq":
        text = "\n".join(sh[i] for i in case["seq"]) + "\n" if case["seq"] else ""
        bad = check_text(text, case["aea"])[0]
        if not bad and case.get("forms"):
            bad = check_forms(text, case["aea"])
        return bad
    if case["kind"] == "text":
        return check_text(case["text"], case["aea"])[0]
    if case["kind"] == "mut":
        lines = wellformed(seed)[case["w"]]
        for e in case["edits"]:
            lines = apply_edit(lines, tuple(e), seed)
        return check_text("\n".join(lines) + "\n", case["aea"])[0]
    return run_history_all(bases(seed)[case["base"]], [OPS[i] for i in case["hist"]])[0]
