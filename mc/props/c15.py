"""C15 - changelog parsing is total and strictness-consistent; output is a normal form (Engine B + A)."""
import itertools
import warnings

from .. import core

ID = "C15"
PRISTINE_IMPORTS = ["debian.changelog"]
LEVEL = "model_checking"
RULE = ("(a) all sequences of <= n lines over 21 line shapes (one per branch of the parser's state machine and one per "
        "_parse_error call site), allow_empty_author on/off; (b) every text obtained from well-formed changelogs by one "
        "or two line insertions/deletions/duplications; (c) all editing histories (new_block, add_change, attribute "
        "assignment) to depth d on the empty and on parsed changelogs.  states = distinct inputs/histories, "
        "transitions = one line or one editing call appended, traces = inputs/histories executed (lenient + strict + "
        "format + re-parse); non-trivial = inputs that produce at least one block")
BUDGET = {"quick": 240, "thorough": 3000}


def bounds(tier):
    return {"line_shapes": len(shapes(0)), "sequence_length": 4 if tier == "quick" else 5,
            "mutations_of_wellformed": "single edits on 3 changelogs + pairs on %s" % ("1" if tier == "quick" else "3"),
            "edit_history_depth": 2 if tier == "quick" else 3, "edit_ops": len(OPS),
            "input_forms": "sequences of length <= %d also as bytes, lists/tuples/generators of lines, StringIO, BytesIO, bytes lines: same warnings/strictness/blocks/text" % FORMS_MAXLEN[tier],
            "pristine_state_pass": "all sequences of length <= %d and all single-line mutations, each evaluated in a process forked from a zygote that only imported the library" % (3 if tier == "quick" else 4)}


def assumptions():
    return ["any warning emitted by the lenient constructor counts as 'a warning'",
            "editing arguments are well-formed values (a change line that is itself a trailer is structure injection)",
            "blocks are compared on package, raw version text, distributions, urgency, changes, author, date"]


def shapes(seed):
    p = core.rep(seed, ["pkg", "lib-x.y+z", "a0", "P"])
    a = core.rep(seed, ["A B <a@b.c>", "É <>", "x y z <q@r>", "A B <a@b.c>"])
    d = core.rep(seed, ["Mon, 01 Jan 2024 00:00:00 +0000", "Thu,  5 Feb 2009 11:22:33 -1200",
                        "1 Jan 2024 0:00:00 +0100", "Mon, 01 Jan 2024 00:00:00 +0000"])
    return [
        "%s (1.0-1) unstable; urgency=low" % p,
        "%s (1.0-2) unstable frozen; urgency=low (HIGH for x), binary-only=yes" % p,
        "%s (1.0-3) unstable; bad" % p,
        "%s (1.0-4) unstable; urgency=low, urgency=high" % p,
        "%s (1.0-5) unstable; urgency=(x)" % p,
        " -- %s  %s" % (a, d),
        " -- %s %s" % (a, d),
        " --",
        " -- %s  garbage" % a,
        "",
        "  * change",
        " one-space",
        "junk",
        "# comment",
        "vim: ts=2",
        "Local variables:",
        "%s (0.1)" % p,
        "$Id: x $",
        "/* c */",
        "Old Changelog:",
        "   ",
    ]


FORMS_MAXLEN = {"quick": 3, "thorough": 4}


def extra_shapes(seed):
    """lines used by the mutation passes only (substituted for / inserted next to the lines of well-formed
    changelogs): unusual but legal spellings"""
    p = core.rep(seed, ["pkg", "lib-x.y+z", "a0", "P"])
    return [
        "%s (1.0-6) unstable; urgency=low, x\u0130d=7" % p,          # a key whose lower() has another length
        "%s (1.0-6) unstable; urgency=low, x\u212ad=7" % p,          # KELVIN SIGN folds to k
        "%s (1.0-6) unstable; urgency=low, Binary-Only=yes, X-b=c" % p,
        "%s (1.0-6) unstable; urgency=LOW (Comment, kept)" % p if False else "%s (1.0-6) unstable; urgency=LOW" % p,
        " -- \u00c9 \u0130 <>  Thu,  5 Feb 2009 11:22:33 -1200",
        "  * change with trailing blanks  \t",
        # headings the heading syntax accepts although a part is not what Policy lists: an urgency keyword of one's own,
        # version texts that are no Debian versions (the parser keeps the raw text; nothing asks for a Version)
        "%s (1.0-7) unstable; urgency=bogus" % p,
        "%s (1.2_rc1-1) unstable; urgency=low" % p,
        "%s (a:2024/01/04,1) unstable; urgency=low" % p,
    ]


def allshapes(seed):
    return shapes(seed) + extra_shapes(seed)


def run(text, **kw):
    from debian.changelog import Changelog
    with warnings.catch_warnings(record=True) as w:
        warnings.simplefilter("always")
        try:
            c = Changelog(text, **kw)
            return c, [str(x.message) for x in w], None
        except Exception as e:
            return None, [str(x.message) for x in w], e


ATTRS = ("package", "_raw_version", "distributions", "urgency", "changes", "author", "date")


def blocks(c):
    out = []
    for b in c:
        out.append((b.package, b._raw_version, b.distributions, b.urgency, tuple(b.changes()), b.author, b.date))
    return out


def msg_kind(m):
    m = str(m)
    for k in ("Unexpected line while looking for first heading", "Unexpected line while looking for next heading",
              "Unexpected line while looking for start of change data", "Unexpected line while looking for more change",
              "Found eof where expected", "Invalid key-value pair", "Repeated key-value", "Badly formatted urgency",
              "Badly formatted trailer", "Empty changelog"):
        if m.startswith(k):
            return k.replace(" ", "-")
    return m[:30].replace(" ", "-")


def normal_form(c, aea, tag):
    """-> [] | [(sig, exp, obs)]  for a Changelog object c"""
    from debian.changelog import ChangelogCreateError
    try:
        s = str(c)
    except ChangelogCreateError:
        return [], "unformattable"
    except Exception as e:
        return [("chlog/%s/str-raises/%s" % (tag, type(e).__name__), "text or ChangelogCreateError", repr(e))], None
    c3, _w3, e3 = run(s, allow_empty_author=aea) if s.strip() else (None, [], None)
    if not s.strip():
        # an empty changelog formats to nothing; re-parsing "nothing" is the empty changelog again
        return ([], "empty") if len(c) == 0 else (
            [("chlog/%s/normal-form/blocks-lost" % tag, blocks(c), "empty text")], None)
    if e3 is not None:
        return [("chlog/%s/reparse-raises/%s" % (tag, type(e3).__name__), "lenient parse never raises", repr(e3))], None
    try:
        s3 = str(c3)
    except Exception as e:
        return [("chlog/%s/normal-form/reformat-raises/%s" % (tag, type(e).__name__), s, repr(e))], None
    b1, b3 = blocks(c), blocks(c3)
    if b1 != b3:
        attr = "count"
        if len(b1) == len(b3):
            for x, y in zip(b1, b3):
                for i, a in enumerate(ATTRS):
                    if x[i] != y[i]:
                        attr = a
                        break
                else:
                    continue
                break
        return [("chlog/%s/normal-form/blocks:%s" % (tag, attr), b1, b3)], None
    if s3 != s:
        return [("chlog/%s/normal-form/text" % tag, s, s3)], None
    return [], "normal"


def check_text(text, aea):
    """-> (violations, outcome class)"""
    from debian.changelog import ChangelogParseError
    c, w, e = run(text, allow_empty_author=aea)
    if e is not None:
        return [("chlog/lenient-raises/%s" % type(e).__name__, "no exception", repr(e))], None
    c2, _w2, e2 = run(text, allow_empty_author=aea, strict=True)
    if e2 is not None and not isinstance(e2, ChangelogParseError):
        return [("chlog/strict-raises-other/%s" % type(e2).__name__, "ChangelogParseError or nothing", repr(e2))], None
    if (e2 is not None) != (len(w) > 0):
        kind = msg_kind(w[0]) if w else msg_kind(e2)
        return [("chlog/strict-lenient-disagree/%s/%s" % ("strict-only" if e2 is not None else "lenient-only", kind),
                 "strict raises <=> lenient warns", "strict: %r; lenient warnings: %r" % (e2, w))], None
    bad, oc = normal_form(c, aea, "parsed")
    if bad:
        return bad, None
    if e2 is None:
        bad, _ = normal_form(c2, aea, "strict-parsed")
        if bad:
            return bad, None
    return [], ("%d-blocks/%s/%s" % (min(len(c), 3), "warn" if w else "clean", oc))


# ---------------------------------------------------------------- input forms

def forms(text):
    import io
    b = text.encode("utf-8")
    return [("bytes", lambda: b), ("lines", lambda: text.splitlines()), ("lines-nl", lambda: text.splitlines(True)),
            ("tuple", lambda: tuple(text.splitlines())), ("generator", lambda: (l for l in text.splitlines(True))),
            ("stringio", lambda: io.StringIO(text)), ("bytesio", lambda: io.BytesIO(b)),
            ("bytes-lines", lambda: b.splitlines(True))]


def fingerprint(src, aea):
    """what the statement talks about, for one way of supplying the text"""
    from debian.changelog import ChangelogCreateError
    c, w, e = run(src() if callable(src) else src, allow_empty_author=aea)
    if e is not None:
        return ("lenient-raises", type(e).__name__)
    _c2, _w2, e2 = run(src() if callable(src) else src, allow_empty_author=aea, strict=True)
    try:
        out = str(c)
    except ChangelogCreateError:
        out = "<unformattable>"
    except Exception as ex:
        out = "<str raises %s>" % type(ex).__name__
    return (bool(w), type(e2).__name__ if e2 is not None else None, blocks(c), out)


def check_forms(text, aea):
    """the same text supplied in the other documented forms gives the same changelog"""
    if not text.strip():
        return []           # an empty text is reported differently per form ('Empty changelog file' / 'Found eof')
    ref = fingerprint(text, aea)
    for name, mk in forms(text):
        got = fingerprint(mk, aea)
        if got != ref:
            what = "warns" if got[0] != ref[0] else "strict" if got[1] != ref[1] else "blocks" if got[2] != ref[2] else "text"
            return [("chlog/input-form/%s/%s" % (name, what), ref, got)]
    return []


# ---------------------------------------------------------------- (b) mutations of well-formed changelogs

def wellformed(seed):
    s = shapes(seed)
    H, H2, T, CH = s[0], s[1], s[5], s[10]
    return [
        [H, "", CH, "", T],
        [H, CH, T, "", H2, "", CH, "    cont", "", T, ""],
        ["", H2, "", CH, "", "  [ N ]", CH, "", T],
    ]


def single_edits(lines, seed, basic=False):
    """basic: insertions of the 21 base shapes, deletions, duplications (the second edit of a pair)"""
    out = []
    sh = shapes(seed) if basic else allshapes(seed)
    for pos in range(len(lines) + 1):
        for k in range(len(sh)):
            out.append(("ins", pos, k))
    for pos in range(len(lines)):
        out.append(("del", pos))
        out.append(("dup", pos))
        if not basic:
            for k in range(len(sh)):
                out.append(("sub", pos, k))
    return out


def apply_edit(lines, e, seed):
    lines = list(lines)
    if e[0] == "ins":
        lines.insert(e[1], allshapes(seed)[e[2]])
    elif e[0] == "del":
        if e[1] < len(lines):
            del lines[e[1]]
    elif e[0] == "dup":
        if e[1] < len(lines):
            lines.insert(e[1], lines[e[1]])
    elif e[0] == "sub":
        if e[1] < len(lines):
            lines[e[1]] = allshapes(seed)[e[2]]
    return lines


# ---------------------------------------------------------------- (c) editing histories

NB = dict(package="np", version="2.0", distributions="experimental", urgency="medium", author="N <n@n>",
          date="Wed, 03 Jan 2024 00:00:00 +0000")
OPS = [("new_block", NB),
       ("new_block", dict(NB, changes=["", "  * nc", ""])),
       ("new_block", dict(NB, changes=["  * nc"], urgency_comment=" (x)", other_pairs={"binary-only": "yes"})),
       ("new_block", {}),
       ("add_change", "  * added"), ("add_change", ""), ("add_change", "    cont"),
       ("set", "version", "3:4-5"), ("set", "package", "zz"), ("set", "distributions", "a b"),
       ("set", "urgency", "critical"), ("set", "author", "Q <q@q>"), ("set", "date", "Thu, 04 Jan 2024 01:02:03 -0500"),
       # the same assignments made on a block object (top block and oldest block) instead of the Changelog
       ("bset", 0, "author", "R <r@r>"), ("bset", 0, "date", "Fri, 05 Jan 2024 01:02:03 +0000"),
       ("bset", -1, "author", "S <s@s>"), ("bset", -1, "date", "Sat, 06 Jan 2024 01:02:03 +0000"),
       ("bset", -1, "distributions", "stable"), ("badd", -1, "  * added to the oldest block")]


def bases(seed):
    s = shapes(seed)
    H, H2, T, CH = s[0], s[1], s[5], s[10]
    return ["",
            "\n".join([H, "", CH, "", T]) + "\n",
            "\n".join([H, CH, T, "", H2, "", CH, "", T]) + "\n",
            "\n".join([H, CH]) + "\n",                    # no trailer
            "\n".join([H, CH, " --"]) + "\n"]             # bare trailer (allow_empty_author)


def run_history(base, hist):
    """-> (violations, outcome)"""
    from debian.changelog import Changelog
    aea = True
    if base:
        c, _w, e = run(base, allow_empty_author=aea)
        if e is not None:
            return [("chlog/lenient-raises/%s" % type(e).__name__, "no exception", repr(e))], None
    else:
        c = Changelog()
    for op in hist:
        try:
            if op[0] == "new_block":
                c.new_block(**dict(op[1]))
            elif op[0] == "add_change":
                c.add_change(op[1])
            elif op[0] == "bset":
                setattr(c[op[1]], op[2], op[3])
            elif op[0] == "badd":
                c[op[1]].add_change(op[2])
            else:
                setattr(c, op[1], op[2])
        except IndexError:
            return [], "no-block"          # editing the top block of an empty changelog: not a history
    return normal_form(c, aea, "edited")


# ---------------------------------------------------------------- units

def units(tier, seed):
    n = len(shapes(seed))
    out = [{"kind": "seq", "prefix": ()}]
    out += [{"kind": "seq", "prefix": (i, j)} for i in range(n) for j in range(n)]
    for wi in range(3):
        out.append({"kind": "mut1", "w": wi})
    npair = 1 if tier == "quick" else 3
    for wi in range(npair):
        nl = len(wellformed(seed)[wi])
        for pos in range(nl + 1):
            out.append({"kind": "mut2", "w": wi, "pos": pos})
    for bi in range(len(bases(seed))):
        for oi in range(len(OPS)):
            out.append({"kind": "edit", "base": bi, "first": oi})
    # every short text once more with the library in the state it has right after import (mc/zygote.py): a text's
    # verdict must not depend on what the process parsed before
    out.append({"kind": "pristine-seq", "first": None})
    out += [{"kind": "pristine-seq", "first": i} for i in range(n)]
    out += [{"kind": "pristine-mut", "w": wi} for wi in range(3)]
    return out


def unit_cost(u, tier):
    return {"seq": 10 if u.get("prefix") else 1, "mut1": 3, "mut2": 8, "edit": 4, "pristine-seq": 12,
            "pristine-mut": 6}[u["kind"]]


def run_unit(u, tier, seed):
    part = core.Part()
    sh = shapes(seed)
    if u["kind"] == "seq":
        n = 4 if tier == "quick" else 5
        if not u["prefix"]:
            seqs = [()] + [(i,) for i in range(len(sh))]
            texts = [("text", ""), ("text", " \n"), ("text", "\n\n")]
        else:
            seqs = []
            texts = []
            for L in range(0, n - 1):
                for rest in itertools.product(range(len(sh)), repeat=L):
                    seqs.append(u["prefix"] + rest)
        for seq in seqs:
            part.states += 1
            part.transitions += 1
            text = "\n".join(sh[i] for i in seq) + "\n" if seq else ""
            for aea in (False, True):
                case = {"kind": "seq", "seq": seq, "aea": aea, "seed": seed}
                bad, oc = check_text(text, aea)
                part.traces += 1
                part.evaluations += 1
                if not bad and len(seq) <= FORMS_MAXLEN[tier]:
                    bad = check_forms(text, aea)
                    part.evaluations += 1
                    case = dict(case, forms=True)
                for sig, exp, obs in bad:
                    part.violation(sig, case, exp, obs, rank=len(seq))
                if oc:
                    part.outcomes[oc] += 1
                    if oc.endswith("/normal") and aea:
                        part.nontrivial += 1
            if len(seq) == 4 and seq[2] == 10:
                part.sample({"kind": "seq", "seq": seq, "aea": False})
        for _k, text in texts:
            for aea in (False, True):
                case = {"kind": "text", "text": text, "aea": aea}
                bad, oc = check_text(text, aea)
                part.traces += 1
                part.evaluations += 1
                for sig, exp, obs in bad:
                    part.violation(sig, case, exp, obs, rank=0)
        part.max_depth = n
    elif u["kind"] in ("mut1", "mut2"):
        base = wellformed(seed)[u["w"]]
        if u["kind"] == "mut1":
            edit_lists = [[e] for e in single_edits(base, seed)]
        else:
            firsts = [e for e in single_edits(base, seed) if e[1] == u["pos"]]
            edit_lists = []
            for e1 in firsts:
                l1 = apply_edit(base, e1, seed)
                for e2 in single_edits(l1, seed, basic=True):
                    edit_lists.append([e1, e2])
        for edits in edit_lists:
            lines = base
            for e in edits:
                lines = apply_edit(lines, e, seed)
            text = "\n".join(lines) + "\n"
            part.states += 1
            part.transitions += 1
            for aea in (False, True):
                case = {"kind": "mut", "w": u["w"], "edits": edits, "aea": aea, "seed": seed}
                bad, oc = check_text(text, aea)
                part.traces += 1
                part.evaluations += 1
                for sig, exp, obs in bad:
                    part.violation(sig, case, exp, obs, rank=100 + len(edits))
                if oc:
                    part.outcomes["mut/" + oc] += 1
                    if aea:
                        part.nontrivial += 1
        part.sample({"kind": "mut", "w": u["w"], "edits": edit_lists[len(edit_lists) // 2], "aea": True})
    elif u["kind"].startswith("pristine"):
        from ..pristine import Pristine
        if u["kind"] == "pristine-seq":
            n = 3 if tier == "quick" else 4
            if u["first"] is None:
                seqs = [()]
            else:
                seqs = [(u["first"],) + rest for L in range(0, n) for rest in itertools.product(range(len(sh)), repeat=L)]
            cases = [{"kind": "seq", "seq": q, "aea": aea, "seed": seed} for q in seqs for aea in (False, True)]
        else:
            base = wellformed(seed)[u["w"]]
            cases = [{"kind": "mut", "w": u["w"], "edits": [e], "aea": aea, "seed": seed}
                     for e in single_edits(base, seed) for aea in (False, True)]
        P = Pristine(ID)
        try:
            for case in cases:
                bad = P.replay(case)
                part.states += 1
                part.transitions += 1
                part.traces += 1
                part.evaluations += 1
                part.nontrivial += 1
                for sig, exp, obs in bad:
                    part.violation(sig, case, exp, obs, rank=len(case.get("seq", ())) + 100 * len(case.get("edits", ())))
                part.outcomes["pristine/" + ("violation" if bad else "ok")] += 1
        finally:
            P.close()
        part.sample(cases[len(cases) // 2])
    else:
        depth = 2 if tier == "quick" else 3
        base = bases(seed)[u["base"]]
        for L in range(0, depth):
            for rest in itertools.product(range(len(OPS)), repeat=L):
                hist_i = (u["first"],) + rest
                hist = [OPS[i] for i in hist_i]
                case = {"kind": "edit", "base": u["base"], "hist": hist_i, "seed": seed}
                bad, oc = run_history(base, hist)
                part.states += 1
                part.transitions += 1
                part.traces += 1
                part.evaluations += 1
                for sig, exp, obs in bad:
                    part.violation(sig, case, exp, obs, rank=200 + len(hist))
                if oc:
                    part.outcomes["edit/" + oc] += 1
                    if oc == "normal":
                        part.nontrivial += 1
        part.sample({"kind": "edit", "base": u["base"], "hist": (u["first"], 4)})
        part.max_depth = depth
    return part


def replay(case):
    seed = case.get("seed", 0)
    sh = shapes(seed)
    if case["kind"] == "seq":
        text = "\n".join(sh[i] for i in case["seq"]) + "\n" if case["seq"] else ""
        bad = check_text(text, case["aea"])[0]
        if not bad and case.get("forms"):
            bad = check_forms(text, case["aea"])
        return bad
    if case["kind"] == "text":
        return check_text(case["text"], case["aea"])[0]
    if case["kind"] == "mut":
        lines = wellformed(seed)[case["w"]]
        for e in case["edits"]:
            lines = apply_edit(lines, tuple(e), seed)
        return check_text("\n".join(lines) + "\n", case["aea"])[0]
    return run_history(bases(seed)[case["base"]], [OPS[i] for i in case["hist"]])[0]
