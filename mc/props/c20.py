"""C20 - the debtags database keeps its two indexes mutually inverse (Engine A, with a defect model).

State = a pool of up to 3 DB objects + their reference relations.  Reference per object: the two carrier
dictionaries (package -> tags, tag -> packages) as the API defines them, plus an *alias group*: objects the API
documents as sharing tag sets with their source belong to the source's group.  Mutating one object (insert)
makes every other member of its group unspecified (no longer observed, no longer operated on); objects the API
promises to be independent (copy, *_copy, facet_collection results and their sources) must be unaffected.

Known finding (KNOWN_FINDINGS.txt, open): DB.insert stores set((pkg)) - the characters of the name - for a tag
that is new.  The reference is run in two variants, the specification and the specification with exactly that
defect injected; a history is attributed to the known finding only if the implementation agrees with the defect
variant at every step.  Exploration continues behind the defect with the defect variant as the reference.

Routes ("the other way in"): an operation name may carry a route suffix, "<operation>@<route>".  The reference treats
"x@route" exactly as "x"; only the way the implementation is driven differs (camelCase deprecated aliases, pickle /
qwrite+qread / copy.deepcopy as ways of obtaining an independent copy, qread and read(tag_filter=...) as ways of
re-reading into a live object, a DB() that never read anything).  Route operations are offered as the FIRST operation
of a history; everything after them is the ordinary alphabet.

Beyond the small scope: COUNT ladders - for every n in 1..40 and 63 64 65 100 127 128 129 255 256 257 999 1000 1001 1025
(thorough: 2500 2501 5000) a tag file with n packages on one line, n tags for one package, n lines, and an insert of n tags
of which two / half / all are new followed by a second insert carrying ONE of the new tags (every tag is then read, the
sibling new tags included); each file is read with and without tag_filter, from three kinds of line source, through the
module-level readers, and extended by five short histories.  DEEP-NARROW histories: every history of depth 5 (thorough 6)
over a pool of three live objects - insert into any live object (existing tag / new tag), copy, reverse_copy,
filter_tags_copy of any live object - with the whole pool re-observed after every step.  Both reuse the reference
relation, the defect model and the observation above; signatures start with "ladder/<family>/" and "deep/".
"""
import re

from .. import core

ID = "C20"
LEVEL = "model_checking"
RULE = ("states = pools of <= 3 DB objects reached by histories over read/insert/derivation operations (history = "
        "state, rebuilt by replay); transitions = one operation applied to implementation and reference relation; "
        "traces = complete histories replayed; non-trivial = histories whose last step leaves >= 2 specified objects "
        "or touches an object created by an earlier derivation; ladders: one state / trace per (family, n, arrangement, tag "
        "filter, reading or history), transitions = its operations, non-trivial when n >= 4; deep: states / transitions = "
        "histories over the three-object alphabet, traces = the complete ones, non-trivial = two or more specified objects")
BUDGET = {"quick": 240, "thorough": 3000}
KF_SIG = "debtags.insert/new-tag/multichar-name"

PK = ["a", "b", "pp", "qr"]
TAGSETS = [(), ("t",), ("t", "u::x"), ("u::y", "v", "ww::z"), ("a",)]
FILES = [
    [],
    ["a: t, u::x\n", "b: t\n", "pp\n"],
    ["pp, qr: u::x, u::y\n", "a: v, ww::z\n"],
    ["a, b, pp: t\n", "qr:\n"],
    ["a: t, u::x, u::y, v\n"],
    ["b: u::x\n", "qr: u::x, t\n", "a\n"],
    ["a: t\n", "b, pp: t, u::x\n", "qr: u::x\n"],
]
SUBS = [("a",), ("a", "pp", "zz"), ()]
PRED_P = ("a", "pp")

# deprecated camelCase spellings of the derivations and of the query methods (function_deprecated_by wrappers)
ALIAS = {"reverse_copy": "reverseCopy", "facet": "facetCollection", "choose": "choosePackages",
         "choose_copy": "choosePackagesCopy", "fp": "filterPackages", "fpc": "filterPackagesCopy",
         "fpt": "filterPackagesTags", "fptc": "filterPackagesTagsCopy", "ft": "filterTags", "ftc": "filterTagsCopy"}
COPY_ROUTES = ("deepcopy", "pickle", "qwrite-qread")
# starts below which the alias derivations are explored to the full depth
ALIAS_STARTS_QUICK = [(1, False), (2, False), (6, True)]
ALIAS_STARTS_THOROUGH = ALIAS_STARTS_QUICK + [(3, False), (5, True)]
MODULE_ROUTES = ("read_tag_database", "readTagDatabase", "read_tag_database_reversed", "readTagDatabaseReversed",
                 "read_tag_database_both_ways", "readTagDatabaseBothWays", "read_tag_database_both_ways/keyword",
                 "reverse", "parse_tags", "parseTags", "DB.read/positional-filter", "DB.read/two-objects")


def bounds(tier):
    return {"tag_files": len(FILES), "read_with_tag_filter": True, "packages": PK, "tag_subsets": TAGSETS, "pool": 3,
            "depth": 3 if tier == "quick" else 4,
            "insert_alphabet_at_depth_4": "packages a, pp x 3 tag subsets",
            "starts": "DB().read(file[, tag_filter]) for every file; a DB() that never read anything (depth - 1)",
            "route_operations_first_in_a_history": {
                "depth-1 below them": ["copy@deepcopy", "copy@pickle", "copy@qwrite-qread (qwrite, then qread into a new DB)",
                                       "read@qread (a live object re-read from a pickle, files 1 and 6)",
                                       "read@tf (a live object re-read with keyword arguments and a tag_filter)",
                                       "new (a second DB() next to the first)", "choose_copy@iter (one-shot iterator)"],
                "full depth below them": ["%s@alias (%s)" % kv for kv in sorted(ALIAS.items())],
                "starts_for_full_depth": ALIAS_STARTS_THOROUGH if tier != "quick" else ALIAS_STARTS_QUICK},
            "module_level_routes_per_file_and_filter": list(MODULE_ROUTES),
            "read_source_kinds_per_file_and_filter": list(READ_KINDS),
            "query_aliases": "every history that is extended further (length < depth) is also read through hasPackage, "
                             "hasTag, tagsOfPackage, packagesOfTag, packageCount, tagCount, iterPackages, iterTags, "
                             "iterPackagesTags, iterTagsPackages; discriminance(tag) is read at every observation",
            "insert_argument": "the set handed to insert() is changed by the caller right after every insert",
            "beyond_the_small_scope": ladder_bounds(tier)}


def assumptions():
    return ["objects documented as sharing sets with their source are unspecified once the other side is mutated",
            "re-inserting an existing package and the same package on two input lines are outside the domain",
            "dict/set iteration order of the implementation is an environment answer (given to the model)",
            "tag_count/package_count count the keys of the respective index, as the derivations define them",
            "a route suffix (x@alias, copy@pickle, read@qread ...) changes how the implementation is driven, never what "
            "the reference expects: camelCase names are documented pass-through wrappers; deepcopy / pickle / "
            "qwrite+qread of a database give an independent database with the same pairs",
            "ladders and deep histories: the statement bounds neither the packages per line, the tags per package or per insert, "
            "the lines per file nor the length of a history; they stay inside the domain above (distinct package names, no "
            "re-insert); where a ladder history inserts a package with a multi-character name under a new tag (also through "
            "facet_collection) the open known finding applies and is attributed by the defect model exactly as in the small "
            "scope; ladders are exhaustive in n with four or five arrangements per n, the deep histories exhaustive over their "
            "alphabet to the stated depth",
            "discriminance(tag) = min(card, package_count - card) as its docstring defines it",
            "left out: tags_of_packages / packages_of_tags (docstring says 'all', the code computes a union - the "
            "statement names neither), ideal_tagset, correlations, relevance_index_function, dump / dump_reverse / "
            "output (write to stdout; not among the reads, derivations or queries of the statement), non-set "
            "arguments to insert (frozenset has no independent copy()), predicates returning non-bool values"]


def pred_p(p):
    return p in PRED_P


def pred_t(t):
    return t.startswith("u::")


def pred_pt(pt):
    return "t" in pt[1]


def facet(t):
    return re.sub(r"^([^:]+).+", r"\1", t)


class M(object):
    """reference: carrier dictionaries + alias group + specified flag"""
    __slots__ = ("db", "rdb", "group", "ok")

    def __init__(self, db, rdb, group):
        self.db, self.rdb, self.group, self.ok = db, rdb, group, True


def m_rev(db):
    r = {}
    for p, ts in db.items():
        for t in ts:
            r.setdefault(t, set()).add(p)
    return r


def cp(d):
    return {k: set(v) for k, v in d.items()}


def parse_file(lines, tag_filter):
    db = {}
    for l in lines:
        l = l.rstrip("\n")
        if ":" in l:
            ps, ts = l.split(":", 1)
            ts = set(x for x in ts.strip().split(", ") if x)
        else:
            ps, ts = l, set()
        if tag_filter:
            ts = set(t for t in ts if pred_t(t))
        for p in ps.split(", "):
            db[p] = set(ts)
    return db


def m_insert(m, p, ts, defect):
    m.db[p] = set(ts)
    for t in ts:
        if t in m.rdb:
            m.rdb[t].add(p)
        else:
            m.rdb[t] = set(p) if defect else {p}


def ops_for(models, depth_left, tier_small):
    out = []
    for o, m in enumerate(models):
        if not m.ok:
            continue
        pk = PK if not tier_small else ["a", "pp"]
        tsi = range(len(TAGSETS)) if not tier_small else (1, 2, 4)
        for p in pk:
            if p in m.db:
                continue
            for ti in tsi:
                out.append(("insert", o, p, ti))
        for fi in (1, 6):
            out.append(("read", o, fi))
        if len(models) >= 3:
            continue
        for d in ("copy", "reverse", "reverse_copy", "facet", "fp", "fpc", "fpt", "fptc", "ft", "ftc"):
            out.append((d, o))
        for si in range(len(SUBS)):
            out.append(("choose", o, si))
            if si < 2:
                out.append(("choose-iter", o, si))     # the same selection handed over as a one-shot iterator
            if all(p in m.db for p in SUBS[si]):
                out.append(("choose_copy", o, si))
    return out


_gid = [0]


def m_step(models, op, defect, order=None):
    """apply op to the reference pool (in place / appending); a route suffix does not change the meaning"""
    t, _, route = op[0].partition("@")
    m = models[op[1]]
    if t == "insert":
        m_insert(m, op[2], TAGSETS[op[3]], defect)
        for other in models:
            if other is not m and other.group == m.group:
                other.ok = False
        return
    _gid[0] += 1
    new = _gid[0]
    if t == "read":
        # read() rebinds both indexes to fresh dictionaries: the object leaves its alias group, nobody else changes
        m.db = parse_file(FILES[op[2]], route == "tf")
        m.rdb = m_rev(m.db)
        m.group = new
        return
    if t == "new":
        nm = M({}, {}, new)
    elif t == "copy":
        nm = M(cp(m.db), cp(m.rdb), new)
    elif t == "reverse":
        nm = M(m.rdb, m.db, m.group)
    elif t == "reverse_copy":
        nm = M(cp(m.rdb), cp(m.db), new)
    elif t == "facet":
        nm = M({}, {}, new)
        for p in (order if order is not None else list(m.db)):
            m_insert(nm, p, {facet(x) for x in m.db[p]}, defect)
    elif t in ("choose", "choose_copy", "choose-iter"):
        sub = SUBS[op[2]]
        db = {p: (m.db[p] if t != "choose_copy" else set(m.db[p])) for p in sub if p in m.db}
        nm = M(db, m_rev(db), m.group if t != "choose_copy" else new)
    elif t in ("fp", "fpc"):
        db = {p: (m.db[p] if t == "fp" else set(m.db[p])) for p in m.db if pred_p(p)}
        nm = M(db, m_rev(db), m.group if t == "fp" else new)
    elif t in ("fpt", "fptc"):
        db = {p: (m.db[p] if t == "fpt" else set(m.db[p])) for p in m.db if "t" in m.db[p]}
        nm = M(db, m_rev(db), m.group if t == "fpt" else new)
    elif t in ("ft", "ftc"):
        rdb = {tg: (m.rdb[tg] if t == "ft" else set(m.rdb[tg])) for tg in m.rdb if pred_t(tg)}
        nm = M(m_rev(rdb), rdb, m.group if t == "ft" else new)
    else:
        raise AssertionError(op)
    models.append(nm)


def i_step(objs, op):
    import copy
    import io
    import pickle
    from debian.debtags import DB
    t, _, route = op[0].partition("@")
    o = objs[op[1]]
    if t == "insert":
        given = set(TAGSETS[op[3]])
        o.insert(op[2], given)
        # the caller's set is the caller's: what happens to it afterwards is not part of the database
        given.add("zz-late")
        given.discard("t")
        return None
    if t == "read":
        if route == "qread":
            src = DB()
            src.read(iter(FILES[op[2]]))
            buf = io.BytesIO()
            src.qwrite(buf)
            buf.seek(0)
            o.qread(buf)
        elif route == "tf":
            o.read(input_data=iter(FILES[op[2]]), tag_filter=pred_t)
        else:
            o.read(iter(FILES[op[2]]))
        return None
    order = None
    if route == "alias":
        f = getattr(o, ALIAS[t])
        if t == "facet":
            order = [p for p, _ in o.iter_packages_tags()]
            n = f()
        elif t in ("choose", "choose_copy"):
            n = f(SUBS[op[2]])
        else:
            n = f({"fp": pred_p, "fpc": pred_p, "fpt": pred_pt, "fptc": pred_pt, "ft": pred_t, "ftc": pred_t}[t]) \
                if t != "reverse_copy" else f()
    elif t == "new":
        n = DB()
    elif t == "copy" and route == "deepcopy":
        n = copy.deepcopy(o)
    elif t == "copy" and route == "pickle":
        n = pickle.loads(pickle.dumps(o))
    elif t == "copy" and route == "qwrite-qread":
        buf = io.BytesIO()
        o.qwrite(buf)
        buf.seek(0)
        n = DB()
        n.qread(buf)
    elif t == "choose_copy" and route == "iter":
        n = o.choose_packages_copy(iter(SUBS[op[2]]))
    elif t == "copy":
        n = o.copy()
    elif t == "reverse":
        n = o.reverse()
    elif t == "reverse_copy":
        n = o.reverse_copy()
    elif t == "facet":
        order = [p for p, _ in o.iter_packages_tags()]
        n = o.facet_collection()
    elif t == "choose":
        n = o.choose_packages(SUBS[op[2]])
    elif t == "choose-iter":
        n = o.choose_packages(iter(SUBS[op[2]]))
    elif t == "choose_copy":
        n = o.choose_packages_copy(SUBS[op[2]])
    elif t == "fp":
        n = o.filter_packages(pred_p)
    elif t == "fpc":
        n = o.filter_packages_copy(pred_p)
    elif t == "fpt":
        n = o.filter_packages_tags(pred_pt)
    elif t == "fptc":
        n = o.filter_packages_tags_copy(pred_pt)
    elif t == "ft":
        n = o.filter_tags(pred_t)
    elif t == "ftc":
        n = o.filter_tags_copy(pred_t)
    objs.append(n)
    return order


def observe(o, m, strict_inverse):
    """-> None | (what, expected, observed)   for one specified object"""
    if o.db != m.db:
        return ("db", m.db, o.db)
    if o.rdb != m.rdb:
        return ("rdb", m.rdb, o.rdb)
    if strict_inverse:
        keys_p = set(o.db) | {p for ps in o.rdb.values() for p in ps}
        keys_t = set(o.rdb) | {t for ts in o.db.values() for t in ts}
        for p in keys_p:
            for t in keys_t:
                if (t in o.tags_of_package(p)) != (p in o.packages_of_tag(t)):
                    return ("inverse", "%r under %r <=> %r listed for %r" % (p, t, t, p),
                            "tags_of_package=%r packages_of_tag=%r" % (o.tags_of_package(p), o.packages_of_tag(t)))
    for p in list(m.db) + ["zz-absent"]:
        if o.tags_of_package(p) != m.db.get(p, set()):
            return ("query:tags_of_package", m.db.get(p, set()), o.tags_of_package(p))
        if o.has_package(p) != (p in m.db):
            return ("query:has_package", p in m.db, o.has_package(p))
    for t in list(m.rdb) + ["zz-absent"]:
        if o.packages_of_tag(t) != m.rdb.get(t, set()):
            return ("query:packages_of_tag", m.rdb.get(t, set()), o.packages_of_tag(t))
        if o.card(t) != len(m.rdb.get(t, ())):
            return ("query:card", len(m.rdb.get(t, ())), o.card(t))
        if o.has_tag(t) != (t in m.rdb):
            return ("query:has_tag", t in m.rdb, o.has_tag(t))
        n = len(m.rdb.get(t, ()))
        if o.discriminance(t) != min(n, len(m.db) - n):
            return ("query:discriminance", min(n, len(m.db) - n), o.discriminance(t))
    if o.package_count() != len(m.db):
        return ("query:package_count", len(m.db), o.package_count())
    if o.tag_count() != len(m.rdb):
        return ("query:tag_count", len(m.rdb), o.tag_count())
    if set(o.iter_packages()) != set(m.db) or set(o.iter_tags()) != set(m.rdb):
        return ("query:iter", (sorted(m.db), sorted(m.rdb)), (sorted(o.iter_packages()), sorted(o.iter_tags())))
    if dict(o.iter_packages_tags()) != m.db or dict(o.iter_tags_packages()) != m.rdb:
        return ("query:iter_pairs", (m.db, m.rdb), (dict(o.iter_packages_tags()), dict(o.iter_tags_packages())))
    return None


def observe_alias(o, m):
    """the same readings through the deprecated camelCase spellings of the query methods"""
    for p in list(m.db) + ["zz-absent"]:
        if o.tagsOfPackage(p) != m.db.get(p, set()):
            return ("query-alias:tagsOfPackage", m.db.get(p, set()), o.tagsOfPackage(p))
        if o.hasPackage(p) != (p in m.db):
            return ("query-alias:hasPackage", p in m.db, o.hasPackage(p))
    for t in list(m.rdb) + ["zz-absent"]:
        if o.packagesOfTag(t) != m.rdb.get(t, set()):
            return ("query-alias:packagesOfTag", m.rdb.get(t, set()), o.packagesOfTag(t))
        if o.hasTag(t) != (t in m.rdb):
            return ("query-alias:hasTag", t in m.rdb, o.hasTag(t))
    if o.packageCount() != len(m.db):
        return ("query-alias:packageCount", len(m.db), o.packageCount())
    if o.tagCount() != len(m.rdb):
        return ("query-alias:tagCount", len(m.rdb), o.tagCount())
    if set(o.iterPackages()) != set(m.db) or set(o.iterTags()) != set(m.rdb):
        return ("query-alias:iter", (sorted(m.db), sorted(m.rdb)), (sorted(o.iterPackages()), sorted(o.iterTags())))
    if dict(o.iterPackagesTags()) != m.db or dict(o.iterTagsPackages()) != m.rdb:
        return ("query-alias:iter_pairs", (m.db, m.rdb), (dict(o.iterPackagesTags()), dict(o.iterTagsPackages())))
    return None


def build(fi, tag_filter, hist, defect, check_from=0, start="read", alias_obs=False):
    """replay a history on fresh objects.  -> (models, objs, None) or (None, None, (step, what, exp, obs))
    start: "read" = DB().read(FILES[fi]);  "fresh" = a DB() that never read anything (fi must be 0)"""
    from debian.debtags import DB
    d = DB()
    if start == "fresh":
        pass
    elif tag_filter:
        d.read(iter(FILES[fi]), tag_filter=pred_t)
    else:
        d.read(iter(FILES[fi]))
    _gid[0] = 0
    mdb = parse_file(FILES[fi], tag_filter)
    models = [M(mdb, m_rev(mdb), 0)]
    objs = [d]
    if check_from <= 0 or start == "fresh":
        bad = observe(d, models[0], not defect) or ((alias_obs and not hist) and observe_alias(d, models[0])) or None
        if bad:
            return None, None, (-1,) + bad
    for n, op in enumerate(hist):
        try:
            order = i_step(objs, op)
        except Exception as e:
            return None, None, (n, "raises", "no exception", "%s: %r" % (type(e).__name__, e))
        if order is not None and set(order) != set(models[op[1]].db):
            # the object did not hold what the (already validated) prefix leaves behind: state from outside the history
            return None, None, (n, "packages-before-step", sorted(models[op[1]].db), sorted(order))
        m_step(models, op, defect, order)
        if n + 1 >= check_from:
            for o, m in zip(objs, models):
                if not m.ok:
                    continue
                bad = observe(o, m, not defect)
                if not bad and alias_obs and n + 1 == len(hist):
                    bad = observe_alias(o, m)
                if bad:
                    if o is not objs[op[1]] and not (op[0].partition("@")[0] not in ("insert", "read") and o is objs[-1]):
                        bad = ("independent-object-changed/" + bad[0],) + bad[1:]
                    return None, None, (n,) + bad
    return models, objs, None


def judge(fi, tag_filter, hist, check_from=0, start="read", alias_obs=False):
    """-> (verdict, models, detail)  verdict in ok | known | violation"""
    models, objs, bad = build(fi, tag_filter, hist, False, check_from, start, alias_obs)
    if bad is None:
        return "ok", models, None
    models2, _objs2, bad2 = build(fi, tag_filter, hist, True, 0, start, alias_obs)
    if bad2 is None:
        return "known", models2, bad
    # neither variant explains the implementation; report against the variant that got further
    best = bad if bad[0] >= bad2[0] else bad2
    return "violation", None, best


READ_KINDS = ("list", "tuple", "generator", "stringio", "file")


def read_kind(fi, tag_filter, kind):
    import io
    import tempfile
    from debian.debtags import DB
    lines = FILES[fi]
    d = DB()
    tmp = None
    try:
        if kind == "list":
            src = list(lines)
        elif kind == "tuple":
            src = tuple(lines)
        elif kind == "generator":
            src = (l for l in lines)
        elif kind == "stringio":
            src = io.StringIO("".join(lines))
        else:
            tmp = tempfile.TemporaryFile("w+", encoding="utf-8")
            tmp.write("".join(lines))
            tmp.seek(0)
            src = tmp
        try:
            if tag_filter:
                d.read(src, tag_filter=pred_t)
            else:
                d.read(src)
        except Exception as e:
            return ("raises", "read succeeds", "%s: %s" % (type(e).__name__, e))
    finally:
        if tmp is not None:
            tmp.close()
    mdb = parse_file(lines, tag_filter)
    return observe(d, M(mdb, m_rev(mdb), 0), True)


def m_lines(lines):
    """reference for parse_tags: one (packages, tags) pair per line"""
    out = []
    for l in lines:
        l = l.rstrip("\n")
        if ":" in l:
            ps, ts = l.split(":", 1)
            ts = set(x for x in ts.strip().split(", ") if x)
        else:
            ps, ts = l, set()
        out.append((set(ps.split(", ")), ts))
    return out


def module_route(fi, tag_filter, name):
    """the same tag file through the module-level readers, their deprecated spellings, and other ways of calling
    DB.read.  -> None (passes or not applicable) | (what, expected, observed)"""
    import warnings
    from debian import debtags
    lines = FILES[fi]
    mdb = parse_file(lines, tag_filter)
    mrdb = m_rev(mdb)
    flt = pred_t if tag_filter else None
    try:
        with warnings.catch_warnings():
            warnings.simplefilter("ignore")
            if name in ("read_tag_database", "readTagDatabase"):
                if tag_filter:
                    return None
                got = getattr(debtags, name)(l for l in lines)
                return None if got == mdb else ("db", mdb, got)
            if name in ("read_tag_database_reversed", "readTagDatabaseReversed"):
                if tag_filter:
                    return None
                got = getattr(debtags, name)(l for l in lines)
                return None if got == mrdb else ("rdb", mrdb, got)
            if name in ("read_tag_database_both_ways", "readTagDatabaseBothWays", "read_tag_database_both_ways/keyword"):
                if name.endswith("/keyword"):
                    got = debtags.read_tag_database_both_ways(input_data=(l for l in lines), tag_filter=flt)
                elif tag_filter:
                    got = getattr(debtags, name)((l for l in lines), flt)
                else:
                    got = getattr(debtags, name)(l for l in lines)
                if not isinstance(got, tuple) or len(got) != 2:
                    return ("result", "a (db, rdb) pair", got)
                if got[0] != mdb:
                    return ("db", mdb, got[0])
                if got[1] != mrdb:
                    return ("rdb", mrdb, got[1])
                # the two dictionaries are handed to the caller: filling them into a DB must give a sound database
                d = debtags.DB()
                d.db, d.rdb = got
                return observe(d, M(mdb, mrdb, 0), True)
            if name == "reverse":
                got = debtags.reverse(cp(mdb))
                if got != mrdb:
                    return ("rdb", mrdb, got)
                got = debtags.reverse(cp(mrdb))
                return None if got == {p: ts for p, ts in mdb.items() if ts} else ("db", mdb, got)
            if name in ("parse_tags", "parseTags"):
                if tag_filter:
                    return None
                got = [(set(a), set(b)) for a, b in getattr(debtags, name)(l for l in lines)]
                return None if got == m_lines(lines) else ("pairs", m_lines(lines), got)
            if name == "DB.read/positional-filter":
                d = debtags.DB()
                d.read((l for l in lines), flt)
                return observe(d, M(mdb, mrdb, 0), True)
            if name == "DB.read/two-objects":
                # two databases alive at once, read alternately from different files; each judged as if alone
                fj = (fi + 2) % len(FILES)
                odb = parse_file(FILES[fj], False)
                d1, d2 = debtags.DB(), debtags.DB()
                d1.read(iter(lines), tag_filter=flt)
                d2.read(iter(FILES[fj]))
                bad = observe(d1, M(mdb, mrdb, 0), True) or observe(d2, M(odb, m_rev(odb), 0), True)
                if bad:
                    return bad
                d2.read(iter(lines), tag_filter=flt)
                d1.read(iter(FILES[fj]))
                return observe(d2, M(mdb, mrdb, 0), True) or observe(d1, M(odb, m_rev(odb), 0), True)
    except Exception as e:
        return ("raises", "no exception", "%s: %s" % (type(e).__name__, e))
    raise AssertionError(name)


def sig_for(hist, n, what, start):
    """classification of a failing step: the operation, what differs, and - when the history was entered through a
    route operation or from a DB() that never read - that way in"""
    op = hist[n][0] if n >= 0 else start
    way = ""
    if hist and n != 0 and ("@" in hist[0][0] or hist[0][0] == "new"):
        way = "after-%s/" % hist[0][0]
    elif start != "read" and n >= 0:
        way = "from-%s-DB/" % start
    return "debtags/%s%s/%s" % (way, op, what)


def starts():
    out = []
    for fi in range(len(FILES)):
        for tf in (False, True):
            if tf and fi not in (1, 2, 5, 6):
                continue
            out.append((fi, tf, "read"))
    out.append((0, False, "fresh"))
    return out


def route_first_ops(m):
    """-> (cheap, alias): route operations offered as the first operation of a history on the start object"""
    cheap = [("copy@" + r, 0) for r in COPY_ROUTES]
    cheap += [("read@qread", 0, 1), ("read@qread", 0, 6), ("read@tf", 0, 1), ("read@tf", 0, 6), ("new", 0)]
    cheap += [("choose_copy@iter", 0, si) for si in range(len(SUBS)) if all(p in m.db for p in SUBS[si])]
    alias = [(d + "@alias", 0) for d in ("reverse_copy", "facet", "fp", "fpc", "fpt", "fptc", "ft", "ftc")]
    alias += [("choose@alias", 0, si) for si in range(len(SUBS))]
    alias += [("choose_copy@alias", 0, si) for si in range(len(SUBS)) if all(p in m.db for p in SUBS[si])]
    return cheap, alias



# ------------------------------------------------------------------------------------------------ beyond the small scope
# COUNT ladders over the repeatable elements of a tag collection (packages per line, tags per package, tags per insert,
# lines per file) and DEEP-NARROW histories over three live objects.  The machinery above reads its universe (FILES,
# TAGSETS) from module globals; a ladder / deep case generates its own universe from the compact case and installs it for
# the duration of the case (workers and replay children are single-threaded), so the reference relation, the defect
# model and the observation are exactly those of the small scope.

LADDER_NS = list(range(1, 41)) + [63, 64, 65, 100, 127, 128, 129, 255, 256, 257, 999, 1000, 1001, 1025, 2500, 2501, 5000]
LADDER_FAMS = {
    "ladder/packages-per-line": ["one-line", "after-a-short-line", "multichar-names", "no-tags"],
    "ladder/tags-per-package": ["plain", "facets", "two-packages-share", "filtered-half"],
    "ladder/tags-per-insert": ["two-new-sorting-last", "two-new-sorting-first", "all-new", "half-new", "two-new-multichar-package"],
    "ladder/lines-per-file": ["one-package", "two-packages", "every-third-without-tags", "last-line-unterminated"],
}
LADDER_TOP = {"quick": 1025, "thorough": 5000}      # the observation is quadratic (every package x every tag)
LADDER_READ_KINDS = ("list", "generator", "stringio")
LADDER_MODULE_ROUTES = ("read_tag_database", "read_tag_database_reversed", "read_tag_database_both_ways", "parse_tags")
DEEP_PK = ["c", "d", "e", "f", "g", "h", "i"]
DEEP_FILES = [[], ["a: t, u::x\n", "b: t\n"], ["a: t\n"]]
DEEP_TAGSETS = [("t",), ("u::x", "w")]
DEEP_DEPTH = {"quick": 5, "thorough": 6}


class _universe(object):
    """install another universe of tag files and tag sets for the functions above"""

    def __init__(self, files, tagsets):
        self.new = (files, tagsets)

    def __enter__(self):
        g = globals()
        self.old = (g["FILES"], g["TAGSETS"])
        g["FILES"], g["TAGSETS"] = self.new

    def __exit__(self, *a):
        g = globals()
        g["FILES"], g["TAGSETS"] = self.old
        return False


def ladder_bounds(tier):
    return {"counts": "n = 1..40, 63, 64, 65, 100, 127, 128, 129, 255, 256, 257, 999, 1000, 1001, 1025 (every n)%s; with a tag_filter as "
                      "well up to 257 at quick, always at thorough"
                      % ("; 2500, 2501, 5000 in the thorough tier (the complete observation is quadratic)" if tier == "quick" else ", 2500, 2501, 5000"),
            "count_families": dict(LADDER_FAMS),
            "count_meaning": {"ladder/packages-per-line": "a file with one line naming n packages (single-character and longer names, with "
                                                          "and without tags, alone and after a short line)",
                              "ladder/tags-per-package": "a file whose first line gives one package n tags (plain, faceted, shared with a "
                                                         "second package, every second one of the u:: facet kept by the tag filter)",
                              "ladder/tags-per-insert": "a database read from two lines, then insert(c, n tags of which 2 / all / half are new to "
                                                        "the database), then a second insert carrying ONE of the new tags (directly, into a copy, "
                                                        "or after another insert) - the observation reads every tag, the sibling new tags included",
                              "ladder/lines-per-file": "a file of n lines (one or two packages per line, 7 tags in rotation, lines without tags)"},
            "per_ladder_file": "DB.read with and without tag_filter, the line source as %s, the module-level readers %s, and the histories %s"
                               % (LADDER_READ_KINDS, LADDER_MODULE_ROUTES, "copy+insert, insert+reverse_copy, facet, insert(new tag), "
                                                                           "filter_tags_copy+insert"),
            "deep": {"depth": DEEP_DEPTH[tier], "pool": 3, "starts": "DB().read(%r), DB() that never read" % (DEEP_FILES[1],),
                     "alphabet": "for each live object o: insert(o, next unused package of %s, %r), insert(o, ..., %r), and - while fewer than "
                                 "three objects are alive - copy(o), reverse_copy(o), filter_tags_copy(o); every object left behind is "
                                 "re-observed after every step" % (DEEP_PK, DEEP_TAGSETS[0], DEEP_TAGSETS[1])}}


def _names(prefix, n):
    return ["%s%d" % (prefix, i) for i in range(n)]


def ladder_items(fam, n, arr):
    """-> (lines of the tag file, tag sets for insert, histories)"""
    std_tagsets = [("t0",), ("znew",), ("t0", "znew", "u::new")]
    std_hists = [[("copy", 0), ("insert", 1, "z", 1)], [("insert", 0, "z", 0), ("reverse_copy", 0)], [("facet", 0)],
                 [("insert", 0, "z", 2), ("copy", 0), ("insert", 1, "y", 1)], [("ftc", 0), ("insert", 1, "z", 0)]]
    if fam == "ladder/packages-per-line":
        pk = _names("p", n) if arr != "one-line" else [c for c in "abcdefghijklmnopqrstuvwx"[:n]] + _names("p", max(0, n - 24))
        line = ", ".join(pk) + (": t0, u::x, t1\n" if arr != "no-tags" else "\n")
        lines = [line, "last: t0\n"] if arr != "after-a-short-line" else ["first: t1\n", line]
        return lines, std_tagsets, std_hists
    if fam == "ladder/tags-per-package":
        if arr == "facets":
            tags = ["f%d::v%d" % (i % 7, i) for i in range(n)]
        elif arr == "filtered-half":
            tags = [("u::k%d" if i % 2 else "k%d") % i for i in range(n)]
        else:
            tags = _names("t", n)
        lines = ["a: " + ", ".join(tags) + "\n", "b: t0\n" if arr != "two-packages-share" else "b, cc: " + ", ".join(tags[::2]) + "\n"]
        return lines, std_tagsets, std_hists
    if fam == "ladder/lines-per-file":
        lines = []
        for i in range(n):
            ps = "k%d" % i if arr != "two-packages" else "k%d, m%d" % (i, i)
            if arr == "every-third-without-tags" and i % 3 == 2:
                lines.append(ps + "\n")
            else:
                lines.append("%s: t%d, u::x%d, t0\n" % (ps, i % 7, i % 3))
        if arr == "last-line-unterminated":
            lines[-1] = lines[-1][:-1]
        return lines, std_tagsets, std_hists
    if fam == "ladder/tags-per-insert":
        if arr == "all-new":
            old, new = [], _names("n", n)
        elif arr == "half-new":
            old, new = _names("e", n - (n + 1) // 2), _names("n", (n + 1) // 2)
        elif arr == "two-new-sorting-first":
            old, new = _names("e", max(0, n - 2)), ["a-new1", "a-new2"][:n]
        else:
            old, new = _names("e", max(0, n - 2)), ["zz-new1", "zz-new2"][:n]
        lines = ["a: " + ", ".join(old or ["t"]) + "\n", "b: " + (old[0] if old else "t") + "\n"]
        big = tuple(old + new)
        tagsets = [big, (new[0],), (new[-1],), (new[len(new) // 2], old[0] if old else "t")]
        c, d, f = ("c", "d", "f") if arr != "two-new-multichar-package" else ("cc", "dd", "ff")
        hists = [[("insert", 0, c, 0), ("insert", 0, d, 1)],
                 [("insert", 0, c, 0), ("insert", 0, d, 2)],
                 [("insert", 0, c, 0), ("copy", 0), ("insert", 1, d, 3)],
                 [("insert", 0, c, 0), ("insert", 0, d, 2), ("insert", 0, f, 1)],
                 [("copy", 0), ("insert", 1, c, 0), ("insert", 0, d, 1), ("insert", 1, f, 2)]]
        return lines, tagsets, hists
    raise AssertionError(fam)


def run_ladder_case(case):
    """-> [(sig, expected, observed)] - signatures start with the family; the known finding keeps its own signature"""
    fam, n, arr, tf = case["ladder"], case["n"], case["arr"], case["tf"]
    lines, tagsets, hists = ladder_items(fam, n, arr)
    pre = fam + "/"
    with _universe([[], lines], tagsets):
        what = case["what"]
        if what[0] == "read":
            bad = read_kind(1, tf, what[1])
            return [(pre + "debtags/read-%s/%s" % (what[1], bad[0]), core._short(bad[1], 300), core._short(bad[2], 300))] if bad else []
        if what[0] == "module":
            bad = module_route(1, tf, what[1])
            return [(pre + "debtags/via-%s/%s" % (what[1], bad[0]), core._short(bad[1], 300), core._short(bad[2], 300))] if bad else []
        hist = [tuple(op) for op in hists[what[1]]]
        verdict, _m, detail = judge(1, tf, hist, 0, "read", True)
        if verdict == "ok":
            return []
        if verdict == "known":
            return [(KF_SIG, core._short(detail[2], 300), core._short(detail[3], 300))]
        k, w, exp, obs = detail
        return [(pre + sig_for(hist, k, w, "read"), core._short(exp, 300), core._short(obs, 300))]


def _n_class(n):
    return "n<=3" if n <= 3 else "n<=40" if n <= 40 else "n<=257" if n <= 257 else "n<=1025" if n <= 1025 else "n>=2500"


def ladder_ns(tier):
    return [n for n in LADDER_NS if n <= LADDER_TOP[tier]]


def _ladder_unit(part, u, tier):
    fam, arr = u["ladder"], u["arr"]
    last = None
    for n in ladder_ns(tier):
        nh = len(ladder_items(fam, n, arr)[2])
        for tf in ((False, True) if (n <= 257 or tier != "quick") else (False,)):
            whats = [("history", i) for i in range(nh)]
            if fam != "ladder/tags-per-insert":
                whats = [("read", k) for k in LADDER_READ_KINDS] + [("module", r) for r in LADDER_MODULE_ROUTES] + whats
            for what in whats:
                case = {"ladder": fam, "n": n, "arr": arr, "tf": tf, "what": list(what)}
                bad = run_ladder_case(case)
                part.states += 1
                part.transitions += 1 if what[0] != "history" else len(ladder_items(fam, n, arr)[2][what[1]])
                part.traces += 1
                part.evaluations += 1
                known = [b for b in bad if b[0] == KF_SIG]
                part.outcomes["%s %s %s %s: %s" % (fam, arr, _n_class(n), what[0], "behind-known-defect" if known else "VIOLATION" if bad else "agrees")] += 1
                part.extra["ladder cases"] += 1
                if n >= 4:
                    part.nontrivial += 1
                for sig, exp, obs in bad:
                    part.violation(sig, case, exp, obs, rank=n)
                last = case
        part.max_depth = max(part.max_depth, 4)
    part.sample(last)
    return part


# ---- deep-narrow histories: three live objects edited alternately

def deep_ops(models):
    used = set()
    for m in models:
        used |= set(m.db) | set(m.rdb)
    fresh = [p for p in DEEP_PK if p not in used]
    out = []
    for o, m in enumerate(models):
        if not m.ok:
            continue
        if fresh:
            out.append(("insert", o, fresh[0], 0))
            out.append(("insert", o, fresh[0], 1))
        if len(models) < 3:
            out += [("copy", o), ("reverse_copy", o), ("ftc", o)]
    return out


def run_deep_case(case):
    hist = [tuple(op) for op in case["history"]]
    with _universe(DEEP_FILES, DEEP_TAGSETS):
        verdict, _m, detail = judge(case["file"], False, hist, 0, case.get("start", "read"), True)
    if verdict == "ok":
        return []
    if verdict == "known":
        return [(KF_SIG, detail[2], detail[3])]
    k, w, exp, obs = detail
    return [("deep/" + sig_for(hist, k, w, case.get("start", "read")), exp, obs)]


def _deep_unit(part, u, tier):
    depth = DEEP_DEPTH[tier]
    fi, start = u["file"], u.get("start", "read")
    base = {"deep": True, "file": fi}
    if start != "read":
        base["start"] = start

    def rec(hist):
        with _universe(DEEP_FILES, DEEP_TAGSETS):
            # the whole pool is observed after EVERY step of the replay (check_from = 0): an object left behind two steps
            # ago is looked at again each time
            verdict, models, detail = judge(fi, False, hist, 0, start, len(hist) == depth)
        part.transitions += 1
        part.evaluations += 1
        part.states += 1
        case = dict(base, history=[list(op) for op in hist])
        if verdict != "ok":
            for sig, exp, obs in run_deep_case(case):
                part.violation(sig, case, exp, obs, rank=len(hist))
            if verdict == "violation":
                return
        part.outcomes["deep:" + hist[-1][0] + (" pool=%d" % len(models))] += 1
        if sum(1 for m in models if m.ok) >= 2:
            part.nontrivial += 1
        if len(hist) >= depth:
            part.traces += 1
            part.extra["deep histories"] += 1
            return
        with _universe(DEEP_FILES, DEEP_TAGSETS):
            ops = deep_ops(models)
        for op in ops:
            rec(hist + [op])
    rec([tuple(u["first"])])
    part.max_depth = depth
    part.sample(dict(base, history=[list(u["first"]), ["copy", 0], ["insert", 1, "d", 1]]))
    return part


def deep_units():
    out = []
    for fi, start in ((1, "read"), (0, "fresh")):
        mdb = parse_file(DEEP_FILES[fi], False)
        with _universe(DEEP_FILES, DEEP_TAGSETS):
            for op in deep_ops([M(mdb, m_rev(mdb), 0)]):
                u = {"deep": True, "file": fi, "first": list(op)}
                if start != "read":
                    u["start"] = start
                out.append(u)
    return out


def units(tier, seed):
    out = []
    routes = []
    for fi, tf, start in starts():
        mdb = parse_file(FILES[fi], tf)
        models = [M(mdb, m_rev(mdb), 0)]
        # the never-read DB() differs from DB().read([]) only in where its dictionaries come from: one level less
        extra = {} if start == "read" else {"start": start, "less": 1}
        first = True
        for op in ops_for(models, 9, False):
            out.append(dict({"file": fi, "tf": tf, "first": op}, **extra))
            if first and start == "read":
                out[-1]["static"] = True
            first = False
        cheap, alias = route_first_ops(models[0])
        for op in cheap:
            routes.append(dict({"file": fi, "tf": tf, "first": op, "less": 1}, **extra))
        if start == "read" and (fi, tf) in (ALIAS_STARTS_QUICK if tier == "quick" else ALIAS_STARTS_THOROUGH):
            for op in alias:
                routes.append(dict({"file": fi, "tf": tf, "first": op}, **extra))
    ladders = [{"ladder": f, "arr": a} for f in sorted(LADDER_FAMS) for a in LADDER_FAMS[f]]
    return out + routes + ladders + deep_units()


def unit_cost(u, tier):
    if u.get("ladder"):
        return 60
    if u.get("deep"):
        return 80
    return 1 if u.get("less") else 40


def run_unit(u, tier, seed):
    part = core.Part()
    if u.get("ladder"):
        return _ladder_unit(part, u, tier)
    if u.get("deep"):
        return _deep_unit(part, u, tier)
    depth = (3 if tier == "quick" else 4) - u.get("less", 0)
    fi, tf = u["file"], u["tf"]
    start = u.get("start", "read")
    base = {"file": fi, "tag_filter": tf}
    if start != "read":
        base["start"] = start

    def rec(hist, known):
        # histories that are extended further are additionally read through the deprecated query spellings
        verdict, models, detail = judge(fi, tf, hist, check_from=len(hist) if not known else 0, start=start,
                                        alias_obs=len(hist) < depth)
        part.transitions += 1
        part.evaluations += 1
        part.states += 1
        case = dict(base, history=list(hist))
        if verdict == "violation":
            n, what, exp, obs = detail
            part.violation(sig_for(hist, n, what, start), case, exp, obs, rank=len(hist))
            return
        if verdict == "known":
            if not known:
                part.violation(KF_SIG, case, detail[2], detail[3], rank=len(hist))
            part.outcomes["behind-known-defect"] += 1
        else:
            part.outcomes[hist[-1][0]] += 1
        if "@" in hist[0][0] or hist[0][0] == "new" or start != "read":
            part.extra["histories starting with a route operation or from a DB() that never read"] += 1
        if len(hist) < depth:
            part.extra["histories also read through the camelCase query aliases"] += 1
        nspec = sum(1 for m in models if m.ok)
        if nspec >= 2 or hist[-1][1] > 0:
            part.nontrivial += 1
        if len(hist) >= depth:
            part.traces += 1
            return
        small = (tier == "thorough" and len(hist) == depth - 1)
        for op in ops_for(models, depth - len(hist), small):
            rec(hist + [op], known or verdict == "known")

    _m, _o, bad0 = build(fi, tf, [], False, 0, start, True)
    if bad0:
        part.violation("debtags/%s/%s" % (start, bad0[1]), dict(base, history=[]), bad0[2], bad0[3], rank=0)
        return part
    if u.get("static"):
        # once per (file, filter): the module-level readers, their deprecated spellings, other ways of calling read
        for name in MODULE_ROUTES:
            bad = module_route(fi, tf, name)
            part.evaluations += 1
            part.traces += 1
            part.outcomes["via-" + name] += 1
            if bad:
                part.violation("debtags/via-%s/%s" % (name, bad[0]), dict(base, history=[], module_route=name),
                               bad[1], bad[2], rank=0)
        # once per (file, filter): the same lines supplied as the other kinds of line source read() accepts
        for kind in READ_KINDS:
            bad = read_kind(fi, tf, kind)
            part.evaluations += 1
            part.traces += 1
            if bad:
                part.violation("debtags/read-%s/%s" % (kind, bad[0]), dict(base, history=[], read_kind=kind), bad[1], bad[2], rank=0)
    rec([tuple(u["first"])], False)
    part.max_depth = depth
    part.sample(dict(base, history=[tuple(u["first"]), ("copy", 0)]))
    return part


def replay(case):
    if case.get("ladder"):
        return run_ladder_case(case)
    if case.get("deep"):
        return run_deep_case(case)
    if case.get("module_route"):
        bad = module_route(case["file"], case["tag_filter"], case["module_route"])
        return [("debtags/via-%s/%s" % (case["module_route"], bad[0]), bad[1], bad[2])] if bad else []
    if case.get("read_kind"):
        bad = read_kind(case["file"], case["tag_filter"], case["read_kind"])
        return [("debtags/read-%s/%s" % (case["read_kind"], bad[0]), bad[1], bad[2])] if bad else []
    hist = [tuple(op) for op in case["history"]]
    start = case.get("start", "read")
    verdict, _m, detail = judge(case["file"], case["tag_filter"], hist, 0, start, True)
    if verdict == "ok":
        return []
    if verdict == "known":
        return [(KF_SIG, detail[2], detail[3])]
    n, what, exp, obs = detail
    return [(sig_for(hist, n, what, start), exp, obs)]
