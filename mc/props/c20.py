"""C20 - the debtags database keeps its two indexes mutually inverse (Engine A, with a defect model).

State = a pool of up to 3 DB objects + their reference relations.  Reference per object: the two carrier
dictionaries (package -> tags, tag -> packages) as the API defines them, plus an *alias group*: objects the API
documents as sharing tag sets with their source belong to the source's group.  Mutating one object (insert)
makes every other member of its group unspecified (no longer observed, no longer operated on); objects the API
promises to be independent (copy, *_copy, facet_collection results and their sources) must be unaffected.

Known finding (KNOWN_FINDINGS.txt, open): DB.insert stores set((pkg)) - the characters of the name - for a tag
that is new.  The reference is run in two variants, the specification and the specification with exactly that
defect injected; a history is attributed to the known finding only if the implementation agrees with the defect
variant at every step.  Exploration continues behind the defect with the defect variant as the reference.
"""
import re

from .. import core

ID = "C20"
LEVEL = "model_checking"
RULE = ("states = pools of <= 3 DB objects reached by histories over read/insert/derivation operations (history = "
        "state, rebuilt by replay); transitions = one operation applied to implementation and reference relation; "
        "traces = complete histories replayed; non-trivial = histories whose last step leaves >= 2 specified objects "
        "or touches an object created by an earlier derivation")
BUDGET = {"quick": 240, "thorough": 3000}
KF_SIG = "debtags.insert/new-tag/multichar-name"

PK = ["a", "b", "pp", "qr"]
TAGSETS = [(), ("t",), ("t", "u::x"), ("u::y", "v", "ww::z"), ("a",)]
FILES = [
    [],
    ["a: t, u::x\n", "b: t\n", "pp\n"],
    ["pp, qr: u::x, u::y\n", "a: v, ww::z\n"],
    ["a, b, pp: t\n", "qr:\n"],
    ["a: t, u::x, u::y, v\n"],
    ["b: u::x\n", "qr: u::x, t\n", "a\n"],
    ["a: t\n", "b, pp: t, u::x\n", "qr: u::x\n"],
]
SUBS = [("a",), ("a", "pp", "zz"), ()]
PRED_P = ("a", "pp")


def bounds(tier):
    return {"tag_files": len(FILES), "read_with_tag_filter": True, "packages": PK, "tag_subsets": TAGSETS, "pool": 3,
            "depth": 3 if tier == "quick" else 4,
            "insert_alphabet_at_depth_4": "packages a, pp x 3 tag subsets"}


def assumptions():
    return ["objects documented as sharing sets with their source are unspecified once the other side is mutated",
            "re-inserting an existing package and the same package on two input lines are outside the domain",
            "dict/set iteration order of the implementation is an environment answer (given to the model)",
            "tag_count/package_count count the keys of the respective index, as the derivations define them"]


def pred_p(p):
    return p in PRED_P


def pred_t(t):
    return t.startswith("u::")


def pred_pt(pt):
    return "t" in pt[1]


def facet(t):
    return re.sub(r"^([^:]+).+", r"\1", t)


class M(object):
    """reference: carrier dictionaries + alias group + specified flag"""
    __slots__ = ("db", "rdb", "group", "ok")

    def __init__(self, db, rdb, group):
        self.db, self.rdb, self.group, self.ok = db, rdb, group, True


def m_rev(db):
    r = {}
    for p, ts in db.items():
        for t in ts:
            r.setdefault(t, set()).add(p)
    return r


def cp(d):
    return {k: set(v) for k, v in d.items()}


def parse_file(lines, tag_filter):
    db = {}
    for l in lines:
        l = l.rstrip("\n")
        if ":" in l:
            ps, ts = l.split(":", 1)
            ts = set(x for x in ts.strip().split(", ") if x)
        else:
            ps, ts = l, set()
        if tag_filter:
            ts = set(t for t in ts if pred_t(t))
        for p in ps.split(", "):
            db[p] = set(ts)
    return db


def m_insert(m, p, ts, defect):
    m.db[p] = set(ts)
    for t in ts:
        if t in m.rdb:
            m.rdb[t].add(p)
        else:
            m.rdb[t] = set(p) if defect else {p}


def ops_for(models, depth_left, tier_small):
    out = []
    for o, m in enumerate(models):
        if not m.ok:
            continue
        pk = PK if not tier_small else ["a", "pp"]
        tsi = range(len(TAGSETS)) if not tier_small else (1, 2, 4)
        for p in pk:
            if p in m.db:
                continue
            for ti in tsi:
                out.append(("insert", o, p, ti))
        for fi in (1, 6):
            out.append(("read", o, fi))
        if len(models) >= 3:
            continue
        for d in ("copy", "reverse", "reverse_copy", "facet", "fp", "fpc", "fpt", "fptc", "ft", "ftc"):
            out.append((d, o))
        for si in range(len(SUBS)):
            out.append(("choose", o, si))
            if si < 2:
                out.append(("choose-iter", o, si))     # the same selection handed over as a one-shot iterator
            if all(p in m.db for p in SUBS[si]):
                out.append(("choose_copy", o, si))
    return out


_gid = [0]


def m_step(models, op, defect, order=None):
    """apply op to the reference pool (in place / appending)"""
    t = op[0]
    m = models[op[1]]
    if t == "insert":
        m_insert(m, op[2], TAGSETS[op[3]], defect)
        for other in models:
            if other is not m and other.group == m.group:
                other.ok = False
        return
    _gid[0] += 1
    new = _gid[0]
    if t == "read":
        # read() rebinds both indexes to fresh dictionaries: the object leaves its alias group, nobody else changes
        m.db = parse_file(FILES[op[2]], False)
        m.rdb = m_rev(m.db)
        m.group = new
        return
    if t == "copy":
        nm = M(cp(m.db), cp(m.rdb), new)
    elif t == "reverse":
        nm = M(m.rdb, m.db, m.group)
    elif t == "reverse_copy":
        nm = M(cp(m.rdb), cp(m.db), new)
    elif t == "facet":
        nm = M({}, {}, new)
        for p in (order if order is not None else list(m.db)):
            m_insert(nm, p, {facet(x) for x in m.db[p]}, defect)
    elif t in ("choose", "choose_copy", "choose-iter"):
        sub = SUBS[op[2]]
        db = {p: (m.db[p] if t != "choose_copy" else set(m.db[p])) for p in sub if p in m.db}
        nm = M(db, m_rev(db), m.group if t != "choose_copy" else new)
    elif t in ("fp", "fpc"):
        db = {p: (m.db[p] if t == "fp" else set(m.db[p])) for p in m.db if pred_p(p)}
        nm = M(db, m_rev(db), m.group if t == "fp" else new)
    elif t in ("fpt", "fptc"):
        db = {p: (m.db[p] if t == "fpt" else set(m.db[p])) for p in m.db if "t" in m.db[p]}
        nm = M(db, m_rev(db), m.group if t == "fpt" else new)
    elif t in ("ft", "ftc"):
        rdb = {tg: (m.rdb[tg] if t == "ft" else set(m.rdb[tg])) for tg in m.rdb if pred_t(tg)}
        nm = M(m_rev(rdb), rdb, m.group if t == "ft" else new)
    else:
        raise AssertionError(op)
    models.append(nm)


def i_step(objs, op):
    t = op[0]
    o = objs[op[1]]
    if t == "insert":
        o.insert(op[2], set(TAGSETS[op[3]]))
        return None
    if t == "read":
        o.read(iter(FILES[op[2]]))
        return None
    order = None
    if t == "copy":
        n = o.copy()
    elif t == "reverse":
        n = o.reverse()
    elif t == "reverse_copy":
        n = o.reverse_copy()
    elif t == "facet":
        order = [p for p, _ in o.iter_packages_tags()]
        n = o.facet_collection()
    elif t == "choose":
        n = o.choose_packages(SUBS[op[2]])
    elif t == "choose-iter":
        n = o.choose_packages(iter(SUBS[op[2]]))
    elif t == "choose_copy":
        n = o.choose_packages_copy(SUBS[op[2]])
    elif t == "fp":
        n = o.filter_packages(pred_p)
    elif t == "fpc":
        n = o.filter_packages_copy(pred_p)
    elif t == "fpt":
        n = o.filter_packages_tags(pred_pt)
    elif t == "fptc":
        n = o.filter_packages_tags_copy(pred_pt)
    elif t == "ft":
        n = o.filter_tags(pred_t)
    elif t == "ftc":
        n = o.filter_tags_copy(pred_t)
    objs.append(n)
    return order


def observe(o, m, strict_inverse):
    """-> None | (what, expected, observed)   for one specified object"""
    if o.db != m.db:
        return ("db", m.db, o.db)
    if o.rdb != m.rdb:
        return ("rdb", m.rdb, o.rdb)
    if strict_inverse:
        keys_p = set(o.db) | {p for ps in o.rdb.values() for p in ps}
        keys_t = set(o.rdb) | {t for ts in o.db.values() for t in ts}
        for p in keys_p:
            for t in keys_t:
                if (t in o.tags_of_package(p)) != (p in o.packages_of_tag(t)):
                    return ("inverse", "%r under %r <=> %r listed for %r" % (p, t, t, p),
                            "tags_of_package=%r packages_of_tag=%r" % (o.tags_of_package(p), o.packages_of_tag(t)))
    for p in list(m.db) + ["zz-absent"]:
        if o.tags_of_package(p) != m.db.get(p, set()):
            return ("query:tags_of_package", m.db.get(p, set()), o.tags_of_package(p))
        if o.has_package(p) != (p in m.db):
            return ("query:has_package", p in m.db, o.has_package(p))
    for t in list(m.rdb) + ["zz-absent"]:
        if o.packages_of_tag(t) != m.rdb.get(t, set()):
            return ("query:packages_of_tag", m.rdb.get(t, set()), o.packages_of_tag(t))
        if o.card(t) != len(m.rdb.get(t, ())):
            return ("query:card", len(m.rdb.get(t, ())), o.card(t))
        if o.has_tag(t) != (t in m.rdb):
            return ("query:has_tag", t in m.rdb, o.has_tag(t))
    if o.package_count() != len(m.db):
        return ("query:package_count", len(m.db), o.package_count())
    if o.tag_count() != len(m.rdb):
        return ("query:tag_count", len(m.rdb), o.tag_count())
    if set(o.iter_packages()) != set(m.db) or set(o.iter_tags()) != set(m.rdb):
        return ("query:iter", (sorted(m.db), sorted(m.rdb)), (sorted(o.iter_packages()), sorted(o.iter_tags())))
    if dict(o.iter_packages_tags()) != m.db or dict(o.iter_tags_packages()) != m.rdb:
        return ("query:iter_pairs", (m.db, m.rdb), (dict(o.iter_packages_tags()), dict(o.iter_tags_packages())))
    return None


def build(fi, tag_filter, hist, defect, check_from=0):
    """replay a history on fresh objects.  -> (models, objs, None) or (None, None, (step, what, exp, obs))"""
    from debian.debtags import DB
    d = DB()
    if tag_filter:
        d.read(iter(FILES[fi]), tag_filter=pred_t)
    else:
        d.read(iter(FILES[fi]))
    _gid[0] = 0
    mdb = parse_file(FILES[fi], tag_filter)
    models = [M(mdb, m_rev(mdb), 0)]
    objs = [d]
    if check_from <= 0:
        bad = observe(d, models[0], not defect)
        if bad:
            return None, None, (-1,) + bad
    for n, op in enumerate(hist):
        try:
            order = i_step(objs, op)
        except Exception as e:
            return None, None, (n, "raises", "no exception", "%s: %r" % (type(e).__name__, e))
        m_step(models, op, defect, order)
        if n + 1 >= check_from:
            for o, m in zip(objs, models):
                if not m.ok:
                    continue
                bad = observe(o, m, not defect)
                if bad:
                    if o is not objs[op[1]] and not (op[0] not in ("insert", "read") and o is objs[-1]):
                        bad = ("independent-object-changed/" + bad[0],) + bad[1:]
                    return None, None, (n,) + bad
    return models, objs, None


def judge(fi, tag_filter, hist, check_from=0):
    """-> (verdict, models, detail)  verdict in ok | known | violation"""
    models, objs, bad = build(fi, tag_filter, hist, False, check_from)
    if bad is None:
        return "ok", models, None
    models2, _objs2, bad2 = build(fi, tag_filter, hist, True, 0)
    if bad2 is None:
        return "known", models2, bad
    # neither variant explains the implementation; report against the variant that got further
    best = bad if bad[0] >= bad2[0] else bad2
    return "violation", None, best


READ_KINDS = ("list", "tuple", "generator", "stringio", "file")


def read_kind(fi, tag_filter, kind):
    import io
    import tempfile
    from debian.debtags import DB
    lines = FILES[fi]
    d = DB()
    tmp = None
    try:
        if kind == "list":
            src = list(lines)
        elif kind == "tuple":
            src = tuple(lines)
        elif kind == "generator":
            src = (l for l in lines)
        elif kind == "stringio":
            src = io.StringIO("".join(lines))
        else:
            tmp = tempfile.TemporaryFile("w+", encoding="utf-8")
            tmp.write("".join(lines))
            tmp.seek(0)
            src = tmp
        try:
            if tag_filter:
                d.read(src, tag_filter=pred_t)
            else:
                d.read(src)
        except Exception as e:
            return ("raises", "read succeeds", "%s: %s" % (type(e).__name__, e))
    finally:
        if tmp is not None:
            tmp.close()
    mdb = parse_file(lines, tag_filter)
    return observe(d, M(mdb, m_rev(mdb), 0), True)


def units(tier, seed):
    out = []
    for fi in range(len(FILES)):
        for tf in (False, True):
            if tf and fi not in (1, 2, 5, 6):
                continue
            models = [M(parse_file(FILES[fi], tf), {}, 0)]
            models[0].rdb = m_rev(models[0].db)
            for op in ops_for(models, 9, False):
                out.append({"file": fi, "tf": tf, "first": op})
    return out


def run_unit(u, tier, seed):
    part = core.Part()
    depth = 3 if tier == "quick" else 4
    fi, tf = u["file"], u["tf"]
    base = {"file": fi, "tag_filter": tf}

    def rec(hist, known):
        verdict, models, detail = judge(fi, tf, hist, check_from=len(hist) if not known else 0)
        part.transitions += 1
        part.evaluations += 1
        part.states += 1
        case = dict(base, history=list(hist))
        if verdict == "violation":
            n, what, exp, obs = detail
            op = hist[n][0] if n >= 0 else "read"
            part.violation("debtags/%s/%s" % (op, what), case, exp, obs, rank=len(hist))
            return
        if verdict == "known":
            if not known:
                part.violation(KF_SIG, case, detail[2], detail[3], rank=len(hist))
            part.outcomes["behind-known-defect"] += 1
        else:
            part.outcomes[hist[-1][0]] += 1
        nspec = sum(1 for m in models if m.ok)
        if nspec >= 2 or hist[-1][1] > 0:
            part.nontrivial += 1
        if len(hist) >= depth:
            part.traces += 1
            return
        small = (tier == "thorough" and len(hist) == depth - 1)
        for op in ops_for(models, depth - len(hist), small):
            rec(hist + [op], known or verdict == "known")

    _m, _o, bad0 = build(fi, tf, [], False, 0)
    if bad0:
        part.violation("debtags/read/%s" % bad0[1], dict(base, history=[]), bad0[2], bad0[3], rank=0)
        return part
    if u["first"] == ops_for([M(parse_file(FILES[fi], tf), m_rev(parse_file(FILES[fi], tf)), 0)], 9, False)[0]:
        # once per (file, filter): the same lines supplied as the other kinds of line source read() accepts
        for kind in READ_KINDS:
            bad = read_kind(fi, tf, kind)
            part.evaluations += 1
            part.traces += 1
            if bad:
                part.violation("debtags/read-%s/%s" % (kind, bad[0]), dict(base, history=[], read_kind=kind), bad[1], bad[2], rank=0)
    rec([tuple(u["first"])], False)
    part.max_depth = depth
    part.sample(dict(base, history=[tuple(u["first"]), ("copy", 0)]))
    return part


def replay(case):
    if case.get("read_kind"):
        bad = read_kind(case["file"], case["tag_filter"], case["read_kind"])
        return [("debtags/read-%s/%s" % (case["read_kind"], bad[0]), bad[1], bad[2])] if bad else []
    hist = [tuple(op) for op in case["history"]]
    verdict, _m, detail = judge(case["file"], case["tag_filter"], hist, 0)
    if verdict == "ok":
        return []
    if verdict == "known":
        return [(KF_SIG, detail[2], detail[3])]
    n, what, exp, obs = detail
    op = hist[n][0] if n >= 0 else "read"
    return [("debtags/%s/%s" % (op, what), exp, obs)]
