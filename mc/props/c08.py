"""C08 - an accepted field value can never inject fields or split the paragraph.

Engine B.  Every string up to the stated length over {letter, ':', '#', ' ', TAB, CR, LF} is assigned to a field in
first / middle / last position of a paragraph (overwriting) and to a new field of an empty paragraph, under the keys
'K' and 'Key-2'.
Oracle (the statement, nothing more):
  * ValueError  -> items() and dump() are exactly what they were;
  * accepted    -> dump(), read back with Deb822.iter_paragraphs(..., strict={'whitespace-separates-paragraphs':
                   False}) from a str and from a StringIO: exactly one paragraph with exactly the same key list; with
                   the default setting as well whenever no continuation line of the value is blank;
  * independently, a value that ends in LF, contains an empty line (LF LF) or has a line after an LF that starts
    with a non-whitespace character must be rejected.
"Line" is the reader's notion (boundaries LF, CR, CRLF).  Over-rejection is not a violation.

Second family, "structured continuation lines": values whose continuation lines are, behind their indentation, lines that
mean something to the reader in column 0 (PGP armor headers, an armor header field, a field line, a comment, '.', dashes):
one such line, all ordered pairs of them (thorough tier: all ordered triples too), the complete armor sequence; same positions, keys and oracle, re-read from
str, StringIO, bytes and a list of lines.
"""
import io
import itertools
import re
import warnings

from .. import core

ID = "C08"
LEVEL = "model_checking"
RULE = ("Engine B walk of the value trie per (position, key) configuration: a state is (configuration, value "
        "string), a transition appends one character, a trace is one assignment executed on a real Deb822 paragraph "
        "(followed, when accepted, by dump and four re-reads).  evaluations = oracle clauses evaluated "
        "(unchanged-on-reject, must-reject, one per re-read).  A case is non-trivial when the value is accepted and "
        "contains a line break (LF or CR).  Outcome classes = rejected:<validator message> | accepted:<number of "
        "reader lines>:<blank continuation?>:<value read back identical / normalised>.  Structured continuation lines: "
        "one state / transition / trace per (configuration, value) with value = first line + 1..3 indented lines taken "
        "from a list of lines that are meaningful to the reader at column 0; dump and eight re-reads (2 settings x str, "
        "StringIO, bytes, list of lines); all of them non-trivial when accepted.  Other routes: for every value of a "
        "sub-space (bounds: other_routes) the assignment is made another way (update / setdefault / merge_fields / the "
        "restricted wrapper / the constructor from a mapping / after refused or multi-line assignments / on an object of "
        "a sub-class) and judged by the same oracle - one state / transition / trace per (route, configuration, value); "
        "when the route accepts and the dump is the one the default route gives for the same configuration and value, "
        "the re-reads are those of the main pass and are not repeated.  Other readers: the default assignment followed by "
        "the other ways of dumping (re-read whenever their text differs from dump()) and the other entry points that "
        "read with the two settings.")
BUDGET = {"quick": 240, "thorough": 3000}

POSITIONS = ("only", "first", "middle", "last")
ALL_SOURCES = ("str", "stringio", "bytes", "lines")
NOWS = {"whitespace-separates-paragraphs": False}


def alphabet(seed):
    return [core.rep(seed, ["a", "z", "Q", "7"]), ":", "#", " ", "\t", "\r", "\n"]


def keys(seed):
    return [core.rep(seed, ["K", "M", "k", "P"]), "Key-2"]


def _maxlen(tier):
    return {"quick": 6, "thorough": 8}[tier]


# thorough only: one more length for one (position, key) configuration - indexes into POSITIONS and keys()
DEEP_LEN = 9
DEEP_CONFIGS = [(2, 0)]


def bounds(tier):
    return {"value": "all strings of length 0..%d over {letter, ':', '#', ' ', '\\t', '\\r', '\\n'}" % _maxlen(tier) + (
                "" if tier == "quick" else "; all strings of length %d for the configuration(s) %s" % (
                    DEEP_LEN, ", ".join("(%s, %s)" % (POSITIONS[pi], keys(0)[ki]) for pi, ki in DEEP_CONFIGS))),
            "positions": {"only": "new field of an empty paragraph", "first": "overwrite K in [K, Y]",
                          "middle": "overwrite K in [X, K, Y]", "last": "overwrite K in [X, K]"},
            "keys": keys(0), "sources": ["str", "StringIO"],
            "settings": ["whitespace-separates-paragraphs=False", "default (only without blank continuation line)"],
            "structured_continuation_lines": {
                "lines": STRUCT_LINES, "first_lines": STRUCT_FIRST, "indents": STRUCT_INDENTS, "trailing": STRUCT_TRAIL,
                "values": "first + LF + indent + L + trailing for every L (%d); first + two such lines for all %d ordered "
                          "pairs (L1, L2), same indent, no trailing (indent of two blanks: the 25 pairs of armor lines); %sfirst + the three armor lines SIGNED MESSAGE / SIGNATURE "
                          "/ END SIGNATURE (+ 'Hash: SHA1' after the first); each L alone as the first line of the value and "
                          "followed by ' y': %d values per configuration" % (
                              len(STRUCT_LINES) * len(STRUCT_TRAIL), len(STRUCT_LINES) ** 2,
                              "" if tier == "quick" else
                              "first + three such lines for all %d ordered triples (L1, L2, L3), same indent, no trailing (indent "
                              "of two blanks: the 125 triples of armor lines); " % len(STRUCT_LINES) ** 3,
                              sum(len(struct_values(g, 0, tier)) for g in range(len(struct_groups())))),
                "sources": ["str", "StringIO", "bytes", "list of lines with newlines"]},
            "other_routes": {
                "values": "all strings of length 0..%d over the alphabet + the structured continuation lines of the first "
                          "group: %d per configuration" % (ROUTE_MAXLEN if tier == "quick" else ROUTE_MAXLEN + 1,
                                                           len(route_values(tier, 0))),
                "assignment_routes": ["%s on %s" % rc for rc in all_routes()],
                "layout": "the surrounding fields of the four positions; setdefault / merge_fields assign to an absent field, the "
                          "field that follows is added afterwards",
                "dump_routes": list(DUMP_ROUTES), "readers": ["%s (%s)" % (rn, st) for rn, st, _f in route_readers()],
                "reader_sources": list(READER_SOURCES)},
            "beyond_the_small_scope": {
                "count_ladder_continuation_lines": {
                    "n": "every n in 1..40 and %s" % LADDER_BIG,
                    "arrangements": "plain; indentation alternating blank / tab; one special line as the first / middle / last "
                                    "of the n: %r (separator, line)" % (LINE_SPECIALS,),
                    "configurations": "n <= 40: the four positions with the one-letter key and the middle position with "
                                      "Key-2; larger n: middle position, one-letter key", "sources": list(ALL_SOURCES)},
                "count_ladder_fields_per_paragraph": {
                    "n": "every n in 1..40 and %s other fields (values alternately single-line and multi-line)" % LADDER_FIELDS_BIG,
                    "field_under_test": "first / in the middle / last", "values": FIELD_VALUES,
                    "dumps_and_readers": "n <= 40 and n = 64: dump(), str, bytes, dump(fd) binary, dump(fd, text_mode=True) "
                                         "and every reader of the other-routes pass; larger n: dump() re-read from 4 sources",
                    "dropped": "n = 5000 (a case takes more than a second)"},
                "size_ladder": {
                    "L": SIZES[tier], "not_in_quick": [L for L in SIZES["thorough"] if L not in SIZES[tier]],
                    "shapes": "the value is exactly L characters: one long first line, or 'x' + one long continuation line",
                    "content": "plain filler (one letter; words of 7 letters and a blank, a blank just before every multiple "
                               "of 8) and one token of %s" % SIZE_TOKEN_NAMES,
                    "places": "behind the start, at the very end, and for every block size of %s inside the value: token "
                              "starting at b-1, b, b+1, ending at b, and starting at b in the dump" % SIZE_BLOCKS,
                    "configurations": "L <= 4097: as for n <= 40; larger: middle position, one-letter key; L >= 65535: re-read "
                                      "from str and bytes only"}}}


def assumptions():
    return ["NBSP, VT, FF, U+0085, U+2028 ... are outside the domain by the statement; only the 7 stated character "
            "classes are explored", "over-rejection is not a violation",
            "must-reject clause: 'whitespace' at the start of a continuation line is what str.isspace says (CR counts), "
            "so a value such as 'a\\n\\rb' is not demanded to be rejected by that clause",
            "the seed rotates the letter and the one-letter key; shapes are the same",
            "structured continuation lines use printable ASCII outside the 7 classes ('-', upper-case words, digits, '.'); "
            "they are 'printable text' in the sense of the quantifier; trailing blank / tab after such a line is part of the "
            "value; the continuation lines are never blank, so both parser settings apply",
            "other routes: update / setdefault / merge_fields / RestrictedWrapper.__setitem__ / Deb822(mapping) are ways of "
            "assigning a value to a field and are held to the same oracle (over-rejection is still no violation); the "
            "constructor has no paragraph to leave unchanged, and on the unchanged library it reports a refused value with "
            "a TypeError raised while it formats its own ValueError message (Deb822({'K': 'a\\n'}) -> TypeError: "
            "'dict_items' object is not subscriptable): counted as a refusal, the exception class is not demanded there",
            "ladders: values and paragraphs are generated from the description stored in the case; the oracle is the one "
            "of the main pass (a lone CR is a line boundary for the reader; over-rejection is no violation, so a value with "
            "a CR followed by unindented text may be refused or accepted as long as the re-read keeps the field names)",
            "other readers: Packages / Sources.iter_paragraphs default to the setting under which whitespace-only lines do "
            "not end a paragraph; strict={} and strict={...: True} are the default setting spelled out"]


# ------------------------------------------------------------------------------------------------ structured lines

STRUCT_LINES = ["-----BEGIN PGP SIGNED MESSAGE-----", "-----BEGIN PGP SIGNATURE-----", "-----END PGP SIGNATURE-----",
                "-----BEGIN PGP X-----", "-----END PGP X-----", "Hash: SHA1", "K: v", "K:", "#c", ".", "-", "--"]
STRUCT_FIRST = ["x", ""]
STRUCT_INDENTS = [" ", "\t", "  "]
STRUCT_TRAIL = ["", " ", "\t"]


def struct_groups():
    return [(f, ind) for f in STRUCT_FIRST for ind in STRUCT_INDENTS]


def struct_values(gi, seed=0, tier="quick"):
    """values of one (first line, indent) group, simplest first"""
    f, ind = struct_groups()[gi]
    if f:
        f = core.rep(seed, ["x", "y", "w", "u"])
    out = [f + "\n" + ind + L + t for L in STRUCT_LINES for t in STRUCT_TRAIL]
    two = STRUCT_LINES if len(ind) == 1 else STRUCT_LINES[:5]      # the two-character indent: armor lines only
    out += [f + "\n" + ind + L1 + "\n" + ind + L2 for L1 in two for L2 in two]
    if tier != "quick":
        out += [f + "".join("\n" + ind + L for L in seq) for seq in itertools.product(two, repeat=3)]
    sm, sig, end = STRUCT_LINES[:3]
    seqs = ((sm, sig, end), (sm, "Hash: SHA1", sig, end), (sm, ".", "q", sig, end))
    if tier != "quick":
        seqs = seqs[1:]            # the plain armor sequence is one of the triples
    out += [f + "".join("\n" + ind + L for L in seq) for seq in seqs]
    if gi == 0:
        # the line as the FIRST line of the value (column 0 of the value, behind 'Key: ' in the dump)
        out += [L for L in STRUCT_LINES] + [L + "\n y" for L in STRUCT_LINES]
    return out


# ------------------------------------------------------------------------------------------------ one case

_BOUNDARY = re.compile(r"\r\n|\r|\n")


def reader_lines(v):
    """Lines as the reader (and str.splitlines, inside the domain) sees them: boundaries LF, CR, CRLF."""
    out = _BOUNDARY.split(v)
    if out and out[-1] == "":
        out.pop()
    return out


def must_reject(v):
    """-> reason or None.  The three shapes the statement says are rejected (LF-based, as stated)."""
    if v.endswith("\n"):
        return "ends-in-newline"
    if "\n\n" in v:
        return "empty-line"
    for l in v.split("\n")[1:]:
        if l and not l[0].isspace():
            return "unindented-continuation"
    return None


def build(position, key):
    from debian.deb822 import Deb822
    p = Deb822()
    if isinstance(position, (list, tuple)):
        # ["fields", n, at]: n other fields F1..Fn (single-line and multi-line values alternating), the field under
        # test in front of the at-th of them (at = n: behind all)
        _f, n, at = position
        for i in range(n + 1):
            if i == at:
                p[key] = "0"
            if i < n:
                p["F%d" % (i + 1)] = "1" if i % 2 == 0 else "m\n c%d" % i
        return p
    if position in ("middle", "last"):
        p["X"] = "1"
    if position != "only":
        p[key] = "0"
    if position in ("first", "middle"):
        p["Y"] = "2"
    return p


def _msg_class(e):
    return re.sub(r"[^a-z]+", "-", str(e).lower()).strip("-")[:40]


# ------------------------------------------------------------------------------------------------ other routes
# The same assignment reached another way, and the same dump / re-read reached another way.
#   assignment routes: how the value gets into the field (the surrounding fields are those of `position`);
#   classes: the paragraph is an object of a sub-class (which may override validate_input);
#   dump routes: str(p), bytes(p), dump(fd) - re-read as well whenever their text is not that of dump();
#   readers: the entry points / classes whose setting is the one the statement names.
ASSIGN_ROUTES = ["update-dict", "update-pairs", "update-kw", "setdefault", "merge_fields", "wrapper", "ctor-dict",
                 "after-rejected", "after-multiline", "twice"]
ABSENT_KEY_ROUTES = ("setdefault", "merge_fields")        # they assign only when the field is not there yet
ROUTE_CLASSES = ["Dsc", "Changes", "BuildInfo", "Release", "PdiffIndex", "Packages", "Sources", "Removals"]
ROUTE_MAXLEN = 3
READER_SOURCES = ("str", "lines", "bytes")
DUMP_ROUTES = ("str", "bytes", "dump-fd-binary", "dump-fd-text")


def all_routes():
    """(assignment route, class) pairs other than the default ('setitem', 'Deb822')"""
    return [(r, "Deb822") for r in ASSIGN_ROUTES] + [("setitem", c) for c in ROUTE_CLASSES] + \
           [("update-dict", "Dsc"), ("ctor-dict", "Dsc"), ("ctor-dict", "Packages")]


def build_route(position, key, route, clsname):
    """the paragraph before the assignment; None for the constructor route"""
    import debian.deb822
    cls = getattr(debian.deb822, clsname)
    if route == "ctor-dict":
        return None
    p = cls()
    if position in ("middle", "last"):
        p["X"] = "1"
    if position != "only" and route not in ABSENT_KEY_ROUTES:
        p[key] = "0"
    if position in ("first", "middle") and route not in ABSENT_KEY_ROUTES:
        p["Y"] = "2"
    if route == "after-multiline":
        p[key] = "m\n n\n\to"
    return p


def assign_route(p, position, key, v, route, clsname):
    """performs the assignment -> the paragraph that now holds the value"""
    import debian.deb822
    if route == "setitem":
        p[key] = v
    elif route == "update-dict":
        p.update({key: v})
    elif route == "update-pairs":
        p.update([(key, v)])
    elif route == "update-kw":
        p.update(**{key: v})
    elif route in ABSENT_KEY_ROUTES:
        if route == "setdefault":
            p.setdefault(key, v)
        else:
            p.merge_fields(key, {key: v})
        if position in ("first", "middle"):
            p["Y"] = "2"          # the field that follows is added afterwards: same layout as the default route
    elif route == "wrapper":
        debian.deb822.RestrictedWrapper(p)[key] = v
    elif route == "after-rejected":
        for wrong in ("w\n", "w\n\n x", "w\nx"):
            try:
                p[key] = wrong
            except ValueError:
                pass
        p[key] = v
    elif route == "after-multiline":
        p[key] = v
    elif route == "twice":
        p[key] = v
        p[key] = v
    elif route == "ctor-dict":
        pairs = ([("X", "1")] if position in ("middle", "last") else []) + [(key, v)] + \
                ([("Y", "2")] if position in ("first", "middle") else [])
        p = getattr(debian.deb822, clsname)(dict(pairs))
    else:
        raise AssertionError(route)
    return p


def route_readers():
    """-> [(name, setting, f(source) -> list of paragraphs)]: other entry points with the setting the statement names"""
    from debian import deb822 as M
    D = M.Deb822
    return [("Packages-iter-default", "ws-continues", lambda src: list(M.Packages.iter_paragraphs(src))),
            ("Sources-iter-default", "ws-continues", lambda src: list(M.Sources.iter_paragraphs(src, use_apt_pkg=False))),
            ("iter-positional", "ws-continues", lambda src: list(D.iter_paragraphs(src, None, False, False, "utf-8", dict(NOWS)))),
            ("Dsc-iter", "ws-continues", lambda src: list(M.Dsc.iter_paragraphs(src, strict=dict(NOWS)))),
            ("ctor", "ws-continues", lambda src: [D(src, strict=dict(NOWS))]),
            ("ctor-then-rest", "ws-continues", lambda src: _ctor_then_rest(D, src, dict(NOWS))),
            ("iter-explicit-default", "default", lambda src: list(D.iter_paragraphs(src, strict={"whitespace-separates-paragraphs": True}))),
            ("iter-empty-strict", "default", lambda src: list(D.iter_paragraphs(src, strict={}))),
            ("Release-iter", "default", lambda src: list(M.Release.iter_paragraphs(src))),
            ("ctor-then-rest", "default", lambda src: _ctor_then_rest(D, src, None))]


def _ctor_then_rest(D, src, strict):
    """the first paragraph by the constructor, then whatever another constructor call finds behind it"""
    it = iter(src.splitlines(True)) if isinstance(src, (str, bytes)) else iter(src)
    out = [D(it, strict=strict)]
    nxt = D(it, strict=strict)
    if nxt:
        out.append(nxt)
    return out


def dump_route(p, name):
    if name == "str":
        return str(p)
    if name == "bytes":
        return bytes(p).decode("utf-8")
    fd = io.BytesIO() if name == "dump-fd-binary" else io.StringIO()
    if name == "dump-fd-binary":
        p.dump(fd)
        return fd.getvalue().decode("utf-8")
    p.dump(fd, text_mode=True)
    return fd.getvalue()


def classify(ps, got, want):
    if not ps:
        return "no-paragraph"
    if len(ps) > 1:
        return "split"
    if set(got[0]) - set(want):
        return "injected"
    if set(want) - set(got[0]):
        return "truncated"
    return "reordered"


def execute(position, key, v, part=None, sources=("str", "stringio"), route="setitem", clsname="Deb822", readers=False,
            family=None):
    """-> list of (sig, expected, observed).  readers: the default assignment followed by the other ways of dumping and
    the other readers"""
    from debian.deb822 import Deb822
    bad = []
    default_route = route == "setitem" and clsname == "Deb822"
    tag = "readers/" if readers else "" if default_route else "route/%s%s/" % (route, "" if clsname == "Deb822" else "-" + clsname)
    if family:
        tag = family + "/" + tag
    p = build(position, key) if default_route else build_route(position, key, route, clsname)
    before = (list(p.items()), p.dump()) if p is not None else None
    mr = must_reject(v)
    ev = 1
    try:
        if default_route:
            p[key] = v
        else:
            p = assign_route(p, position, key, v, route, clsname)
    except (ValueError, TypeError) as e:
        if isinstance(e, TypeError) and route != "ctor-dict":
            bad.append((tag + "setitem/raises/TypeError", "accepted or ValueError", "TypeError: %s" % e))
            if part is not None:
                part.evaluations += ev
                part.outcomes["raises:TypeError"] += 1
            return bad
        if before is None:
            # the constructor has no paragraph to leave unchanged (on the unchanged library it reports a refused value
            # with a TypeError raised while formatting its message: a refusal all the same)
            if part is not None:
                part.evaluations += ev
                part.outcomes["route:refused-by-constructor:" + type(e).__name__] += 1
            return bad
        ev += 1
        after = (list(p.items()), p.dump())
        if after != before:
            bad.append((tag + "reject/paragraph-changed", before, after))
        if part is not None:
            part.evaluations += ev
            part.outcomes[(family + ":" if family else "readers:" if readers else "route:" if tag else "") + "rejected:" + _msg_class(e)] += 1
        return bad
    except Exception as e:
        bad.append((tag + "setitem/raises/%s" % type(e).__name__, "accepted or ValueError", "%s: %s" % (type(e).__name__, e)))
        if part is not None:
            part.evaluations += ev
            part.outcomes["raises:" + type(e).__name__] += 1
        return bad
    if mr:
        bad.append((tag + "must-reject/accepted/" + mr, "ValueError", "accepted %r" % v))
    want = list(p.keys())
    text = p.dump()
    texts = [("", text)]
    if not default_route:
        # the default route on the same paragraph layout: when it accepts the value too and dumps the same text, every
        # re-read of that text is a case of the main pass (same position, key, value) and is not repeated here
        ref = build(position, key)
        try:
            ref[key] = v
            ref_text = ref.dump()
        except Exception:       # refused (or failing: the main pass reports that) on the default route
            ref_text = None
        ev += 1
        if ref_text == text and not mr:
            if part is not None:
                part.evaluations += ev
                part.outcomes["route:accepted:same-dump-as-default-route"] += 1
                if "\n" in v or "\r" in v:
                    part.nontrivial += 1
                part.extra["accepted (other routes)"] += 1
            return bad
    if readers:
        # the other ways of dumping: re-read too whenever their text is not that of dump()
        for dn in DUMP_ROUTES:
            ev += 1
            try:
                t2 = dump_route(p, dn)
            except Exception as e:
                bad.append((tag + "dump/%s/raises/%s" % (dn, type(e).__name__), text, "%s: %s" % (type(e).__name__, e)))
                continue
            if t2 != text:
                texts.append((dn + "/", t2))
    rl = reader_lines(v)
    blankcont = any(not l.strip(" \t\r\n") for l in rl[1:])
    readback = None
    def source(srcname, text):
        return (text if srcname == "str" else io.StringIO(text) if srcname == "stringio" else
                text.encode("utf-8") if srcname == "bytes" else text.splitlines(True))
    for dtag, text in texts:
        for setting, strict in (("ws-continues", NOWS), ("default", None)):
            if strict is None and blankcont:
                continue
            for srcname in sources:
                ev += 1
                try:
                    ps = list(Deb822.iter_paragraphs(source(srcname, text), strict=dict(strict) if strict else None))
                except Exception as e:
                    bad.append((tag + dtag + "reread/%s/%s/raises/%s" % (setting, srcname, type(e).__name__),
                                "one paragraph with keys %r" % want, "%s: %s (dump %r)" % (type(e).__name__, e, text)))
                    continue
                got = [list(q.keys()) for q in ps]
                if got != [want]:
                    bad.append((tag + dtag + "reread/%s/%s/%s" % (setting, srcname, classify(ps, got, want)),
                                "one paragraph with keys %r" % want,
                                "%r from dump %r" % ([list(q.items()) for q in ps], text)))
                elif readback is None:
                    readback = "same" if ps[0][key] == v else "normalised"
    if readers:
        text = texts[0][1]
        for rn, setting, f in route_readers():
            if setting == "default" and blankcont:
                continue
            for srcname in sources:
                ev += 1
                try:
                    with warnings.catch_warnings():
                        warnings.simplefilter("ignore")
                        ps = f(source(srcname, text))
                    got = [list(q.keys()) for q in ps]
                except Exception as e:
                    bad.append((tag + "reader/%s/%s/%s/raises/%s" % (rn, setting, srcname, type(e).__name__),
                                "one paragraph with keys %r" % want, "%s: %s (dump %r)" % (type(e).__name__, e, text)))
                    continue
                if got != [want]:
                    bad.append((tag + "reader/%s/%s/%s/%s" % (rn, setting, srcname, classify(ps, got, want)),
                                "one paragraph with keys %r" % want,
                                "%r from dump %r" % ([list(q.items()) for q in ps], text)))
    if part is not None:
        part.evaluations += ev
        part.outcomes[(family + ":" if family else "readers:" if readers else "route:" if tag else "") + "accepted:lines=%s:blankcont=%s:readback=%s" % (
            len(rl) if not family or len(rl) < 4 else "4+", "y" if blankcont else "n", readback)] += 1
        if "\n" in v or "\r" in v:
            part.nontrivial += 1
        part.extra["accepted (%s)" % family.split("/")[0] if family else
                   "accepted (other readers)" if readers else "accepted (other routes)" if tag else "accepted" if len(sources) == 2 else
                   "accepted (structured continuation lines)"] += 1
    return bad


# ------------------------------------------------------------------------------------------------ units

def units(tier, seed):
    out = []
    for L in range(0, _maxlen(tier) + 1):
        # up to length 6 a unit is a prefix + all 7^4 endings; from length 7 on a prefix + all 7^5 endings
        plen = max(0, L - 4) if L <= 6 else L - 5
        for pre in itertools.product(range(7), repeat=plen):
            for pi in range(len(POSITIONS)):
                for ki in range(2):
                    out.append((L, pre, pi, ki))
    if tier != "quick":
        # a unit is a prefix + all 7^6 endings
        for pre in itertools.product(range(7), repeat=DEEP_LEN - 6):
            for pi, ki in DEEP_CONFIGS:
                out.append((DEEP_LEN, pre, pi, ki))
    for gi in range(len(struct_groups())):
        for pi in range(len(POSITIONS)):
            for ki in range(2):
                out.append(("S", gi, pi, ki))
    for ri in range(len(all_routes())):
        for pi in range(len(POSITIONS)):
            for ki in range(2):
                out.append(("R", ri, pi, ki))
    for pi in range(len(POSITIONS)):
        for ki in range(2):
            out.append(("D", 0, pi, ki))
    out += ladder_units(tier)
    return out


def route_values(tier, seed):
    """values of the other-routes pass, simplest first: every string up to ROUTE_MAXLEN (thorough: one more) over the
    alphabet, then the structured continuation lines of the first group"""
    al = alphabet(seed)
    n = ROUTE_MAXLEN if tier == "quick" else ROUTE_MAXLEN + 1
    out = ["".join(t) for L in range(0, n + 1) for t in itertools.product(al, repeat=L)]
    return out + struct_values(0, seed, "quick")


def unit_cost(u, tier):
    L, pre, pi, ki = u
    if L == "X":
        return ladder_cost(pre, pi)
    if L == "S":
        return 2400
    if L == "R":
        return 600
    if L == "D":
        return 6000
    return 7 ** (L - len(pre))


def run_unit(u, tier, seed):
    part = core.Part()
    L, pre, pi, ki = u
    al = alphabet(seed)
    if L == "X":
        return run_ladder(part, pre, pi, tier, seed)
    position, key = POSITIONS[pi], keys(seed)[ki]
    if L == "S":
        part.max_depth = 6
        for v in struct_values(pre, seed, tier):
            part.states += 1
            part.transitions += 1
            part.traces += 1
            case = {"position": position, "key": key, "value": v, "sources": list(ALL_SOURCES)}
            for sig, exp, obs in execute(position, key, v, part, ALL_SOURCES):
                part.violation(sig, case, exp, obs, rank=len(v))
        part.sample(case)
        return part
    if L == "D":
        part.max_depth = ROUTE_MAXLEN
        for v in route_values(tier, seed):
            part.states += 1
            part.transitions += 1
            part.traces += 1
            case = {"position": position, "key": key, "value": v, "sources": list(READER_SOURCES), "readers": True}
            for sig, exp, obs in execute(position, key, v, part, READER_SOURCES, readers=True):
                part.violation(sig, case, exp, obs, rank=len(v))
        part.sample(case)
        return part
    if L == "R":
        route, clsname = all_routes()[pre]
        part.max_depth = ROUTE_MAXLEN
        for v in route_values(tier, seed):
            part.states += 1
            part.transitions += 1
            part.traces += 1
            case = {"position": position, "key": key, "value": v, "sources": list(ALL_SOURCES), "route": route, "class": clsname}
            for sig, exp, obs in execute(position, key, v, part, ALL_SOURCES, route, clsname):
                part.violation(sig, case, exp, obs, rank=len(v))
        part.sample(case)
        return part
    head = "".join(al[i] for i in pre)
    part.max_depth = L
    v = head
    for rest in itertools.product(al, repeat=L - len(pre)):
        v = head + "".join(rest)
        part.states += 1
        if L:
            part.transitions += 1
        part.traces += 1
        for sig, exp, obs in execute(position, key, v, part):
            part.violation(sig, {"position": position, "key": key, "value": v}, exp, obs)
    part.sample({"position": position, "key": key, "value": v})
    return part


# ------------------------------------------------------------------------------------------------ beyond the small scope
# Count ladders and size ladders.  A value is generated from a compact description (the case stores the description,
# never the value) and judged by the oracle of the main pass.
#   lines   x + n continuation lines (n = every count of LADDER_SMALL and LADDER_BIG), plain / alternating indentation /
#           one special line (legal or not) as the first, the middle or the last of them
#   fields  a paragraph with n other fields, the field under test first / in the middle / last, a few legal and
#           illegal values; n <= 40: all ways of dumping and all readers (dump(), str, bytes, dump(fd) binary and text)
#   size    a value of exactly L characters (a long first line, or a long continuation line), plain filler or one token
#           (lone CR, blank, 'W: t' behind CR / LF / blank, an empty line, a two-byte character) placed at the block
#           boundaries (multiples of 16 KiB / 64 KiB ... in the value and in the dump) and at the very end
LADDER_SMALL = list(range(1, 41))
LADDER_BIG = [63, 64, 65, 100, 127, 128, 129, 255, 256, 257, 999, 1000, 1001, 1025, 2500, 2501, 5000]
LADDER_FIELDS_BIG = [63, 64, 65, 100, 127, 128, 129, 255, 256, 257, 999, 1000, 1001, 1025, 2500, 2501]
LINE_SPECIALS = [("\n", " W: t"), ("\n", "\tW:"), ("\n", " #c"), ("\n", " ."), ("\n", " "), ("\r", " W: t"), ("\r\n", " W: t"),
                 ("\n", "W: t"), ("\n", ""), ("\r", "W: t"), ("\n", "#c")]
FIELD_VALUES = ["v", "x\n W: t\n\ty", "x\n \n y", "\n y", "x\nW: t", "x\n\n y", "x\n", "x\rW: t"]
SIZES = {"quick": [997, 998, 999, 1000, 4095, 4096, 4097, 16383, 16384, 16385, 65535, 65536, 65537, 131071, 131072, 131073],
         "thorough": [997, 998, 999, 1000, 4095, 4096, 4097, 16383, 16384, 16385, 65535, 65536, 65537, 131071, 131072, 131073,
                      262143, 262144, 262145]}
SIZE_BLOCKS = [4096, 16384, 65536, 131072, 262144]
SIZE_TOKENS = ["\r", "\rW: t", "\r W: t", "\r\n W: t", " ", " W: t", "\nW: t", "\n W: t", "\n\n ", "\n \n ", "é"]
SIZE_TOKEN_NAMES = ["CR", "CR+field", "CR+blank+field", "CRLF+blank+field", "blank", "blank+field", "LF+field", "LF+blank+field",
                    "LF+LF", "LF+blank+LF", "two-byte"]
SIZE_SHAPES = {"first": "", "cont": "x\n "}
DUMP_OFFSET = 8          # len("X: 1\nK: "): where the value starts in the dump of the 'middle' layout, one-letter key


def gen_value(desc, seed):
    """the value a description stands for"""
    a = alphabet(seed)[0]
    kind = desc["ladder"]
    if kind == "lines":
        n, arr = desc["n"], desc["arr"]
        lines = [("\n", ("\t" if arr == "alt" and i % 2 else " ") + "%s%d" % (a, i)) for i in range(n)]
        if isinstance(arr, (list, tuple)):
            _s, si, where = arr
            lines[{"first": 0, "middle": n // 2, "last": n - 1}[where]] = LINE_SPECIALS[si]
        return "x" + "".join(sep + l for sep, l in lines)
    if kind == "fields":
        return FIELD_VALUES[desc["value"]]
    if kind == "size":
        L, pre = desc["L"], SIZE_SHAPES[desc["shape"]]
        if desc["filler"] == "words":
            body = ((a * 7 + " ") * (L // 8 + 1))[:L - len(pre) - 1] + a      # (never ends in a blank)
        else:
            body = a * (L - len(pre))
        v = pre + body
        if desc["token"] is not None:
            t, p = SIZE_TOKENS[desc["token"]], desc["at"]
            v = v[:p] + t + v[p + len(t):]
        assert len(v) == L, (desc, len(v))
        return v
    raise AssertionError(desc)


def size_places(L, shape, token):
    """offsets (in the value) where the token is put: behind the shape's prefix, at the very end, and around every block
    boundary inside: token starting at b-1, b, b+1, token ending at b, and token starting at b in the dump"""
    t, pre = SIZE_TOKENS[token], len(SIZE_SHAPES[shape])
    out = [pre + 1, L - len(t)]
    for b in SIZE_BLOCKS:
        out += [b - 1, b, b + 1, b - len(t), b - DUMP_OFFSET]
    seen = []
    for p in out:
        if pre + 1 <= p and p + len(t) <= L and p not in seen:
            seen.append(p)
    return seen


def ladder_cases(fam, arg, tier):
    """-> list of (position, key index, description, sources, readers) of one ladder unit, simplest first"""
    out = []
    if fam == "lines":
        n = arg
        arrs = ["plain", "alt"] + [["special", si, w] for si in range(len(LINE_SPECIALS))
                                   for w in (("first",) if n == 1 else ("first", "last") if n == 2 else ("first", "middle", "last"))]
        confs = [("middle", 0)] if n > 40 else [("only", 0), ("first", 0), ("middle", 0), ("last", 0), ("middle", 1)]
        for arr in arrs:
            for position, ki in confs:
                out.append((position, ki, {"ladder": "lines", "n": n, "arr": arr}, ALL_SOURCES, False))
    elif fam == "fields":
        n = arg
        ats = [0, n] if n == 1 else [0, n // 2, n]
        for at in ats:
            for vi in range(len(FIELD_VALUES)):
                if n <= 40 or n == 64:
                    out.append((["fields", n, at], 0, {"ladder": "fields", "value": vi}, READER_SOURCES, True))
                else:
                    out.append((["fields", n, at], 0, {"ladder": "fields", "value": vi}, ALL_SOURCES, False))
    else:
        L = arg
        srcs = ALL_SOURCES if L < 65535 else ("str", "bytes")
        confs = [("middle", 0)] if L > 4097 else [("only", 0), ("first", 0), ("middle", 0), ("last", 0), ("middle", 1)]
        for shape in ("first", "cont"):
            for filler in ("solid", "words"):
                for position, ki in confs:
                    out.append((position, ki, {"ladder": "size", "L": L, "shape": shape, "filler": filler, "token": None, "at": None},
                                srcs, False))
            for ti in range(len(SIZE_TOKENS)):
                for p in size_places(L, shape, ti):
                    for position, ki in confs:
                        out.append((position, ki, {"ladder": "size", "L": L, "shape": shape, "filler": "solid", "token": ti, "at": p},
                                    srcs, False))
    return out


def ladder_units(tier):
    out = [("X", "lines", n, 0) for n in LADDER_SMALL + LADDER_BIG]
    out += [("X", "fields", n, 0) for n in LADDER_SMALL + LADDER_FIELDS_BIG]
    out += [("X", "size", L, 0) for L in SIZES[tier]]
    return out


def ladder_cost(fam, arg):
    return {"lines": 40, "fields": 400, "size": 3}[fam] * (arg + 40)


def run_ladder(part, fam, arg, tier, seed):
    ks = keys(seed)
    case = None
    for position, ki, desc, sources, readers in ladder_cases(fam, arg, tier):
        v = gen_value(desc, seed)
        family = "ladder/" + fam if fam != "size" else "size/%s/%s" % (
            desc["shape"], "filler" if desc["token"] is None else SIZE_TOKEN_NAMES[desc["token"]])
        part.states += 1
        part.transitions += 1
        part.traces += 1
        part.max_depth = max(part.max_depth, len(v))
        case = {"position": position, "key": ks[ki], "gen": desc, "seed": seed, "sources": list(sources), "readers": readers,
                "family": family}
        for sig, exp, obs in execute(position, ks[ki], v, part, sources, readers=readers, family=family):
            part.violation(sig, case, exp, obs, rank=len(v))
        part.extra["%s ladder cases" % fam] += 1
    if case is not None:
        part.sample(case)
    return part


def replay(case):
    if "gen" in case:
        case = dict(case, value=gen_value(case["gen"], case["seed"]))
    return execute(case["position"], case["key"], case["value"], None, tuple(case.get("sources", ("str", "stringio"))),
                   case.get("route", "setitem"), case.get("class", "Deb822"), bool(case.get("readers")), case.get("family"))


def repro_py(case):
    if "gen" in case:
        return ("# run from /verif with the repository's lib directory first on sys.path\n"
                "from mc.props import c08\ncase = %r\n"
                "print(len(c08.gen_value(case['gen'], case['seed'])))   # the value is generated from its description\n"
                "bad = c08.replay(case)\nassert not bad, [b[0] for b in bad]\n" % (case,))
    return ("import io\nfrom debian.deb822 import Deb822\n"
            "position, key, v, more = %r, %r, %r, %r\n"
            "p = Deb822()\n"
            "if position in ('middle', 'last'): p['X'] = '1'\n"
            "if position != 'only': p[key] = '0'\n"
            "if position in ('first', 'middle'): p['Y'] = '2'\n"
            "before = (list(p.items()), p.dump())\n"
            "try:\n    p[key] = v\nexcept ValueError:\n    assert (list(p.items()), p.dump()) == before\nelse:\n"
            "    assert not v.endswith('\\n') and '\\n\\n' not in v\n"
            "    assert all(not l or l[0].isspace() for l in v.split('\\n')[1:])\n"
            "    want = [list(p.keys())]\n"
            "    s = {'whitespace-separates-paragraphs': False}\n"
            "    t = p.dump()\n"
            "    srcs = [lambda: t, lambda: io.StringIO(t)] + ([lambda: t.encode('utf-8'), lambda: t.splitlines(True)] if more else [])\n"
            "    for mk in srcs:\n"
            "        assert [list(q.keys()) for q in Deb822.iter_paragraphs(mk(), strict=s)] == want\n"
            "        if all(l.strip() for l in v.splitlines()[1:]):\n"
            "            assert [list(q.keys()) for q in Deb822.iter_paragraphs(mk())] == want\n"
            % (case["position"], case["key"], case["value"], len(case.get("sources", ())) > 2))
