"""C08 - an accepted field value can never inject fields or split the paragraph.

Engine B.  Every string up to the stated length over {letter, ':', '#', ' ', TAB, CR, LF} is assigned to a field in
first / middle / last position of a paragraph (overwriting) and to a new field of an empty paragraph, under the keys
'K' and 'Key-2'.
Oracle (the statement, nothing more):
  * ValueError  -> items() and dump() are exactly what they were;
  * accepted    -> dump(), read back with Deb822.iter_paragraphs(..., strict={'whitespace-separates-paragraphs':
                   False}) from a str and from a StringIO: exactly one paragraph with exactly the same key list; with
                   the default setting as well whenever no continuation line of the value is blank;
  * independently, a value that ends in LF, contains an empty line (LF LF) or has a line after an LF that starts
    with a non-whitespace character must be rejected.
"Line" is the reader's notion (boundaries LF, CR, CRLF).  Over-rejection is not a violation.

Second family, "structured continuation lines": values whose continuation lines are, behind their indentation, lines that
mean something to the reader in column 0 (PGP armor headers, an armor header field, a field line, a comment, '.', dashes):
one such line, all ordered pairs of them (thorough tier: all ordered triples too), the complete armor sequence; same positions, keys and oracle, re-read from
str, StringIO, bytes and a list of lines.
"""
import io
import itertools
import re

from .. import core

ID = "C08"
LEVEL = "model_checking"
RULE = ("Engine B walk of the value trie per (position, key) configuration: a state is (configuration, value "
        "string), a transition appends one character, a trace is one assignment executed on a real Deb822 paragraph "
        "(followed, when accepted, by dump and four re-reads).  evaluations = oracle clauses evaluated "
        "(unchanged-on-reject, must-reject, one per re-read).  A case is non-trivial when the value is accepted and "
        "contains a line break (LF or CR).  Outcome classes = rejected:<validator message> | accepted:<number of "
        "reader lines>:<blank continuation?>:<value read back identical / normalised>.  Structured continuation lines: "
        "one state / transition / trace per (configuration, value) with value = first line + 1..3 indented lines taken "
        "from a list of lines that are meaningful to the reader at column 0; dump and eight re-reads (2 settings x str, "
        "StringIO, bytes, list of lines); all of them non-trivial when accepted.")
BUDGET = {"quick": 240, "thorough": 3000}

POSITIONS = ("only", "first", "middle", "last")
ALL_SOURCES = ("str", "stringio", "bytes", "lines")
NOWS = {"whitespace-separates-paragraphs": False}


def alphabet(seed):
    return [core.rep(seed, ["a", "z", "Q", "7"]), ":", "#", " ", "\t", "\r", "\n"]


def keys(seed):
    return [core.rep(seed, ["K", "M", "k", "P"]), "Key-2"]


def _maxlen(tier):
    return {"quick": 6, "thorough": 8}[tier]


# thorough only: one more length for one (position, key) configuration - indexes into POSITIONS and keys()
DEEP_LEN = 9
DEEP_CONFIGS = [(2, 0)]


def bounds(tier):
    return {"value": "all strings of length 0..%d over {letter, ':', '#', ' ', '\\t', '\\r', '\\n'}" % _maxlen(tier) + (
                "" if tier == "quick" else "; all strings of length %d for the configuration(s) %s" % (
                    DEEP_LEN, ", ".join("(%s, %s)" % (POSITIONS[pi], keys(0)[ki]) for pi, ki in DEEP_CONFIGS))),
            "positions": {"only": "new field of an empty paragraph", "first": "overwrite K in [K, Y]",
                          "middle": "overwrite K in [X, K, Y]", "last": "overwrite K in [X, K]"},
            "keys": keys(0), "sources": ["str", "StringIO"],
            "settings": ["whitespace-separates-paragraphs=False", "default (only without blank continuation line)"],
            "structured_continuation_lines": {
                "lines": STRUCT_LINES, "first_lines": STRUCT_FIRST, "indents": STRUCT_INDENTS, "trailing": STRUCT_TRAIL,
                "values": "first + LF + indent + L + trailing for every L (%d); first + two such lines for all %d ordered "
                          "pairs (L1, L2), same indent, no trailing (indent of two blanks: the 25 pairs of armor lines); %sfirst + the three armor lines SIGNED MESSAGE / SIGNATURE "
                          "/ END SIGNATURE (+ 'Hash: SHA1' after the first); each L alone as the first line of the value and "
                          "followed by ' y': %d values per configuration" % (
                              len(STRUCT_LINES) * len(STRUCT_TRAIL), len(STRUCT_LINES) ** 2,
                              "" if tier == "quick" else
                              "first + three such lines for all %d ordered triples (L1, L2, L3), same indent, no trailing (indent "
                              "of two blanks: the 125 triples of armor lines); " % len(STRUCT_LINES) ** 3,
                              sum(len(struct_values(g, 0, tier)) for g in range(len(struct_groups())))),
                "sources": ["str", "StringIO", "bytes", "list of lines with newlines"]}}


def assumptions():
    return ["NBSP, VT, FF, U+0085, U+2028 ... are outside the domain by the statement; only the 7 stated character "
            "classes are explored", "over-rejection is not a violation",
            "must-reject clause: 'whitespace' at the start of a continuation line is what str.isspace says (CR counts), "
            "so a value such as 'a\\n\\rb' is not demanded to be rejected by that clause",
            "the seed rotates the letter and the one-letter key; shapes are the same",
            "structured continuation lines use printable ASCII outside the 7 classes ('-', upper-case words, digits, '.'); "
            "they are 'printable text' in the sense of the quantifier; trailing blank / tab after such a line is part of the "
            "value; the continuation lines are never blank, so both parser settings apply"]


# ------------------------------------------------------------------------------------------------ structured lines

STRUCT_LINES = ["-----BEGIN PGP SIGNED MESSAGE-----", "-----BEGIN PGP SIGNATURE-----", "-----END PGP SIGNATURE-----",
                "-----BEGIN PGP X-----", "-----END PGP X-----", "Hash: SHA1", "K: v", "K:", "#c", ".", "-", "--"]
STRUCT_FIRST = ["x", ""]
STRUCT_INDENTS = [" ", "\t", "  "]
STRUCT_TRAIL = ["", " ", "\t"]


def struct_groups():
    return [(f, ind) for f in STRUCT_FIRST for ind in STRUCT_INDENTS]


def struct_values(gi, seed=0, tier="quick"):
    """values of one (first line, indent) group, simplest first"""
    f, ind = struct_groups()[gi]
    if f:
        f = core.rep(seed, ["x", "y", "w", "u"])
    out = [f + "\n" + ind + L + t for L in STRUCT_LINES for t in STRUCT_TRAIL]
    two = STRUCT_LINES if len(ind) == 1 else STRUCT_LINES[:5]      # the two-character indent: armor lines only
    out += [f + "\n" + ind + L1 + "\n" + ind + L2 for L1 in two for L2 in two]
    if tier != "quick":
        out += [f + "".join("\n" + ind + L for L in seq) for seq in itertools.product(two, repeat=3)]
    sm, sig, end = STRUCT_LINES[:3]
    seqs = ((sm, sig, end), (sm, "Hash: SHA1", sig, end), (sm, ".", "q", sig, end))
    if tier != "quick":
        seqs = seqs[1:]            # the plain armor sequence is one of the triples
    out += [f + "".join("\n" + ind + L for L in seq) for seq in seqs]
    if gi == 0:
        # the line as the FIRST line of the value (column 0 of the value, behind 'Key: ' in the dump)
        out += [L for L in STRUCT_LINES] + [L + "\n y" for L in STRUCT_LINES]
    return out


# ------------------------------------------------------------------------------------------------ one case

_BOUNDARY = re.compile(r"\r\n|\r|\n")


def reader_lines(v):
    """Lines as the reader (and str.splitlines, inside the domain) sees them: boundaries LF, CR, CRLF."""
    out = _BOUNDARY.split(v)
    if out and out[-1] == "":
        out.pop()
    return out


def must_reject(v):
    """-> reason or None.  The three shapes the statement says are rejected (LF-based, as stated)."""
    if v.endswith("\n"):
        return "ends-in-newline"
    if "\n\n" in v:
        return "empty-line"
    for l in v.split("\n")[1:]:
        if l and not l[0].isspace():
            return "unindented-continuation"
    return None


def build(position, key):
    from debian.deb822 import Deb822
    p = Deb822()
    if position in ("middle", "last"):
        p["X"] = "1"
    if position != "only":
        p[key] = "0"
    if position in ("first", "middle"):
        p["Y"] = "2"
    return p


def _msg_class(e):
    return re.sub(r"[^a-z]+", "-", str(e).lower()).strip("-")[:40]


def execute(position, key, v, part=None, sources=("str", "stringio")):
    """-> list of (sig, expected, observed)"""
    from debian.deb822 import Deb822
    bad = []
    p = build(position, key)
    before = (list(p.items()), p.dump())
    mr = must_reject(v)
    ev = 1
    try:
        p[key] = v
    except ValueError as e:
        ev += 1
        after = (list(p.items()), p.dump())
        if after != before:
            bad.append(("reject/paragraph-changed", before, after))
        if part is not None:
            part.evaluations += ev
            part.outcomes["rejected:" + _msg_class(e)] += 1
        return bad
    except Exception as e:
        bad.append(("setitem/raises/%s" % type(e).__name__, "accepted or ValueError", "%s: %s" % (type(e).__name__, e)))
        if part is not None:
            part.evaluations += ev
            part.outcomes["raises:" + type(e).__name__] += 1
        return bad
    if mr:
        bad.append(("must-reject/accepted/" + mr, "ValueError", "accepted %r" % v))
    want = list(p.keys())
    text = p.dump()
    rl = reader_lines(v)
    blankcont = any(not l.strip(" \t\r\n") for l in rl[1:])
    readback = None
    for setting, strict in (("ws-continues", NOWS), ("default", None)):
        if strict is None and blankcont:
            continue
        for srcname in sources:
            src = (text if srcname == "str" else io.StringIO(text) if srcname == "stringio" else
                   text.encode("utf-8") if srcname == "bytes" else text.splitlines(True))
            ev += 1
            try:
                ps = list(Deb822.iter_paragraphs(src, strict=dict(strict) if strict else None))
            except Exception as e:
                bad.append(("reread/%s/%s/raises/%s" % (setting, srcname, type(e).__name__),
                            "one paragraph with keys %r" % want, "%s: %s (dump %r)" % (type(e).__name__, e, text)))
                continue
            got = [list(q.keys()) for q in ps]
            if got != [want]:
                if not ps:
                    what = "no-paragraph"
                elif len(ps) > 1:
                    what = "split"
                elif set(got[0]) - set(want):
                    what = "injected"
                elif set(want) - set(got[0]):
                    what = "truncated"
                else:
                    what = "reordered"
                bad.append(("reread/%s/%s/%s" % (setting, srcname, what), "one paragraph with keys %r" % want,
                            "%r from dump %r" % ([list(q.items()) for q in ps], text)))
            elif readback is None:
                readback = "same" if ps[0][key] == v else "normalised"
    if part is not None:
        part.evaluations += ev
        part.outcomes["accepted:lines=%d:blankcont=%s:readback=%s" % (len(rl), "y" if blankcont else "n", readback)] += 1
        if "\n" in v or "\r" in v:
            part.nontrivial += 1
        part.extra["accepted" if len(sources) == 2 else "accepted (structured continuation lines)"] += 1
    return bad


# ------------------------------------------------------------------------------------------------ units

def units(tier, seed):
    out = []
    for L in range(0, _maxlen(tier) + 1):
        # up to length 6 a unit is a prefix + all 7^4 endings; from length 7 on a prefix + all 7^5 endings
        plen = max(0, L - 4) if L <= 6 else L - 5
        for pre in itertools.product(range(7), repeat=plen):
            for pi in range(len(POSITIONS)):
                for ki in range(2):
                    out.append((L, pre, pi, ki))
    if tier != "quick":
        # a unit is a prefix + all 7^6 endings
        for pre in itertools.product(range(7), repeat=DEEP_LEN - 6):
            for pi, ki in DEEP_CONFIGS:
                out.append((DEEP_LEN, pre, pi, ki))
    for gi in range(len(struct_groups())):
        for pi in range(len(POSITIONS)):
            for ki in range(2):
                out.append(("S", gi, pi, ki))
    return out


def unit_cost(u, tier):
    L, pre, pi, ki = u
    if L == "S":
        return 2400
    return 7 ** (L - len(pre))


def run_unit(u, tier, seed):
    part = core.Part()
    L, pre, pi, ki = u
    al = alphabet(seed)
    position, key = POSITIONS[pi], keys(seed)[ki]
    if L == "S":
        part.max_depth = 6
        for v in struct_values(pre, seed, tier):
            part.states += 1
            part.transitions += 1
            part.traces += 1
            case = {"position": position, "key": key, "value": v, "sources": list(ALL_SOURCES)}
            for sig, exp, obs in execute(position, key, v, part, ALL_SOURCES):
                part.violation(sig, case, exp, obs, rank=len(v))
        part.sample(case)
        return part
    head = "".join(al[i] for i in pre)
    part.max_depth = L
    v = head
    for rest in itertools.product(al, repeat=L - len(pre)):
        v = head + "".join(rest)
        part.states += 1
        if L:
            part.transitions += 1
        part.traces += 1
        for sig, exp, obs in execute(position, key, v, part):
            part.violation(sig, {"position": position, "key": key, "value": v}, exp, obs)
    part.sample({"position": position, "key": key, "value": v})
    return part


def replay(case):
    return execute(case["position"], case["key"], case["value"], None, tuple(case.get("sources", ("str", "stringio"))))


def repro_py(case):
    return ("import io\nfrom debian.deb822 import Deb822\n"
            "position, key, v, more = %r, %r, %r, %r\n"
            "p = Deb822()\n"
            "if position in ('middle', 'last'): p['X'] = '1'\n"
            "if position != 'only': p[key] = '0'\n"
            "if position in ('first', 'middle'): p['Y'] = '2'\n"
            "before = (list(p.items()), p.dump())\n"
            "try:\n    p[key] = v\nexcept ValueError:\n    assert (list(p.items()), p.dump()) == before\nelse:\n"
            "    assert not v.endswith('\\n') and '\\n\\n' not in v\n"
            "    assert all(not l or l[0].isspace() for l in v.split('\\n')[1:])\n"
            "    want = [list(p.keys())]\n"
            "    s = {'whitespace-separates-paragraphs': False}\n"
            "    t = p.dump()\n"
            "    srcs = [lambda: t, lambda: io.StringIO(t)] + ([lambda: t.encode('utf-8'), lambda: t.splitlines(True)] if more else [])\n"
            "    for mk in srcs:\n"
            "        assert [list(q.keys()) for q in Deb822.iter_paragraphs(mk(), strict=s)] == want\n"
            "        if all(l.strip() for l in v.splitlines()[1:]):\n"
            "            assert [list(q.keys()) for q in Deb822.iter_paragraphs(mk())] == want\n"
            % (case["position"], case["key"], case["value"], len(case.get("sources", ())) > 2))
