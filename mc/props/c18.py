"""C18 - ed-style patch scripts are applied exactly.

Engine B.  The input space is the trie of (old, new) pairs of line lists; for every pair the ed script is
derived by mc.models.edscript.diff (own LCS, hunks bottom-up) and, where /usr/bin/diff exists, by
``diff -e`` itself (every such script is first validated by the model's own ed interpreter).  Each script
is run through  patch_lines(old, patches_from_ed_script(script))  as str and as bytes and must leave
old == new.  For the pairs of the length <= 3 universe every command line of every script is replaced by
each of eight malformed commands, and every script is cut at every point inside a text block; each of
these must raise ValueError.

The lengths named in this text are those of the quick tier (base space: lists of length <= 4).  The thorough tier
explores the base space up to length 7, the first look-alike space up to length 5, the second up to length 4, files of
12, 102 and 1002 lines in the 'long' space, corruptions and input kinds of valid scripts on the length <= 5 universe
(all kinds for corrupted scripts up to length 3); bounds() states the numbers for either tier.

Input kinds: patches_from_ed_script takes an Iterable of lines and reads it through iter().  Every script of the base
space whose two lists have length <= 3, and every script of the 'long' space, is supplied again as a tuple, as
iter(list), as a generator, as io.StringIO / io.BytesIO of the joined text and as an open (temporary) file positioned at
its start - the last four can be read once only; the result must be the same target lines.  The corrupted / truncated
scripts are supplied again in every kind for lists of length <= 2 and as iter(list) and io stream for length 3; each must
still raise ValueError.  One case = one script with all its other kinds.  A failure that the list form of the same script
shows too is left to the list case; one that only other kinds show is reported as ed/input-kind/<which kinds>/...

Routes: the same scripts (valid ones of the base space with both lists of length <= 3 and of the 'long' space; corrupted /
truncated ones for lists of length <= 2, thorough: <= 3 and two routes up to 4) once more along the other public ways of
doing the same thing: a caller-compiled re_cmd (keyword and positional), the deprecated aliases patchesFromEdScript /
patchLines, keyword arguments, the patches materialised as a list / as an iterator over a tuple before they are applied,
applied one at a time, applied by the slice assignment the triples are documented to mean, a list subclass as the line
store, a second reader of the other type alive and advanced in step, and lines and script without their newlines
(what str.splitlines() gives).  A failure only routes show is reported as ed/route/<which routes>/...

Beyond the small scope (bounds()["beyond_the_small_scope"]): count ladders - 1..40 ... 1025 hunks per script in nine
arrangements, the same hunks as n scripts in a row, 1..40 ... 5000 lines per text block / per deleted range (plain, look-alike,
command-like and blank lines), unterminated blocks of those lengths, a malformed command at every position of scripts of 1..40
hunks, two commands at one address (Nd + (N-1)a, Na + Na, Nd + Nd ...) at every position of scripts of 1..40 and 100 hunks,
files of 1002 / 10002 lines (4- and 5-digit addresses; thorough 100002) - and a size ladder for one line (997 .. 262145
characters).  Scripts are written directly from hunk lists; the expected result is the model interpreter's.  Signatures start
with ladder/ or size/.
"""
import io
import os
import re
import tempfile
import warnings

from .. import core
from ..models import edscript

ID = "C18"
LEVEL = "model_checking"
RULE = ("states = (old, new) pairs of the pair trie visited, plus the corrupted / truncated scripts derived from "
        "them; transitions = script lines fed to the implementation's reader (each line is one step of its "
        "command / text-block state machine); traces = complete scripts executed on the implementation (str and "
        "bytes counted separately); non-trivial = valid scripts with at least two commands (adjacent or multiple "
        "hunks, where bottom-up order matters) and corruptions / truncations that hit a command other than the "
        "first (the reader is mid-stream); every other input kind of a script (tuple, iterator, generator, io stream, "
        "open file) is a further trace per type over the same state, non-trivial by the same rule")
BUDGET = {"quick": 240, "thorough": 3000}

LOOKALIKES = ["..\n", ". \n"]
# content lines that look like commands or like the text-block terminator; they must travel through a text block unchanged
LOOKALIKES2 = ["1d\n", "2a\n", "1,2c\n", "0a\n", "...\n", ".x\n", " .\n", ".\r\n"]      # the last: a dot-only line of a CR LF file
LOOK_MAXLEN = {"quick": 2, "thorough": 4}
BADS = [("garbage", "x\n"), ("unknown-command", "1z\n"), ("non-numeric-range", "1,a\n"), ("no-address", "a\n"),
        ("negative-address", "-1d\n"), ("blank-before-command", "1 d\n"), ("range-on-append", "1,2a\n"),
        # beyond DESIGN.md's seven: nothing may follow the command letter (a regex that lost its "$" accepts it)
        ("trailing-garbage", "1dx\n"),
        # white space or a carriage return around an otherwise valid command is not part of the syntax
        ("trailing-cr", "1d\r\n"), ("trailing-blank", "1d \n"), ("leading-blank", " 1d\n"), ("trailing-cr-append", "1a\r\n"),
        # an element that is the empty string where a command is due (only a list or an iterator can hold one)
        ("empty-string", "")]
MAXLEN = {"quick": 4, "thorough": 7}
CHAIN_MAXLEN = {"quick": 2, "thorough": 3}
EXT_MAXLEN = {"quick": 3, "thorough": 5}
CORRUPT_MAXLEN = {"quick": 3, "thorough": 5}
KINDS = ["tuple", "iter", "generator", "stream", "file"]        # besides "list"
KINDS_FEW = ["iter", "stream"]
KIND_MAXLEN = {"quick": 3, "thorough": 5}
KIND_CORRUPT_ALL_MAXLEN = {"quick": 2, "thorough": 3}

selfcheck_result = None


def symbols(seed):
    # representatives of "three distinct ordinary lines"; the last triple looks like commands, which is
    # immaterial inside a text block and in the file being patched
    t = core.rep(seed, [("a", "b", "c"), ("x", "y", "z"), ("foo", "bar baz", "é"), ("1a", "2,3c", "4d")])
    return [s + "\n" for s in t]


def bounds(tier):
    n = MAXLEN[tier]

    def count(symbols, maxlen):
        return sum(symbols ** i for i in range(maxlen + 1))
    k = count(3, n)
    ne, nl = EXT_MAXLEN[tier], LOOK_MAXLEN[tier]
    ke, kl = count(3 + len(LOOKALIKES), ne), count(1 + len(LOOKALIKES2), nl)
    out = {"base": "all (old, new) pairs of line lists of length <= %d over 3 ordinary lines: %d^2 = %d pairs" % (n, k, k * k),
            "lookalikes": "all pairs of lists of length <= %d over the 3 lines + %r: %d^2 = %d pairs, of which the "
                          "%d without a look-alike are already in the base space and are not repeated"
                          % (ne, LOOKALIKES, ke, ke * ke, count(3, ne) ** 2),
            "lookalikes2": "all pairs of lists of length <= %d over the first ordinary line + %r: %d^2 = %d pairs, of which the "
                           "%d without such a line are in the base space and are not repeated; model script only"
                           % (nl, LOOKALIKES2, kl, kl * kl, (nl + 1) ** 2),
            "scripts": "edscript.diff for every pair; diff -e for every pair when /usr/bin/diff exists (executed on the "
                       "implementation when it differs textually from the model's script)",
            "types": ["str", "bytes"],
            "input_kinds": "list everywhere; %r for every valid script of the base space with both lists of length <= %d "
                           "and of the long space; corrupted / truncated scripts: all of these kinds for lists of length "
                           "<= %d, %r for length <= %d" % (KINDS, KIND_MAXLEN[tier], KIND_CORRUPT_ALL_MAXLEN[tier], KINDS_FEW,
                                                          CORRUPT_MAXLEN[tier]),
            "routes": "%r for every valid script of the base space with both lists of length <= %d and of the long space; %r for "
                      "corrupted / truncated scripts of lists of length <= %d%s" % (
                          ROUTES, KIND_MAXLEN[tier], REJECT_ROUTES, ROUTE_REJECT_ALL_MAXLEN[tier],
                          "" if not ROUTE_REJECT_FEW_MAXLEN[tier] else ", %r up to length %d" % (REJECT_ROUTES_FEW, ROUTE_REJECT_FEW_MAXLEN[tier])),
            "corruptions": "pairs of length <= %d of the base space: every command line x %r; every cut inside a text "
                           "block" % (CORRUPT_MAXLEN[tier], [b for _, b in BADS])}
    out["beyond_the_small_scope"] = {
        "hunks per script": "every n in 1..40 and %r hunks (3 lines of file per hunk), arrangements %r (all of one command form; the "
                            "five forms in rotation; one range deletion first / in the middle / last among one-line changes)"
                            % ([n for n in SCALE_HUNK_COUNTS if n > 40], HUNK_ARRS),
        "scripts in a row": "the same hunks as n one-command scripts applied one after the other to one list, n in 1..40 and "
                            "%r, arrangements cycle / all-a / all-dN" % [n for n in SCALE_HUNK_COUNTS if 40 < n <= 257],
        "malformed command among many": "scripts of n = 1..40 hunks: the command at EVERY position k replaced by each of %r; n = 100: "
                                        "one of them per position in rotation" % [b for _, b in SCALE_BADS],
        "lines per text block / per range": "every n in 1..40 and %r: a block of n lines as %r x block texts %r; ranges of n lines "
                                            "deleted / changed" % ([n for n in SCALE_COUNTS if n > 40], BLOCK_ARRS[:6], BLOCK_TEXTS),
        "unterminated block of n lines": "the same n, the block being the whole script / the last of 3 commands (%r), all block texts"
                                         % OPEN_ARRS,
        "two commands at one address": "scripts of h hunks, h in 1..40 and 100, the hunk at EVERY position k replaced by each of the "
                                       "pairs %r at its address (expected result: the model's ed interpreter)" % PAIR_FORMS,
        "address digits": "files of %r lines: every single hunk and every pair of non-overlapping hunks of the 'long' hunk set (top "
                          "of the file, the last five lines: addresses and ranges crossing 999/1000 and 9999/10000%s)"
                          % (ADDR_SIZES[tier], " and 99999/100000" if tier != "quick" else ""),
        "line sizes": "a file line and a text-block line of %r characters (+ newline) starting with each of %r, changed / appended / "
                      "deleted" % (SCALE_SIZES, LINE_HEADS),
        "input kinds": SCALE_KINDS, "types": ["str", "bytes"],
        "thinned out in the quick tier": "none" if tier != "quick" else (
            "hunks: n > 257 only in arrangements cycle / odd-middle; malformed command: every kind at the first, middle and last "
            "position, one kind in rotation at the others; text blocks with n > 40: change-only / last-of-3 / delete-range, n > 257 "
            "plain and '..' lines only; unterminated blocks with n > 40: plain and '..' lines; two commands at one address: every "
            "pair form for h in %r, d+a and a+d for every other h, list input only for h > 5; 10002-line file: single hunks and "
            "pairs (top of file, end of file)" % PAIR_HUNKS_ALL_FORMS)}
    if tier != "quick":
        out["long"] = ("files of %s lines (addresses of %s digits at the end of the file): one hunk and two non-overlapping "
                       "hunks at the top and around the last five lines" % (
                           " / ".join(str(x) for x in long_sizes(tier)),
                           " / ".join(str(len(str(x))) for x in long_sizes(tier))))
    return out


def assumptions():
    return ["lines that are exactly '.' are outside the domain (ed cannot carry them; diff -e emits an s/.// fix-up APT does not use)",
            "address-range errors (0c, 5,3d, addresses past the end) are semantic, not malformed commands, and are not generated",
            "every line of the files and of the scripts ends in a newline",
            "a script cut immediately after an a/c command line (no text at all) counts as an unterminated text block",
            "content lines that merely look like commands ('1d', '2a', '1,2c', '0a') or resemble the terminator ('...', '.x', "
            "' .') are ordinary lines of the files (second look-alike space, model script only); only a line that is "
            "exactly '.' is excluded",
            "patches_from_ed_script is declared for an Iterable of lines and reads it with iter(source): a tuple, an "
            "iterator, a generator, an io.StringIO / io.BytesIO and an open file (iterating them gives the lines with their "
            "line ends) are all inside the domain and work on the unchanged library; 'open file' is an anonymous temporary "
            "file (text mode UTF-8 / binary mode) written, flushed and positioned at 0; a bare str / bytes object is not a "
            "script (iterating it gives characters / ints)",
            "routes: re_cmd is the caller's own compiled pattern for the same command syntax (str pattern for str lines, "
            "bytes pattern for bytes lines); a patch is the documented triple (first index, one past the last, replacement "
            "lines), so applying it by slice assignment is the same operation; lines without newlines are what "
            "str.splitlines() gives - the library's own terminator test names '.' next to '.\\n' - and in that form an empty "
            "string is the library's end-of-stream marker, so empty content lines are not generated there (none of the line "
            "alphabets has one)",
            "beyond the small scope: scripts are built directly from hunk lists (an LCS diff of a 5000-line file is not needed to "
            "know the script), bottom-up like diff -e; the expected lines come from the model's ed interpreter and, where the "
            "script was made from hunks, must equal plain slicing (a model self-check; skipped above 1002 lines for cost); every "
            "count of a ladder and every position of the varied element is run - nothing is sampled; the inputs are regenerated "
            "from the compact description in the case",
            "two commands at one address (Nd then (N-1)a, Na twice, Nd twice ...) are ordinary sequential ed commands - the series "
            "of pdiffs given as one script already relies on that reading",
            "edscript.diff / edscript.apply are self-checked on the length <= 3 universe and every diff -e script used is "
            "first validated by edscript.apply"]


def _selfcheck():
    global selfcheck_result
    if selfcheck_result is None:
        selfcheck_result = edscript.selfcheck(maxlen=3)
    return selfcheck_result


def _has_lookalike(l):
    return any(x in LOOKALIKES for x in l)


def _has_lookalike2(l):
    return any(x in LOOKALIKES2 for x in l)


def units(tier, seed):
    _selfcheck()
    sym = symbols(seed)

    def grouped(space, olds, size, alone=lambda old: False):
        """one unit per old list (quick); thorough: `size` consecutive old lists per unit, except those that are `alone`"""
        if tier == "quick":
            return [{"space": space, "old": old} for old in olds]
        us = []
        for old in olds:
            if alone(old) or not us or "old" in us[-1] or len(us[-1]["olds"]) >= size:
                us.append({"space": space, "old": old} if alone(old) else {"space": space, "olds": []})
            if "olds" in us[-1]:
                us[-1]["olds"].append(old)
        return us
    # the units of the short old lists of the base space carry the corrupted scripts and the other input kinds
    out = grouped("base", edscript.all_lists(sym, MAXLEN[tier]), 3, alone=lambda old: len(old) <= CORRUPT_MAXLEN[tier])
    out += grouped("ext", edscript.all_lists(sym + LOOKALIKES, EXT_MAXLEN[tier]), 3)
    out += grouped("look", edscript.all_lists(sym[:1] + LOOKALIKES2, LOOK_MAXLEN[tier]), 9)
    # files long enough for two-digit addresses (9,10c / 10,12d / 12a): one and two hunks around lines 9..12 and line 1;
    # thorough: also around lines 99..102 and 999..1002
    for n in long_sizes(tier):
        out += [{"space": "long", "old": ["l%d\n" % i for i in range(1, n + 1)], "first": h}
                for h in range(len(long_hunks(n)))]
    # two successive scripts (old -> mid -> new, as a series of pdiffs) given as ONE script: ed commands act one after the
    # other, each on the result of those before it
    out += [{"space": "chain", "old": old} for old in edscript.all_lists(sym, CHAIN_MAXLEN[tier])]
    out += scale_units(tier)
    return out


LONG_LINES = 12


def long_sizes(tier):
    return [LONG_LINES] if tier == "quick" else [LONG_LINES, 102, 1002]


def long_hunks(n=LONG_LINES):
    """(first line, last line, replacement lines): delete/change ranges and insertions (first > last) near the
    boundary at which the addresses get one more digit (n = 12: 9/10), at the very top and at the very end of a file of n
    lines"""
    hs = []
    for i in (1, n - 4, n - 3, n - 2, n - 1, n):
        for j in (i, i + 1, i + 3):
            if j > n:
                continue
            for rep in ([], ["x\n"], ["x\n", "y\n"]):
                hs.append((i, j, rep))
    for after in (0, n - 4, n - 3, n - 2, n - 1, n):
        for rep in (["x\n"], ["x\n", "y\n"]):
            hs.append((after + 1, after, rep))
    return hs


def long_news(old, first):
    """all results of applying hunk `first` alone and together with every later, non-overlapping hunk"""
    hs = long_hunks(len(old))

    def apply(lines, hunks):
        out = list(lines)
        for i, j, rep in sorted(hunks, key=lambda h: -h[0]):
            out[i - 1:j] = rep
        return out
    h1 = hs[first]
    res = [apply(old, [h1])]
    lo1, hi1 = h1[0], max(h1[1], h1[0] - 1)
    for h2 in hs[first + 1:]:
        lo2, hi2 = h2[0], max(h2[1], h2[0] - 1)
        if hi1 < lo2 - 1 or hi2 < lo1 - 1:
            res.append(apply(old, [h1, h2]))
    uniq = []
    for r in res:
        if r != old and r not in uniq:
            uniq.append(r)
    return uniq


def unit_cost(u, tier):
    if u.get("space") == "scale":
        return 5000
    if u.get("space") == "chain":
        return 170 if tier == "quick" else 1600
    if tier != "quick":
        if "olds" in u:
            return {"base": 3300, "ext": 3900, "look": 1000}[u["space"]] * len(u["olds"])
        return {"base": 3300 + 6000, "long": 120}[u["space"]] + len(u["old"])
    return {"base": 400, "ext": 150, "look": 70, "long": 120}[u["space"]] + len(u["old"])


# ------------------------------------------------------------------------------------------------ execution

def _conv(binary):
    if binary:
        return lambda ls: [l.encode("utf-8") for l in ls]
    return lambda ls: list(ls)


def _first_bad_form(old, script, conv):
    """Which command form is the first whose application deviates from the model (signature only)."""
    from debian.debian_support import patches_from_ed_script, patch_lines
    try:
        patches = list(patches_from_ed_script(conv(script)))
    except Exception:
        return "reader"
    trace = []
    edscript.apply(conv(old), conv(script), trace)
    cmds = edscript.split_commands(script)
    if len(patches) != len(cmds):
        return "command-count"
    lines = conv(old)
    for k, p in enumerate(patches):
        try:
            patch_lines(lines, [p])
        except Exception:
            return cmds[k][2]
        if lines != trace[k]:
            return cmds[k][2]
    return "none"


_SCRATCH = {}


def _scratch(binary):
    """one anonymous temporary file per process and type (nothing is left on disk); a forked worker opens its own"""
    key = (os.getpid(), binary)
    if key not in _SCRATCH:
        _SCRATCH[key] = tempfile.TemporaryFile("w+b") if binary else tempfile.TemporaryFile("w+", encoding="utf-8")
    return _SCRATCH[key]


def make_source(kind, lines, binary):
    """the script `lines` (list of str or of bytes) as the input kind `kind`"""
    if kind == "list":
        return lines
    if kind == "tuple":
        return tuple(lines)
    if kind == "iter":
        return iter(lines)
    if kind == "generator":
        return (l for l in lines)
    nl, cr = (b"\n", b"\r") if binary else ("\n", "\r")
    assert all(l.endswith(nl) and l.count(nl) == 1 and cr not in l for l in lines), lines
    text = (b"" if binary else "").join(lines)
    if kind == "stream":
        return io.BytesIO(text) if binary else io.StringIO(text)
    assert kind == "file", kind
    f = _scratch(binary)
    f.seek(0)
    f.truncate(0)
    f.write(text)
    f.flush()
    f.seek(0)
    return f


def _one(case, binary, kind="list"):
    """-> None or (sig, expected, observed) for one type and one input kind"""
    from debian.debian_support import patches_from_ed_script, patch_lines
    conv = _conv(binary)
    lines = conv(case["old"])
    what = case["kind"]
    source = make_source(kind, conv(case["script"]), binary)
    try:
        patch_lines(lines, patches_from_ed_script(source))
    except ValueError as e:
        if what == "apply":
            return ("ed/apply/raises-ValueError", conv(case["new"]), "ValueError: %s" % (e,))
        return None
    except Exception as e:  # anything the code under test may raise besides ValueError
        name = type(e).__name__
        if what == "apply":
            return ("ed/apply/raises-%s" % name, conv(case["new"]), "%s: %s" % (name, e))
        return ("ed/%s/raises-%s" % (case["what"], name), "ValueError", "%s: %s" % (name, e))
    if what == "apply":
        want = conv(case["new"])
        if lines != want:
            return ("ed/apply/%s/wrong-result" % _first_bad_form(case["old"], case["script"], conv), want, lines)
        return None
    return ("ed/%s/accepted" % case["what"], "ValueError", "no exception; lines = %r" % (lines,))


ONE_SHOT = ("iter", "generator", "stream", "file")


def _kinds(case, binary):
    """the input kinds of case["via"] for one type -> None or (sig, expected, observed).  A failure that the list form of
    the same script shows too is left to the list case.  The signature names which kinds fail: 'one-shot' (every kind
    tried that can be read only once, and no other), 'every-kind', or the names of the failing kinds."""
    failing = []
    ref = False
    for kind in case["via"]:
        r = _one(case, binary, kind)
        if r is None:
            continue
        if ref is False:
            ref = _one(case, binary, "list")
        if ref is not None and ref[0] == r[0]:
            continue
        failing.append((kind, r))
    if not failing:
        return None
    names = [k for k, _r in failing]
    if len(names) > 1 and names == [k for k in case["via"] if k in ONE_SHOT]:
        label = "one-shot"
    elif len(names) > 1 and len(names) == len(case["via"]):
        label = "every-kind"
    else:
        label = "+".join(names)
    kind, (sig, exp, obs) = failing[0]
    parts = sig.split("/")[1:]
    if parts[0] == "corrupt":
        parts[:2] = ["malformed-command"]
    elif parts[0] == "apply" and parts[-1] == "wrong-result":
        parts = ["apply", "wrong-result"]
    return ("ed/input-kind/%s/%s" % (label, "/".join(parts)),
            "%r for the script given as %s, as for the list" % (exp, ", ".join(names)), "%s: %s" % (kind, obs))


# ------------------------------------------------------------------------------------------------ other routes

ROUTES = ["re_cmd-keyword", "re_cmd-positional", "aliases", "keyword-arguments", "patches-as-list", "patches-as-tuple-iterator",
          "one-patch-at-a-time", "slice-assignment", "list-subclass", "two-readers-alive", "lines-without-newlines"]
# routes that make a difference to a script that has to be refused (the reader is what refuses)
REJECT_ROUTES = ["re_cmd-keyword", "re_cmd-positional", "aliases", "keyword-arguments", "patches-as-list", "two-readers-alive",
                 "lines-without-newlines"]
REJECT_ROUTES_FEW = ["re_cmd-keyword", "lines-without-newlines"]
ROUTE_REJECT_ALL_MAXLEN = {"quick": 2, "thorough": 3}
ROUTE_REJECT_FEW_MAXLEN = {"quick": 0, "thorough": 4}
# a caller's own command pattern (the documented use of re_cmd): the same syntax, compiled by the caller
OWN_RE = {False: re.compile(r"^(\d+)(?:,(\d+))?([acd])$"), True: re.compile(br"^(\d+)(?:,(\d+))?([acd])$")}


class _List(list):
    """a list subclass (what an application may keep its lines in)"""


def _strip(ls):
    return [l[:-1] for l in ls]


def _apply_via(route, lines, script, binary, other_script):
    """apply `script` to `lines` (in place) along one route; other_script: the same script in the other type"""
    import debian.debian_support as ds
    pfes, pl = ds.patches_from_ed_script, ds.patch_lines
    if route == "re_cmd-keyword":
        pl(lines, pfes(script, re_cmd=OWN_RE[binary]))
    elif route == "re_cmd-positional":
        pl(lines, pfes(iter(script), OWN_RE[binary]))
    elif route == "aliases":
        with warnings.catch_warnings():
            warnings.simplefilter("ignore")
            ds.patchLines(lines, ds.patchesFromEdScript(script))
    elif route == "keyword-arguments":
        pl(lines=lines, patches=pfes(source=script, re_cmd=None))
    elif route == "patches-as-list":
        pl(lines, list(pfes(script)))
    elif route == "patches-as-tuple-iterator":
        pl(lines, iter(tuple(pfes(script))))
    elif route == "one-patch-at-a-time":
        for p in pfes(script):
            pl(lines, [p])
    elif route == "slice-assignment":
        # what the triples are documented to mean
        for first, last, repl in pfes(script):
            lines[first:last] = repl
    elif route == "list-subclass":
        held = _List(lines)
        pl(held, pfes(_List(script)))
        if type(held) is not _List:
            raise AssertionError("patch_lines replaced the object")
        lines[:] = list(held)
    elif route == "two-readers-alive":
        # a second reader (the same script in the other type) is alive and advanced in step with the first
        g1, g2 = pfes(script), pfes(other_script)
        mine, done2 = [], False
        while True:
            try:
                mine.append(next(g1))
            except StopIteration:
                break
            if not done2:
                try:
                    next(g2)
                except (StopIteration, ValueError):
                    done2 = True
        pl(lines, mine)
    elif route == "lines-without-newlines":
        bare = _strip(lines)
        pl(bare, pfes(_strip(script)))
        nl = b"\n" if binary else "\n"
        lines[:] = [l + nl for l in bare]
    else:
        raise KeyError(route)


def _route_one(case, binary, route):
    """like _one, for one route -> None or (sig, expected, observed)"""
    conv = _conv(binary)
    lines = conv(case["old"])
    what = case["kind"]
    try:
        _apply_via(route, lines, conv(case["script"]), binary, _conv(not binary)(case["script"]))
    except ValueError as e:
        if what == "apply":
            return ("ed/apply/raises-ValueError", conv(case["new"]), "ValueError: %s" % (e,))
        return None
    except Exception as e:
        name = type(e).__name__
        if what == "apply":
            return ("ed/apply/raises-%s" % name, conv(case["new"]), "%s: %s" % (name, e))
        return ("ed/%s/raises-%s" % (case["what"], name), "ValueError", "%s: %s" % (name, e))
    if what == "apply":
        want = conv(case["new"])
        if lines != want:
            return ("ed/apply/wrong-result", want, lines)
        return None
    return ("ed/%s/accepted" % case["what"], "ValueError", "no exception; lines = %r" % (lines,))


def _routes(case, binary):
    """the routes of case["routes"] for one type -> None or (sig, expected, observed); a failure that the plain call shows
    too is left to the plain case"""
    failing = []
    ref = False
    for route in case["routes"]:
        r = _route_one(case, binary, route)
        if r is None:
            continue
        if ref is False:
            ref = _one(case, binary, "list")
        if ref is not None and ref[0].split("/")[:2] == r[0].split("/")[:2]:
            continue
        failing.append((route, r))
    if not failing:
        return None
    names = [k for k, _r in failing]
    label = "every-route" if len(names) > 2 and len(names) == len(case["routes"]) else "+".join(names)
    route, (sig, exp, obs) = failing[0]
    parts = sig.split("/")[1:]
    if parts[0] == "corrupt":
        parts[:2] = ["malformed-command"]
    return ("ed/route/%s/%s" % (label, "/".join(parts)), "%r along %s, as for the plain call" % (exp, ", ".join(names)),
            "%s: %s" % (route, obs))


def exec_case(case):
    """-> list of (sig, expected, observed); [] = passes.  Shared by run_unit and replay."""
    one = _kinds if "via" in case else _routes if "routes" in case else _one
    rs = one(case, False)
    rb = one(case, True)
    if rs is None and rb is None:
        return []
    if rs is not None and rb is not None and rs[0] == rb[0]:
        return [rs]
    out = []
    if rs is not None:
        out.append((rs[0] + "/str-only" if rb is None else rs[0] + "/str", rs[1], rs[2]))
    if rb is not None:
        out.append((rb[0] + "/bytes-only" if rs is None else rb[0] + "/bytes", rb[1], rb[2]))
    return out


def _derived(old, new, script, src):
    """corruptions and truncations of one well-formed script, canonical order"""
    cmds = edscript.split_commands(script)
    for k, (pos, end, form) in enumerate(cmds):
        for name, bad in BADS:
            t = list(script)
            t[pos] = bad
            yield {"kind": "reject", "what": "corrupt/" + name, "old": old, "new": new, "src": src, "script": t}, k, form
        if end > pos:
            for cut in range(pos + 1, end + 1):
                yield {"kind": "reject", "what": "truncated-text-block", "old": old, "new": new, "src": src,
                       "script": script[:cut]}, k, form


def _run_chain(part, u, tier, seed):
    sym = symbols(seed)
    old = u["old"]
    lists = edscript.all_lists(sym, CHAIN_MAXLEN[tier])
    part.max_depth = 4 * CHAIN_MAXLEN[tier]
    for mid in lists:
        s1 = edscript.diff(old, mid)
        for new in lists:
            script = s1 + edscript.diff(mid, new)
            if edscript.apply(old, script) != new:
                raise AssertionError("model: %r does not take %r to %r" % (script, old, new))
            part.states += 1
            case = {"kind": "apply", "old": old, "new": new, "src": "model-chain", "script": script}
            bad = exec_chain_case(case)
            part.traces += 2
            part.evaluations += 2
            part.transitions += 2 * len(script)
            for sig, exp, obs in bad:
                part.violation(sig, case, exp, obs, rank=len(script))
            forms = [f for _, _, f in edscript.split_commands(script)]
            if bad:
                part.outcomes["VIOLATION:" + bad[0][0]] += 1
            else:
                part.outcomes["two scripts in one: applied:%d commands" % len(forms)] += 1
            if len(forms) >= 2:
                part.nontrivial += 1
            part.extra["two successive scripts given as one"] += 1
    part.sample(case)


def run_unit(u, tier, seed):
    part = core.Part()
    if u.get("space") == "chain":
        _run_chain(part, u, tier, seed)
        return part
    if u.get("space") == "scale":
        _run_scale(part, u, tier, seed)
        return part
    if "olds" in u:
        for old in u["olds"]:
            _run_old(part, {"space": u["space"], "old": old}, tier, seed)
    else:
        _run_old(part, u, tier, seed)
    return part


def _run_old(part, u, tier, seed):
    """all pairs (old, new) of one space for one old list"""
    sym = symbols(seed)
    old = u["old"]
    if u["space"] == "base":
        news = edscript.all_lists(sym, MAXLEN[tier])
    elif u["space"] == "long":
        news = long_news(old, u["first"])
    elif u["space"] == "look":
        news = edscript.all_lists(sym[:1] + LOOKALIKES2, LOOK_MAXLEN[tier])
        if not _has_lookalike2(old):
            news = [n for n in news if _has_lookalike2(n)]
    else:
        news = edscript.all_lists(sym + LOOKALIKES, EXT_MAXLEN[tier])
        if not _has_lookalike(old):
            news = [n for n in news if _has_lookalike(n)]
    # the second look-alike space uses the model's script only
    differ = edscript.DiffE() if edscript.have_diff() and u["space"] != "look" else None
    part.max_depth = 2 * {"base": MAXLEN[tier], "ext": EXT_MAXLEN[tier], "look": LOOK_MAXLEN[tier], "long": len(old)}[u["space"]]

    def run(case, outcome, nontrivial):
        bad = exec_case(case)
        n = 2 * len(case.get("via") or case.get("routes") or "1")       # str and bytes, every input kind / route
        part.traces += n
        part.evaluations += n
        part.transitions += n * len(case["script"])
        for sig, exp, obs in bad:
            part.violation(sig, case, exp, obs)
        if bad:
            part.outcomes["VIOLATION:" + bad[0][0]] += 1
        else:
            part.outcomes[outcome] += 1
            if nontrivial:
                part.nontrivial += n // 2

    try:
        external = differ.scripts([(old, new) for new in news]) if differ is not None else None
        for idx, new in enumerate(news):
            part.states += 1
            scripts = [("model", edscript.diff(old, new))]
            if external is not None:
                se = external[idx]
                if edscript.apply(old, se) != new:      # the external diff is checked by the model, not the repo
                    raise AssertionError("diff -e script %r does not take %r to %r under the model interpreter" % (se, old, new))
                part.extra["diff -e scripts validated by the model interpreter"] += 1
                if se != scripts[0][1]:
                    scripts.append(("diff-e", se))
                    part.extra["diff -e scripts that differ textually from the model's (executed too)"] += 1
            for src, script in scripts:
                forms = [f for _, _, f in edscript.split_commands(script)]
                case = {"kind": "apply", "old": old, "new": new, "src": src, "script": script}
                run(case, "applied:" + ("+".join(forms) or "(empty script)"), len(forms) >= 2)
                if idx in (1, len(news) // 2, len(news) - 1) and src == "model":
                    part.sample(case)
                small = u["space"] == "base" and len(old) <= KIND_MAXLEN[tier] and len(new) <= KIND_MAXLEN[tier]
                if small or u["space"] == "long":
                    run(dict(case, via=KINDS), "other input kinds (%s): applied:%s" % (
                        ", ".join(KINDS), "+".join(forms) or "(empty script)"), len(forms) >= 2)
                    part.extra["valid scripts x other input kinds"] += len(KINDS)
                    if idx == len(news) // 2 and src == "model":
                        part.sample(dict(case, via=KINDS))
                    run(dict(case, routes=ROUTES), "other routes: applied:%s" % ("+".join(forms) or "(empty script)"), len(forms) >= 2)
                    part.extra["valid scripts x other routes"] += len(ROUTES)
                    if idx == len(news) // 2 + 1 and src == "model":
                        part.sample(dict(case, routes=ROUTES))
                if u["space"] == "base" and len(old) <= CORRUPT_MAXLEN[tier] and len(new) <= CORRUPT_MAXLEN[tier]:
                    tiny = len(old) <= KIND_CORRUPT_ALL_MAXLEN[tier] and len(new) <= KIND_CORRUPT_ALL_MAXLEN[tier]
                    for dcase, k, form in _derived(old, new, script, src):
                        part.states += 1
                        run(dcase, "rejected:%s@%s-command:%s" % (dcase["what"], "first" if k == 0 else "later", form), k > 0)
                        part.extra["corrupted or truncated scripts"] += 1
                        via = KINDS if tiny else KINDS_FEW
                        if any(l == "" for l in dcase["script"]):
                            # a file cannot deliver an empty string other than at its end; the routes that strip newlines
                            # use it as their own end marker
                            via = [k for k in via if k not in ("stream", "file")]
                            run(dict(dcase, via=via), "other input kinds (%s): rejected:%s@%s-command:%s" % (
                                ", ".join(via), dcase["what"], "first" if k == 0 else "later", form), k > 0)
                            part.extra["corrupted or truncated scripts x other input kinds"] += len(via)
                            continue
                        if any("\r" in l for l in dcase["script"]):
                            # a text stream would translate the carriage return away before the library sees it
                            via = [k for k in via if k not in ("stream", "file")]
                        run(dict(dcase, via=via), "other input kinds (%s): rejected:%s@%s-command:%s" % (
                            ", ".join(via), dcase["what"], "first" if k == 0 else "later", form), k > 0)
                        part.extra["corrupted or truncated scripts x other input kinds"] += len(via)
                        size = max(len(old), len(new))
                        rts = (REJECT_ROUTES if size <= ROUTE_REJECT_ALL_MAXLEN[tier] else
                               REJECT_ROUTES_FEW if size <= ROUTE_REJECT_FEW_MAXLEN[tier] else None)
                        if rts:
                            run(dict(dcase, routes=rts), "other routes: rejected:%s@%s-command:%s" % (
                                dcase["what"], "first" if k == 0 else "later", form), k > 0)
                            part.extra["corrupted or truncated scripts x other routes"] += len(rts)
    finally:
        if differ is not None:
            differ.close()


# ------------------------------------------------------------------------------------------------ beyond the small scope

SCALE_COUNTS = list(range(1, 41)) + [63, 64, 65, 100, 127, 128, 129, 255, 256, 257, 999, 1000, 1001, 1025, 2500, 2501, 5000]
SCALE_HUNK_COUNTS = [n for n in SCALE_COUNTS if n <= 1025]
SCALE_SIZES = [997, 998, 999, 1000, 4095, 4096, 4097, 16383, 16384, 16385, 65535, 65536, 65537, 131071, 131072, 131073,
               262143, 262144, 262145]
HUNK_ARRS = ["all-d1", "all-dN", "all-c1", "all-cN", "all-a", "cycle", "odd-first", "odd-middle", "odd-last"]
BLOCK_ARRS = ["change-only", "append-only", "append-at-0", "first-of-3", "middle-of-3", "last-of-3", "delete-range", "change-range"]
BLOCK_TEXTS = ["plain", "dotdot", "commands", "blank", "blank-alternating"]
OPEN_ARRS = ["change-only", "append-only", "last-of-3"]
PAIR_FORMS = ["d+a", "a+d", "a+a", "d+d", "c+a", "a+c", "d+c", "c+d"]
PAIR_HUNKS = list(range(1, 41)) + [100]
PAIR_HUNKS_ALL_FORMS = [1, 2, 3, 5, 8, 13, 21, 25, 26, 33, 40]      # quick: every pair form for these, d+a and a+d for the others
ADDR_SIZES = {"quick": [1002, 10002], "thorough": [1002, 10002, 100002]}
LINE_HEADS = ["x", ".", "..", ". ", "1d", "é"]
SCALE_KINDS = ["list", "iter", "stream"]
SCALE_BADS = [("garbage", "x\n"), ("unknown-command", "1z\n"), ("trailing-garbage", "1dx\n"), ("leading-blank", " 1d\n"),
              ("range-on-append", "1,2a\n"), ("empty-string", "")]


def _script_from_hunks(hunks):
    """hunks (first, last, replacement) 1-based inclusive, first > last = insertion after `last` -> ed script, bottom-up"""
    out = []
    for i, j, rep in sorted(hunks, key=lambda h: -h[0]):
        if i > j:
            out.append("%da\n" % j)
        else:
            out.append(("%d" % i if i == j else "%d,%d" % (i, j)) + ("c\n" if rep else "d\n"))
        if rep:
            out += list(rep) + [".\n"]
    return out


def _apply_hunks(lines, hunks):
    out = list(lines)
    for i, j, rep in sorted(hunks, key=lambda h: -h[0]):
        out[i - 1:j] = rep
    return out


def _hunk_at(kind, at, k):
    return {"d1": (at, at, []), "dN": (at, at + 1, []), "c1": (at, at, ["x%d\n" % k]), "cN": (at, at + 1, ["x%d\n" % k, "y%d\n" % k]),
            "a": (at + 1, at, ["x%d\n" % k])}[kind]


def _ladder_hunks(h, arr):
    cyc = ["d1", "c1", "a", "dN", "cN"]
    hs = []
    for k in range(h):
        if arr.startswith("all-"):
            kind = arr[4:]
        elif arr == "cycle":
            kind = cyc[k % 5]
        else:
            odd = {"odd-first": 0, "odd-middle": h // 2, "odd-last": h - 1}[arr]
            kind = "dN" if k == odd else "c1"
        hs.append(_hunk_at(kind, 3 * k + 2, k))
    return hs


def _block_text(n, text):
    if text == "plain":
        return ["t%d\n" % i for i in range(n)]
    if text == "dotdot":
        return ["..\n"] * n
    if text == "commands":
        return [("%dd\n", "%da\n", "%d,%dc\n")[i % 3] % ((i + 1,) if i % 3 < 2 else (i + 1, i + 2)) for i in range(n)]
    if text == "blank":
        return ["\n"] * n
    return ["\n" if i % 2 else "t%d\n" % i for i in range(n)]


_ADDR_OLD = {}


def scale_build(case):
    """-> (old, script, new or None): the inputs are generated from the compact description; new is None for a script that has
    to be refused.  The expected result comes from the model interpreter edscript.apply (and, where the script was made from
    hunks, must agree with plain slicing - a check of the model, not of the library)."""
    fam = case["scale"]
    hunks = None
    if fam in ("hunks", "session", "bad-command"):
        h = case["n"]
        old = ["l%d\n" % i for i in range(1, 3 * h + 3)]
        hunks = _ladder_hunks(h, case["arr"])
        script = _script_from_hunks(hunks)
        if fam == "bad-command":
            pos = edscript.split_commands(script)[case["k"]][0]
            script = list(script)
            script[pos] = dict(SCALE_BADS)[case["bad"]]
            return old, script, None
    elif fam in ("block", "block-open"):
        n, arr = case["n"], case["arr"]
        text = _block_text(n, case["text"])
        if arr in ("delete-range", "change-range"):
            old = ["l%d\n" % i for i in range(1, n + 5)]
            hunks = [(3, n + 2, [] if arr == "delete-range" else ["x\n"])]
        else:
            old = ["l%d\n" % i for i in range(1, 7)]
            hunks = {"change-only": [(3, 3, text)], "append-only": [(4, 3, text)], "append-at-0": [(1, 0, text)],
                     "first-of-3": [(5, 5, text), (3, 3, ["x\n"]), (1, 1, [])], "middle-of-3": [(5, 5, []), (3, 4, text), (1, 1, ["x\n"])],
                     "last-of-3": [(5, 6, ["x\n"]), (3, 3, []), (1, 1, text)]}[arr]
        script = _script_from_hunks(hunks)
        if fam == "block-open":
            assert script[-1] == ".\n"
            return old, script[:-1], None
    elif fam == "pair":
        h, k, form = case["h"], case["k"], case["form"]
        old = ["l%d\n" % i for i in range(1, 3 * h + 4)]
        hs = _ladder_hunks(h, "cycle")
        at = 3 * k + 2
        A = lambda a, t: ["%da\n" % a, t, ".\n"]
        C = lambda a, t: ["%dc\n" % a, t, ".\n"]
        D = lambda a: ["%dd\n" % a]
        pair = {"d+a": D(at) + A(at - 1, "P\n"), "a+d": A(at - 1, "P\n") + D(at), "a+a": A(at, "P\n") + A(at, "Q\n"),
                "d+d": D(at) + D(at), "c+a": C(at, "P\n") + A(at, "Q\n"), "a+c": A(at, "P\n") + C(at, "Q\n"),
                "d+c": D(at) + C(at, "Q\n"), "c+d": C(at, "P\n") + D(at)}[form]
        script = _script_from_hunks(hs[k + 1:]) + pair + _script_from_hunks(hs[:k])
        return old, script, edscript.apply(old, script)
    elif fam == "addr":
        if _ADDR_OLD.get("n") != case["n"]:
            _ADDR_OLD.update(n=case["n"], old=["l%d\n" % i for i in range(1, case["n"] + 1)])
        old = _ADDR_OLD["old"]          # (never modified: every execution works on a copy)
        hunks = [(i, j, list(rep)) for i, j, rep in case["hunks"]]
        script = _script_from_hunks(hunks)
    elif fam == "line":
        L, head = case["L"], case["head"]
        long1 = head + ("ab" * L)[:L - len(head)] + "\n"
        long2 = head + ("yz" * L)[:L - len(head) - 1] + "é\n"
        old = ["a\n", long1, "c\n"]
        hunks = {"change": [(2, 2, [long2])], "append": [(3, 2, [long2])], "delete": [(2, 2, [])],
                 "change+delete": [(3, 3, [long2, long1]), (1, 2, [])]}[case["arr"]]
        script = _script_from_hunks(hunks)
    else:
        raise ValueError(fam)
    new = _apply_hunks(old, hunks)
    if fam != "addr" or case["n"] <= 1002:
        if edscript.apply(old, script) != new:
            raise AssertionError("model: the interpreter and plain slicing disagree for %r" % (case,))
    return old, script, new


def _scale_one(case, old, script, new, binary, kind):
    from debian.debian_support import patches_from_ed_script, patch_lines
    lines = list(old)
    if case["scale"] == "session":
        # one script per hunk, applied one after the other to the same list (the series a pdiff client goes through)
        cmds = edscript.split_commands([s.decode("utf-8") for s in script] if binary else script)
        sources = [script[pos:end + 1] for pos, end, _ in cmds]
    else:
        sources = [script]
    try:
        for src in sources:
            patch_lines(lines, patches_from_ed_script(make_source(kind, src, binary)))
    except ValueError as e:
        if new is None:
            return None
        return ("raises-ValueError", "%d lines" % len(new), "ValueError: %s" % (str(e)[:200],))
    except Exception as e:
        name = type(e).__name__
        return ("raises-%s" % name, "ValueError" if new is None else "%d lines" % len(new), "%s: %s" % (name, str(e)[:200]))
    if new is None:
        return ("accepted", "ValueError", "no exception; %d lines" % len(lines))
    if lines != new:
        k = next((i for i, (a, b) in enumerate(zip(lines, new)) if a != b), min(len(lines), len(new)))
        short = lambda l: l if len(l) < 60 else l[:30] + (b"..." if binary else "...") + l[-20:]
        return ("wrong-result", "%d lines; line %d = %r" % (len(new), k + 1, short(new[k]) if k < len(new) else None),
                "%d lines; line %d = %r" % (len(lines), k + 1, short(lines[k]) if k < len(lines) else None))
    return None


def scale_prefix(case):
    fam = case["scale"]
    if fam == "hunks":
        return "ladder/hunks/%s" % case["arr"]
    if fam == "session":
        return "ladder/scripts-in-a-row/%s" % case["arr"]
    if fam == "bad-command":
        return "ladder/hunks/malformed-command/%s" % case["bad"]
    if fam == "block":
        return "ladder/block-lines/%s" % case["arr"]
    if fam == "block-open":
        return "ladder/block-lines/unterminated/%s" % case["arr"]
    if fam == "pair":
        return "ladder/pair-at-one-address/%s" % case["form"]
    if fam == "addr":
        return "ladder/address-digits/%d" % len(str(case["n"]))
    return "size/line/%s" % case["arr"]


def exec_scale_case(case, built=None, cache=None):
    """-> list of (sig, expected, observed)"""
    old, script, new = built or scale_build(case)
    out = []
    for kind in case.get("kinds", SCALE_KINDS):
        if kind == "stream" and any(l == "" for l in script):
            continue
        res = {}
        for binary in (False, True):
            if cache is not None and ("old", binary) in cache:
                o = cache[("old", binary)]
            else:
                o = _conv(binary)(old)
                if cache is not None:
                    cache[("old", binary)] = o
            res[binary] = _scale_one(case, o, _conv(binary)(script), None if new is None else (
                _apply_hunks(o, [(i, j, _conv(binary)(rep)) for i, j, rep in case["hunks"]]) if case["scale"] == "addr" else _conv(binary)(new)),
                binary, kind)
        rs, rb = res[False], res[True]
        pre = scale_prefix(case) + ("" if kind == "list" else "/given-as-" + kind)
        if rs is None and rb is None:
            continue
        if rs is not None and rb is not None and rs[0] == rb[0]:
            out.append(("%s/%s" % (pre, rs[0]), rs[1], rs[2]))
        else:
            if rs is not None:
                out.append(("%s/%s/%s" % (pre, rs[0], "str-only" if rb is None else "str"), rs[1], rs[2]))
            if rb is not None:
                out.append(("%s/%s/%s" % (pre, rb[0], "bytes-only" if rs is None else "bytes"), rb[1], rb[2]))
        if kind == "list":
            break           # the other kinds would only repeat it
    return out


def scale_units(tier):
    out = [{"space": "scale", "family": "hunks", "arr": arr} for arr in HUNK_ARRS]
    out += [{"space": "scale", "family": "session"}, {"space": "scale", "family": "bad-command"}]
    out += [{"space": "scale", "family": "block", "text": t} for t in BLOCK_TEXTS]
    out += [{"space": "scale", "family": "block-open"}]
    out += [{"space": "scale", "family": "pair", "h": h} for h in PAIR_HUNKS]
    out += [{"space": "scale", "family": "addr", "n": n, "half": half} for n in ADDR_SIZES[tier] for half in (0, 1, 2, 3)]
    out += [{"space": "scale", "family": "line"}]
    return out


def _scale_cases(u, tier):
    """the cases of one unit; the quick tier thins the most expensive ladders out (bounds() says how), thorough runs them in full"""
    fam = u["family"]
    quick = tier == "quick"
    if fam == "hunks":
        for n in SCALE_HUNK_COUNTS:
            if quick and n > 257 and u["arr"] not in ("cycle", "odd-middle"):
                continue
            yield {"scale": "hunks", "n": n, "arr": u["arr"]}, n
    elif fam == "session":
        for arr in ("cycle", "all-a", "all-dN"):
            for n in [x for x in SCALE_HUNK_COUNTS if x <= 257]:
                yield {"scale": "session", "n": n, "arr": arr}, n
    elif fam == "bad-command":
        for n in [x for x in SCALE_HUNK_COUNTS if x <= 40] + [100]:
            for k in range(n):
                for b, (name, _bad) in enumerate(SCALE_BADS):
                    if (n > 40 or (quick and k not in (0, n // 2, n - 1))) and b != (k + n) % len(SCALE_BADS):
                        continue
                    case = {"scale": "bad-command", "n": n, "arr": "cycle", "k": k, "bad": name}
                    if name == "empty-string":
                        case["kinds"] = ["list", "iter"]
                    yield case, n
    elif fam == "block":
        for n in SCALE_COUNTS:
            for arr in BLOCK_ARRS:
                if arr in ("delete-range", "change-range") and u["text"] != "plain":
                    continue
                if quick and n > 40 and (arr not in ("change-only", "last-of-3", "delete-range") or
                                         (n > 257 and u["text"] not in ("plain", "dotdot"))):
                    continue
                yield {"scale": "block", "n": n, "arr": arr, "text": u["text"]}, n
    elif fam == "block-open":
        for n in SCALE_COUNTS:
            for arr in OPEN_ARRS:
                for text in BLOCK_TEXTS:
                    if quick and n > 40 and text not in ("plain", "dotdot"):
                        continue
                    yield {"scale": "block-open", "n": n, "arr": arr, "text": text}, n
    elif fam == "pair":
        for k in range(u["h"]):
            for form in PAIR_FORMS:
                if quick and u["h"] not in PAIR_HUNKS_ALL_FORMS and form not in ("d+a", "a+d"):
                    continue
                case = {"scale": "pair", "h": u["h"], "k": k, "form": form}
                if quick and u["h"] > 5:
                    case["kinds"] = ["list"]
                yield case, u["h"]
    elif fam == "addr":
        n = u["n"]
        hs = long_hunks(n)
        for a in range(len(hs)):
            if a % 4 != u["half"]:
                continue
            yield {"scale": "addr", "n": n, "hunks": [hs[a]], "kinds": ["list"] if n > 1002 else SCALE_KINDS}, 1
            lo1, hi1 = hs[a][0], max(hs[a][1], hs[a][0] - 1)
            for h2 in hs[a + 1:]:
                lo2, hi2 = h2[0], max(h2[1], h2[0] - 1)
                if quick and n > 1002 and not (hi1 <= 4 and lo2 > 4):
                    continue            # quick: in the 5-digit file only pairs of a hunk at the top with one at the end
                if hi1 < lo2 - 1 or hi2 < lo1 - 1:
                    yield {"scale": "addr", "n": n, "hunks": [hs[a], h2], "kinds": ["list"]}, 2
    elif fam == "line":
        for L in SCALE_SIZES:
            for head in LINE_HEADS:
                for arr in ("change", "append", "delete", "change+delete"):
                    yield {"scale": "line", "L": L, "head": head, "arr": arr}, L


def _run_scale(part, u, tier, seed):
    cache = {} if u["family"] == "addr" else None
    for case, rank in _scale_cases(u, tier):
        built = scale_build(case)
        bad = exec_scale_case(case, built, cache)
        n = 2 * len(case.get("kinds", SCALE_KINDS))
        part.states += 1
        part.traces += n
        part.evaluations += n
        part.transitions += n * len(built[1])
        part.max_depth = max(part.max_depth, len(built[1]) if len(built[1]) < 100000 else 0)
        for sig, exp, obs in bad:
            part.violation(sig, case, exp, obs, rank=rank)
        if bad:
            part.outcomes["VIOLATION:" + bad[0][0]] += 1
        else:
            part.outcomes[("refused: " if built[2] is None else "applied: ") + scale_prefix(case)] += 1
            part.nontrivial += 1
            part.extra["beyond the small scope: %s cases" % u["family"]] += 1
        if rank in (40, 65536) or (u["family"] == "addr" and len(part.samples) < 1):
            part.sample(case)


def exec_chain_case(case):
    return [("ed/two-scripts-in-one/" + sig.partition("/")[2], exp, obs) for sig, exp, obs in exec_case(case)]


def replay(case):
    if case.get("scale"):
        return exec_scale_case(case)
    if case.get("src") == "model-chain":
        return exec_chain_case(case)
    return exec_case(case)


def repro_py(case):
    if case.get("scale"):
        return ("from mc.props import c18\ncase = %r\n"
                "old, script, new = c18.scale_build(case)      # generated from the description; new is None = must be refused\n"
                "bad = c18.exec_scale_case(case)\nassert not bad, bad\n" % (case,))
    return ("import io, tempfile\n"
            "from debian.debian_support import patches_from_ed_script, patch_lines\n"
            "case = %r\n"
            "def source(lines, binary, kind):\n"
            "    if kind in ('stream', 'file'):\n"
            "        text = (b'' if binary else '').join(lines)\n"
            "        if kind == 'stream':\n"
            "            return io.BytesIO(text) if binary else io.StringIO(text)\n"
            "        f = tempfile.TemporaryFile('w+b') if binary else tempfile.TemporaryFile('w+', encoding='utf-8')\n"
            "        f.write(text); f.flush(); f.seek(0)\n"
            "        return f\n"
            "    return {'list': list, 'tuple': tuple, 'iter': iter, 'generator': lambda ls: (l for l in ls)}[kind](lines)\n"
            "for kind in case.get('via', ['list']):\n"
            "  for binary, conv in ((False, list), (True, lambda ls: [l.encode('utf-8') for l in ls])):\n"
            "    lines = conv(case['old'])\n"
            "    if case['kind'] == 'apply':\n"
            "        patch_lines(lines, patches_from_ed_script(source(conv(case['script']), binary, kind)))\n"
            "        assert lines == conv(case['new']), (kind, lines)\n"
            "    else:\n"
            "        try:\n"
            "            patch_lines(lines, patches_from_ed_script(source(conv(case['script']), binary, kind)))\n"
            "        except ValueError:\n"
            "            continue\n"
            "        raise AssertionError('malformed script accepted as %%s; lines = %%r' %% (kind, lines))\n" % (case,))
