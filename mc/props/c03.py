"""C03 - version ordering = dpkg's, a consistent total preorder, hash-consistent.

Engine B over pairs and triples of valid version strings.

Space: U_n = every valid version string of length <= n over {0,1,9,a,B,.,+,~,-,:} (valid = accepted by
mc.models.versyntax under both readings of the hyphen rule, body not starting or ending with '-'),
plus the structured set S (epoch x upstream x revision spellings of "the same" version).  Every unordered
pair {a, b} of U_n + S is executed in both directions; every triple of T = U_2 + S-core is evaluated.

Second set S2 (own work units, listed first): versions whose upstream part contains a colon (epochs x upstreams
x revisions, so that (x, y:z) and (x:y, z) meet in both orders) and numeric boundaries (digit runs of 17-25
characters with and without leading zeros, equal values that differ only in leading zeros, neighbours such as
...09 / ...10, values around 2**53, 2**63 and 2**64; in upstream and in revision position).  Every unordered pair
of S2 and every pair of S2 x K (K = a core of the old space) is executed in both directions.  One further unit
("history") asks all ordered pairs of a subset H of S2 twice in one process: comparison is a pure function, so an
answer may not depend on what was asked before.

Oracle per ordered pair (x, y): version_compare(x, y) and the six rich comparisons of Version objects
equal the sign given by mc.models.dpkgver (key order, asserted equal to the verrevcmp transliteration);
exactly one of <, ==, > and <=, !=, >= consistent with them; version_compare(a, b) == -version_compare(b, a);
a == b => hash(a) == hash(b).  Per triple: <= and == are transitive.

Routes ("the other way in"): every unordered pair of R (K + the colon set + every 8th other string of S2) is also asked
with the other operand kinds (a str or str-subclass operand on either side, NativeVersion, BaseVersion and subclass
operands, version_compare on objects and mixed arguments, functools.cmp_to_key(version_compare)), on copies / pickles and
on objects that were given their value by assignment after they had been hashed and compared, and through containers
(set, dict, list membership, min, max, sorted of the pair); R in five arrangements and every ordered triple of 20 strings
go through sorted / list.sort / reverse / cmp_to_key / key=Version / bisect.insort / heapq / min / max / set / dict.

Beyond the small scope (own work units, signatures ladder/... and size/...): count ladders - for every n in 1..40 and
63..1001 (thorough: ..5000) a version with n alternating digit / non-digit runs (in the upstream part and in the revision,
five separator kinds, digit or non-digit run first), with n hyphens, with n colons, compared with its neighbours (one run
changed at the end / before the end / in the middle / at the start, leading zeros, one more run after n identical ones,
-0 and 0: spellings); a size ladder - one digit run of 997 .. 65 537 digits, one other run of 997 .. 4 097 (thorough: 16 385)
characters.  Cases are regenerated from (family, n, variant names, seed).
"""
import copy
import itertools
import pickle

from .. import core
from ..models import dpkgver, versyntax

ID = "C03"
LEVEL = "model_checking"
RULE = ("states = valid version strings in the space (U_n + S, enumerated by walking all strings over the alphabet and "
        "keeping those the recogniser calls valid, plus the strings of S2 - colon-in-upstream versions and numeric "
        "boundaries - that are not already in U_n + S); transitions = ordered pairs (x, y) compared; traces = ordered pairs "
        "executed on the implementation (version_compare + six operators + hashes) plus ordered pairs executed for the "
        "triple matrices; evaluations = ordered pairs + triples evaluated against the oracle; non-trivial = unordered "
        "pairs of different spellings that are equal versions, or whose order is decided by a rule other than a plain "
        "same-kind difference ('~' or a letter against another kind, the end of a part against anything); the pairs are "
        "all of (U_n + S)^2, S2^2 and S2 x K (K = core of U_n + S), each unordered pair owned by exactly one work unit; the "
        "S2 units come first in the unit list (a failure that depends on earlier comparisons is then found early by "
        "the runner's sequential replay) and violations are ranked by the length of the pair; routes: one state per string "
        "of R, transitions = ordered pairs of R, traces / evaluations = route families executed per ordered pair (15) and "
        "per sorted list (11); ladders (beyond the small scope): one state per variant string of a (family, count) or (kind, size), "
        "transitions / traces / evaluations = ordered pairs of variants executed, outcome classes prefixed ladder/ and size/")
BUDGET = {"quick": 240, "thorough": 3000}

SIGMA = "019aB.+~-:"
S_EPOCHS = ["", "0:", "00:", "1:", "10:"]
S_UPSTREAMS = ["1.0", "1.00", "1.0~", "1.0a", "1.0+", "1.a", "a1", "1~~", "1.0-1-2"]
S_REVISIONS = ["", "-0", "-00", "-1", "-~", "-a"]
CORE_EPOCHS = ["", "0:", "1:"]
CORE_UPSTREAMS = ["1.0", "1.00", "1.0~", "1.a"]
CORE_REVISIONS = ["", "-0", "-~", "-a"]
# strings sent to dpkg --compare-versions in the model self check (64 -> 4096 ordered pairs, ~2 s)
CROSS_SMALL = "01a.~"
CROSS_EXTRA = ["9", "B", "+", "19", "91", "aB", "Ba", ".+", "+.", "a+", "+a", "B.", "~+",
               "1-1", "1-0", "1-~", "1-a", "0:1", "1:0", "1:1-1", "01:1", "1.0-0", "1.00", "0:1.0-0", "1.0~", "1~~",
               "1.0-1-2", "10:a1-~", "00:1.0", "1.0-00", "1.a", "1.0a", "1.0+", "1.0.a"]
TRIPLE_UNITS = 24

# S2, part (a): a colon inside the upstream part (legal only together with an epoch).  va + ":" + vb style
# collisions between (x, y:z) and (x:y, z) need both kinds of operand; '2' is never produced by the seed rotation.
S2_EPOCHS = ["1:", "0:"]
S2_COLON_UPSTREAMS = ["1", "2", "1:1", "1:2", "2:1", "1:1:2", "1:2:1"]
S2_REVISIONS = ["", "-1"]
# S2, part (b): digit runs.  Not rotated by the seed (only the prefix in front of them is).
S2_SMALL_RUNS = ["0", "1", "2", "9", "10"]
S2_RUN_LENGTHS = [17, 18, 19, 20, 25]
S2_POWER_RUNS = [str(v) for v in (2 ** 53, 2 ** 53 + 1, 2 ** 63 - 1, 2 ** 63, 2 ** 64 - 1, 2 ** 64)]
S2_UPSTREAM_PREFIX = "1."          # run in upstream position: 1.<run>
S2_REVISION_PREFIX = "1.0-"        # run in revision position: 1.0-<run>
# K: the strings of U_n + S every S2 string is compared with
K_EXTRA = ["0", "1", "9", "a", "B", ".", "+", "~", "10", "1:1", "0:1", "1-1"]

selfcheck_result = {}
_CACHE = {}


def n_for(tier):
    return 3 if tier == "quick" else 4


def bounds(tier):
    n = n_for(tier)
    return {"alphabet": list(SIGMA), "max_length": n, "U_n": "all valid strings of length <= %d" % n,
            "S": "%d epochs x %d upstreams x %d revisions" % (len(S_EPOCHS), len(S_UPSTREAMS), len(S_REVISIONS)),
            "pairs": "all unordered pairs of U_n + S, both directions", "triples": "all triples of U_2 + S-core",
            "S2_colon": "%d epochs %r x %d upstreams %r x %d revisions %r" % (
                len(S2_EPOCHS), S2_EPOCHS, len(S2_COLON_UPSTREAMS), S2_COLON_UPSTREAMS, len(S2_REVISIONS), S2_REVISIONS),
            "S2_numeric": "%d digit runs: the short runs %r; for each length L in %r: 10**(L-1), 10**(L-1)+9, 10**(L-1)+10, 10**L-1 "
                          "(no leading zeros) and 0, 1, 9, 10, 10**(L-1)-1 padded with zeros to L digits; "
                          "2**53, 2**53+1, 2**63-1, 2**63, 2**64-1, 2**64 (upstream position only); every run as %s<run> "
                          "and as %s<run>" % (len(s2_runs()), S2_SMALL_RUNS, S2_RUN_LENGTHS, S2_UPSTREAM_PREFIX,
                                              S2_REVISION_PREFIX),
            "S2": "%d strings" % len(s2_raw({})),
            "K": "%d strings of U_n + S: S-core%s + %r" % (len(k_raw(tier)), "" if tier == "quick" else " + U_2", K_EXTRA),
            "history": "one work unit that asks all ordered pairs of H (%d strings: the colon set and every 8th other string "
                       "of S2) twice in one process, the second time in reverse order with new objects" % len(history_strings({"s2": s2_raw({})})),
            "routes": {"R": "%d strings: K, R_EXTRA, the colon set of S2, every 8th other string of S2; all unordered pairs, both "
                            "directions" % len(route_strings({"k": k_raw(tier), "s2": s2_raw({})})),
                       "per_ordered_pair": ["Version op str (six operators)", "str op Version (reflected, six)", "Version op str-subclass",
                                            "NativeVersion op NativeVersion", "Version op NativeVersion", "Version op BaseVersion",
                                            "Version op subclass and subclass op Version (six each; Python asks the subclass first)",
                                            "version_compare(Version, Version), (str, Version), (Version, str), (str-subclass, BaseVersion), "
                                            "(BaseVersion, BaseVersion)", "functools.cmp_to_key(version_compare)",
                                            "copy.copy / copy.deepcopy / pickle of the operands (order and hash)",
                                            "objects given their value by assignment (full_version; epoch, upstream_version, "
                                            "debian_revision one by one) after being hashed and compared: order against each other and "
                                            "against constructed objects, hash equal to the constructed object's",
                                            "len({X, Y}), Y in {X}, {X: 1}.get(Y), Y in [X], [X].count(Y), {X} - {Y}", "min(X, Y), max(X, Y)",
                                            "sorted([X, Y]), sorted(reverse=True), sorted(strings, key=cmp_to_key(version_compare))"],
                       "sorting": "R in the arrangements %r and all ordered triples of %d strings through sorted, list.sort, "
                                  "sorted(reverse=True), sorted(key=cmp_to_key(version_compare)), sorted(key=Version), bisect.insort, "
                                  "heapq, min, max, len(set()), len(dict.fromkeys()): the stable sort by dpkg's key"
                                  % (ARRANGEMENTS, len(K_EXTRA) + 8)},
            "ladders": {"counts": "every n in 1..40 and %r%s" % (LADDER_BIG, "" if tier == "quick" else " and %r" % LADDER_THOROUGH),
                        "families": "%d: (position, separator, first run) = %r; n = number of alternating digit / non-digit runs "
                                    "(digit runs cycle through %r, 'mixed' separators through %r); for the separators '-' and ':' n = "
                                    "number of hyphens / colons in the upstream part (2n + 1 runs)" % (
                                        len(LADDER_FAMILIES), LADDER_FAMILIES, LADDER_DIGITS, LADDER_MIXED),
                        "quick_tier_cut": "counts of 255 and more only for the families %r (quick); all families (thorough)" % (LADDER_QUICK_WIDE,),
                        "variants_per_count": "base; last run / run before it / middle run / first run changed; a leading zero in the last and "
                                              "in the first number; one more run after the n identical ones (%r: one version a proper prefix of "
                                              "the other); base-0 and 0:base" % (LADDER_EXTENSIONS,),
                        "pairs": "size ladder: base against every variant, and neighbouring variants (quick: for digit runs only); count ladders, quick: every pair for n <= 4; base against every variant (+ neighbouring variants for n <= 10); thorough: "
                                 "every pair for n <= 40, base against every variant and neighbouring variants above; both directions; "
                                 "the variants of one count through the sorting routes where neighbouring variants are compared"},
            "size_ladder": {"digit_run_lengths": SIZE_DIGIT_RUN,
                            "other_run_lengths": SIZE_OTHER_RUN + ([] if tier == "quick" else SIZE_OTHER_RUN_THOROUGH),
                            "note": "one run of exactly L characters (all ones / last or first digit larger / zero-padded / L-1 / L+1 / all "
                                    "zeros; letters, '~', '.'), in upstream and revision position, an all-zero epoch of L digits for "
                                    "L <= 4300; non-digit runs longer than 16 385 are left out (the library compares them in about "
                                    "1 microsecond per character and operator)"},
            "S2_pairs": "all unordered pairs of S2 and all pairs S2 x K, both directions (pairs already in (U_n + S)^2 "
                        "are left to the units of that space)"}


def assumptions():
    return ["dpkg's order is the one in lib/dpkg/version.c (transliterated in mc/models/dpkgver.py and cross-checked "
            "against the installed dpkg --compare-versions on 4096 pairs per run when dpkg is present)",
            "valid version string = accepted by mc/models/versyntax.py under both readings of the hyphen rule; bodies "
            "that start or end with '-' are outside the space (dpkg rejects them, the class accepts them, the statement "
            "is silent - see C14)",
            "Version is NativeVersion (python-apt is not installed)",
            "the seed rotates the non-zero digits and the letters; '0' and the punctuation are never rotated; in S2 the "
            "digit '2' and the long digit runs are not rotated (the prefix in front of a run is)",
            "routes: a str operand of a comparison is read as the version it spells (the library converts it; "
            "debian_support.py _compare); BaseVersion can only be the right operand (it implements no comparison); "
            "comparisons with None and with things that are not versions are outside the statement; sorting is stable, so "
            "equal versions keep their input order; min / max return the first of several equal extremes (Python semantics)",
            "S2 is compared with itself and with the core K only, not with all of U_n + S (the pair space is quadratic)",
            "ladders: the variants of one (family, count) are compared with each other only; the digits and letters of the ladder "
            "strings are rotated by the seed like the rest of the space; ladder and size cases are regenerated from their "
            "description (family, count, variant names, seed) on replay",
            "size ladder: a version with a run of any length is a valid version string (Policy and dpkg set no limit); the "
            "model compares digit runs digit by digit",
            "dpkg compares digit runs of any length digit by digit (no machine integer); the model does the same and "
            "a sample of S2 is cross-checked against dpkg --compare-versions in every run"]


def translation(seed):
    d1 = core.rep(seed, ["1", "3", "4", "5"])
    d9 = core.rep(seed, ["9", "8", "7", "6"])
    lo = core.rep(seed, ["a", "q", "z", "m"])
    up = core.rep(seed, ["B", "Q", "Z", "M"])
    return {ord("1"): d1, ord("9"): d9, ord("a"): lo, ord("B"): up}


def in_space(s):
    if versyntax.valid(s) is not True:
        return False
    body = s.split(":", 1)[1] if ":" in s else s
    return not (body.startswith("-") or body.endswith("-"))


def enumerate_u(n):
    """-> (valid strings of length <= n in (length, alphabet) order, number of strings walked)"""
    out = []
    walked = 0
    for length in range(1, n + 1):
        for t in itertools.product(SIGMA, repeat=length):
            walked += 1
            s = "".join(t)
            if in_space(s):
                out.append(s)
    return out, walked


def structured(epochs, upstreams, revisions):
    out = [e + u + r for e in epochs for u in upstreams for r in revisions]
    for s in out:
        assert in_space(s), s
    return sorted(out, key=len)        # stable: simplest first, product order within a length


def s2_runs():
    out = list(S2_SMALL_RUNS)
    for n in S2_RUN_LENGTHS:
        out += ["1" + "0" * (n - 1), "1" + "0" * (n - 3) + "09", "1" + "0" * (n - 3) + "10", "9" * n,      # no leading zeros
                "0" * n, "0" * (n - 1) + "1", "0" * (n - 2) + "09", "0" * (n - 2) + "10",             # small, padded
                "0" + "9" * (n - 1)]                                # = the run of n - 1 nines, with one leading zero
    assert len(set(out)) == len(out)
    return out


def s2_raw(tr):
    """S2 in canonical order: the colon set (translated), then the runs in upstream and in revision position"""
    colon = [s.translate(tr) for s in structured(S2_EPOCHS, S2_COLON_UPSTREAMS, S2_REVISIONS)]
    runs = s2_runs()
    up, rev = S2_UPSTREAM_PREFIX.translate(tr), S2_REVISION_PREFIX.translate(tr)
    out = colon + [up + r for r in runs + S2_POWER_RUNS] + [rev + r for r in runs]
    assert len(set(out)) == len(out) and all(in_space(s) for s in out)
    return out


def k_raw(tier):
    out = structured(CORE_EPOCHS, CORE_UPSTREAMS, CORE_REVISIONS)
    if tier != "quick":
        out = enumerate_u(2)[0] + out
    return out + [s for s in K_EXTRA if s not in out]


def space(tier, seed):
    key = (tier, seed)
    if key not in _CACHE:
        tr = translation(seed)
        u, walked = enumerate_u(n_for(tier))
        seen = set(u)
        s_only = [s for s in structured(S_EPOCHS, S_UPSTREAMS, S_REVISIONS) if s not in seen]
        strings = [s.translate(tr) for s in u + s_only]
        u2, _ = enumerate_u(2)
        seen2 = set(u2)
        tset = u2 + [s for s in structured(CORE_EPOCHS, CORE_UPSTREAMS, CORE_REVISIONS) if s not in seen2]
        tset = [s.translate(tr) for s in tset]
        assert len(set(strings)) == len(strings) and len(set(tset)) == len(tset)
        old = set(strings)
        s2 = s2_raw(tr)
        core_k = [s.translate(tr) for s in k_raw(tier)]
        assert len(set(core_k)) == len(core_k) and all(s in old for s in core_k)
        _CACHE[key] = {"tr": tr, "strings": strings, "keys": [dpkgver.key(s) for s in strings], "walked": walked,
                       "n_u": len(u), "tset": tset, "objs": None, "tobjs": None,
                       "s2": s2, "s2keys": [dpkgver.key(s) for s in s2], "s2old": [s in old for s in s2], "s2objs": None,
                       "k": core_k, "kkeys": [dpkgver.key(s) for s in core_k], "kobjs": None}
    return _CACHE[key]


def cross_strings(seed):
    tr = translation(seed)
    small = list(CROSS_SMALL) + [a + b for a in CROSS_SMALL for b in CROSS_SMALL]
    out = []
    for s in small + CROSS_EXTRA:
        if s not in out:
            out.append(s)
    assert all(in_space(s) for s in out)
    return [s.translate(tr) for s in out]


CROSS_S2 = 28


def cross_s2(sp):
    """every 5th string of S2 (colon set, runs in both positions) + three strings of K: ~31 strings, ~1000 dpkg calls"""
    s2 = sp["s2"]
    step = max(1, len(s2) // CROSS_S2)
    return s2[::step] + [s for s in sp["k"][:3] if s not in s2]


def selfcheck(tier, seed):
    sp = space(tier, seed)
    res = {"key_order_equals_verrevcmp_pairs": dpkgver.internal_check(sp["tset"]),
           "space": {"strings_walked": sp["walked"], "U": sp["n_u"], "S_not_in_U": len(sp["strings"]) - sp["n_u"],
                     "triple_set": len(sp["tset"])}}
    res["space"].update({"S2": len(sp["s2"]), "S2_also_in_U_or_S": sum(sp["s2old"]), "K": len(sp["k"])})
    res["S2_key_order_equals_verrevcmp_pairs"] = dpkgver.internal_check(sp["s2"])
    res["dpkg"] = dpkgver.crosscheck_dpkg(cross_strings(seed))
    res["dpkg_S2"] = dpkgver.crosscheck_dpkg(cross_s2(sp))
    return res


def units(tier, seed):
    try:
        return _units(tier, seed)
    except Exception:
        # core.run_check does not guard units(): an exception here would end the process with exit status 1,
        # which means "violation".  A harness bug must be exit status 3.
        import sys
        import traceback
        sys.stderr.write("HARNESS-ERROR in units():\n%s\n" % traceback.format_exc())
        raise SystemExit(3)


def _units(tier, seed):
    sp = space(tier, seed)
    res = selfcheck(tier, seed)
    selfcheck_result.clear()
    selfcheck_result.update(res)
    for name in ("dpkg", "dpkg_S2"):
        if res[name]["available"] and res[name]["agree"] != res[name]["pairs"]:
            # the reference model is wrong: a harness bug, never a verdict (core would turn an exception into exit 1)
            import sys
            sys.stderr.write("HARNESS-ERROR: mc.models.dpkgver disagrees with dpkg --compare-versions: %r\n"
                             % (res[name]["disagreements"],))
            raise SystemExit(3)
    # S2 rows first: see RULE
    out = [{"k": "s2", "row": i} for i in range(len(sp["s2"]))]
    out.append({"k": "history"})
    out += [{"k": "pairs", "row": i} for i in range(len(sp["strings"]))]
    n = len(sp["tset"])
    per = -(-n // TRIPLE_UNITS)
    out += [{"k": "triples", "rows": [lo, min(lo + per, n)]} for lo in range(0, n, per)]
    # the other ways in
    out += [{"k": "routes", "row": i} for i in range(len(route_strings(sp)))]
    out.append({"k": "route-sorts", "first": None})
    out += [{"k": "route-sorts", "first": i} for i in range(len(triple_strings(sp)))]
    # beyond the small scope
    out += [{"k": "ladder", "fam": f, "ns": ns} for f in range(len(LADDER_FAMILIES)) for ns in ladder_groups(tier, LADDER_FAMILIES[f])]
    out += [{"k": "size", "kind": "digit", "n": n} for n in SIZE_DIGIT_RUN]
    out += [{"k": "size", "kind": "other", "n": n} for n in SIZE_OTHER_RUN + ([] if tier == "quick" else SIZE_OTHER_RUN_THOROUGH)]
    return out


def unit_cost(u, tier):
    if u["k"] == "s2":
        return 200000 - u["row"]         # small, but started first (on fresh workers)
    if u["k"] == "history":
        return 1                         # started last: on a worker that has answered many other questions before
    if u["k"] == "pairs":
        return 100000 - u["row"]
    if u["k"] == "routes":
        return 60000 - 300 * u["row"]
    if u["k"] == "route-sorts":
        return 20000
    if u["k"] == "ladder":
        return 150000 + 20 * max(u["ns"])
    if u["k"] == "size":
        return 150000 + u["n"]
    return 30000


# ------------------------------------------------------------------------------------------------
# executing one case

OPS_FOR = {-1: (True, True, False, True, False, False),     # <  <=  ==  !=  >=  >
           0: (False, True, True, False, True, False),
           1: (False, False, False, True, True, True)}
WORD = {-1: "lt", 0: "eq", 1: "gt"}


def construct(s):
    from debian.debian_support import Version
    return Version(s)


def run_pair(a, b, A, B, c, comp, why):
    """Both directions of one unordered pair.  c/comp/why: the model's verdict for (a, b).
    -> list of (sig, expected, observed)"""
    from debian.debian_support import version_compare
    bad = []
    vcs = []
    eq_seen = False
    for x, y, X, Y, e in ((a, b, A, B, c), (b, a, B, A, -c)):
        try:
            vc = version_compare(x, y)
            ops = (X < Y, X <= Y, X == Y, X != Y, X >= Y, X > Y)
        except Exception as ex:   # the code under test may not raise on valid versions
            bad.append(("order/raises/" + type(ex).__name__, "comparison of %r and %r succeeds" % (x, y),
                        "%s: %s" % (type(ex).__name__, ex)))
            continue
        vcs.append(vc)
        lt, le, eq, ne, ge, gt = ops
        if bool(lt) + bool(eq) + bool(gt) != 1:
            bad.append(("order/trichotomy", "exactly one of <, ==, > for (%r, %r)" % (x, y),
                        "< %r, == %r, > %r" % (lt, eq, gt)))
        elif bool(le) != bool(lt or eq) or bool(ge) != bool(gt or eq) or bool(ne) != (not eq):
            bad.append(("order/operators-inconsistent", "<= is (< or ==), >= is (> or ==), != is not == for (%r, %r)" % (x, y),
                        "<,<=,==,!=,>=,> = %r" % (ops,)))
        if vc != e or ops != OPS_FOR[e]:
            bad.append(("order/%s/%s" % (comp, why),
                        "version_compare(%r, %r) == %d and Version <,<=,==,!=,>=,> = %r (dpkg: %s)" % (x, y, e, OPS_FOR[e], WORD[e]),
                        "version_compare %r, operators %r" % (vc, ops)))
        if (lt, eq, gt) != (vc == -1, vc == 0, vc == 1):
            bad.append(("order/version_compare-disagrees-with-operators", "version_compare(%r, %r) is -1/0/1 as <, ==, > say" % (x, y),
                        "version_compare %r but <, ==, > = %r" % (vc, (lt, eq, gt))))
        if eq and e == 0:
            eq_seen = True
        if x == y:
            break
    if len(vcs) == 2 and vcs[0] != -vcs[1]:
        bad.append(("order/antisymmetry", "version_compare(a, b) == -version_compare(b, a) for (%r, %r)" % (a, b),
                    "%r and %r" % (vcs[0], vcs[1])))
    if eq_seen:
        try:
            ha, hb = hash(A), hash(B)
        except Exception as ex:   # the code under test may not raise on valid versions
            bad.append(("hash/raises/" + type(ex).__name__, "Version(%r) and Version(%r) can be hashed" % (a, b),
                        "%s: %s" % (type(ex).__name__, ex)))
            ha = hb = 0
        if ha != hb:
            bad.append(("hash/equal-versions-unequal-hash", "Version(%r) == Version(%r), so their hashes are equal" % (a, b),
                        "hash %d != %d" % (ha, hb)))
    return bad


def model_pair(a, b):
    c, comp, why = dpkgver.explain(a, b)
    k = dpkgver.compare_by_key(a, b)
    if c != k:
        raise AssertionError("dpkgver: compare(%r, %r) = %d but key order says %d" % (a, b, c, k))
    return c, comp, why


def run_triple(objs):
    """-> list of (sig, expected, observed) for one ordered triple of Version objects"""
    A, B, C = objs
    bad = []
    try:
        if A <= B and B <= C and not A <= C:
            bad.append(("order/transitivity/le", "%s <= %s <= %s implies %s <= %s" % (A, B, C, A, C), "it is not"))
        if A == B and B == C and not A == C:
            bad.append(("order/transitivity/eq", "%s == %s == %s implies %s == %s" % (A, B, C, A, C), "it is not"))
    except Exception as ex:
        bad.append(("order/raises/" + type(ex).__name__, "comparison succeeds", "%s: %s" % (type(ex).__name__, ex)))
    return bad


def run_unit(u, tier, seed):
    part = core.Part()
    sp = space(tier, seed)
    if u["k"] == "pairs":
        return unit_pairs(part, sp, u["row"])
    if u["k"] == "s2":
        return unit_s2(part, sp, u["row"])
    if u["k"] == "history":
        return unit_history(part, sp)
    if u["k"] == "routes":
        return unit_routes(part, sp, u["row"])
    if u["k"] == "route-sorts":
        return unit_route_sorts(part, sp, u["first"], tier, seed)
    if u["k"] in ("ladder", "size"):
        return unit_ladder(part, u, tier, seed)
    return unit_triples(part, sp, u["rows"])


def _objs(sp, which, strings, part=None):
    """Version objects for the strings (built once per worker process); a constructor that raises on a
    valid string is reported by the unit that owns the row."""
    if sp[which] is None:
        objs = []
        for s in strings:
            try:
                objs.append(construct(s))
            except Exception as ex:
                objs.append(ex)
        sp[which] = objs
    return sp[which]


def _row(part, a, A, ka, strings, objs, keys, start, self_index=-1, skip=None):
    """Compare a with strings[start:] (both directions each; strings[self_index] is a itself; indexes for which
    skip[j] is true belong to another work unit).  Shared by the units of U_n + S and of S2."""
    from debian.debian_support import version_compare
    explain = dpkgver.explain
    classes = {}
    n_ordered = 0
    for j in range(start, len(strings)):
        if skip is not None and skip[j]:
            continue
        b, B, kb = strings[j], objs[j], keys[j]
        if isinstance(B, Exception):
            continue                      # reported by the row that owns b
        c, comp, why = explain(a, b)
        if c != (ka > kb) - (ka < kb):
            raise AssertionError("dpkgver: compare(%r, %r) = %d but the key order differs" % (a, b, c))
        if j == self_index:
            B = construct(a)              # a second object for the reflexive pair
        # fast path: everything as predicted; anything else is diagnosed by run_pair (shared with replay)
        try:
            ok = (version_compare(a, b) == c and (A < B, A <= B, A == B, A != B, A >= B, A > B) == OPS_FOR[c] and
                  version_compare(b, a) == -c and (B < A, B <= A, B == A, B != A, B >= A, B > A) == OPS_FOR[-c] and
                  (c != 0 or hash(A) == hash(B)))
        except Exception:
            ok = False
        if not ok:
            bad = run_pair(a, b, A, B, c, comp, why)
            if not bad:
                # the same objects answer differently when asked again: the comparison keeps state across calls
                bad = [("order/history-dependent", "stable answers for (%r, %r)" % (a, b),
                        "the batched comparison disagreed with the model, the repeated one did not")]
            for sig, exp, obs in bad:
                part.violation(sig, {"k": "pair", "a": a, "b": b}, exp, obs, rank=len(a) + len(b))
        n_ordered += 1 if j == self_index else 2
        k = (c, comp, why)
        classes[k] = classes.get(k, 0) + 1
        if j != self_index:
            k = (-c, comp, why)
            classes[k] = classes.get(k, 0) + 1
            if c == 0 or "-vs-" in why:
                part.nontrivial += 1
    part.transitions += n_ordered
    part.traces += n_ordered
    part.evaluations += n_ordered
    for (c, comp, why), n in classes.items():
        part.outcomes["%s/%s/%s" % (WORD[c], comp, why)] += n
    return n_ordered


def _construct_failed(part, a, A):
    part.violation("construct/raises/" + type(A).__name__, {"k": "pair", "a": a, "b": a},
                   "Version(%r) is constructed" % a, "%s: %s" % (type(A).__name__, A), rank=2 * len(a))


def unit_pairs(part, sp, i):
    strings, keys = sp["strings"], sp["keys"]
    objs = _objs(sp, "objs", strings)
    a, A, ka = strings[i], objs[i], keys[i]
    part.states += 1
    if i == 0:
        part.extra["strings_walked_by_the_enumerator"] += sp["walked"]
    if isinstance(A, Exception):
        _construct_failed(part, a, A)
        return part
    _row(part, a, A, ka, strings, objs, keys, i, self_index=i)
    if i % 97 == 0:
        part.sample({"k": "pair", "a": a, "b": a})
        part.sample({"k": "pair", "a": a, "b": strings[-1]})
    return part


def unit_s2(part, sp, i):
    """Row i of S2: S2[i] against S2[i:] and against K.  A pair of two strings that are both in U_n + S belongs to
    the units of that space, so each unordered pair of the whole space is executed by exactly one unit."""
    s2, keys, old = sp["s2"], sp["s2keys"], sp["s2old"]
    objs = _objs(sp, "s2objs", s2)
    a, A, ka = s2[i], objs[i], keys[i]
    if not old[i]:
        part.states += 1
    if isinstance(A, Exception):
        if not old[i]:
            _construct_failed(part, a, A)
        return part
    n = _row(part, a, A, ka, s2, objs, keys, i, self_index=i, skip=old if old[i] else None)
    part.extra["S2 x S2 ordered pairs"] += n
    if not old[i]:
        n = _row(part, a, A, ka, sp["k"], _objs(sp, "kobjs", sp["k"]), sp["kkeys"], 0)
        part.extra["S2 x K ordered pairs"] += n
    if i % 29 == 0:
        part.sample({"k": "pair", "a": a, "b": s2[-1 - i // 2]})
    return part


def history_strings(sp):
    """H: the colon set and every 8th of the other S2 strings"""
    n = len(S2_EPOCHS) * len(S2_COLON_UPSTREAMS) * len(S2_REVISIONS)
    return sp["s2"][:n] + sp["s2"][n::8]


def unit_history(part, sp):
    """One history: every ordered pair of H is asked, then every ordered pair is asked again (fresh objects, reverse
    order).  In the second pass every question has been preceded by every other question, so an answer that depends on
    what was asked before (a result cache with colliding keys, scratch state kept between calls) differs from the
    model somewhere.  The pairs themselves belong to the S2 rows; this unit counts one trace (the history)."""
    from debian.debian_support import version_compare
    h = history_strings(sp)
    n = 0
    for step in (1, -1):
        hs = h[::step]
        objs = []
        for s in hs:
            try:
                objs.append(construct(s))
            except Exception:
                return part               # reported by the S2 rows
        for a, A in zip(hs, objs):
            for b, B in zip(hs, objs):
                c, comp, why = dpkgver.explain(a, b)
                n += 1
                try:
                    ok = version_compare(a, b) == c and (A < B, A == B, A > B) == (c < 0, c == 0, c > 0)
                except Exception:
                    ok = False
                if ok:
                    continue
                bad = run_pair(a, b, A, B, c, comp, why)
                if not bad:
                    bad = [("order/history-dependent", "stable answers for (%r, %r)" % (a, b),
                            "the first answer disagreed with the model, the repeated one did not")]
                for sig, exp, obs in bad:
                    part.violation(sig, {"k": "pair", "a": a, "b": b}, exp, obs, rank=len(a) + len(b),
                                   note="comparison #%d of the history unit" % n)
    part.traces += 1
    part.evaluations += n
    part.extra["history unit: strings"] += len(h)
    part.extra["history unit: comparisons in one process"] += n
    part.outcomes["history of %d comparisons executed" % n] += 1
    return part


def unit_triples(part, sp, rows):
    t = sp["tset"]
    objs = _objs(sp, "tobjs", t)
    if any(isinstance(o, Exception) for o in objs):
        return part                       # reported by the pair units (T is a subset of the pair space)
    n = len(t)
    rng = range(n)
    le = [[objs[j] <= objs[k] for k in rng] for j in rng]
    eq = [[objs[j] == objs[k] for k in rng] for j in rng]
    lo, hi = rows
    part.traces += (hi - lo) * n
    for i in range(lo, hi):
        lei, eqi = le[i], eq[i]
        for j in rng:
            lij, eij = lei[j], eqi[j]
            lej, eqj = le[j], eq[j]
            for k in rng:
                if (lij and lej[k] and not lei[k]) or (eij and eqj[k] and not eqi[k]):
                    case = {"k": "triple", "a": t[i], "b": t[j], "c": t[k]}
                    for sig, exp, obs in run_triple((objs[i], objs[j], objs[k])):
                        part.violation(sig, case, exp, obs)
            part.evaluations += n
    part.outcomes["triples-evaluated"] += (hi - lo) * n * n
    part.sample({"k": "triple", "a": t[lo], "b": t[(lo * 7 + 3) % n], "c": t[n - 1 - lo]})
    return part


# ------------------------------------------------------------------------------------------------
# the other ways in: the same order through other operand kinds, other entry points, containers and sorting

class _Str(str):
    """a str subclass"""


_SUB = [None]


def _subclass():
    from debian.debian_support import Version
    if _SUB[0] is None or _SUB[0].__mro__[1] is not Version:
        _SUB[0] = type("DerivedVersion", (Version,), {})
    return _SUB[0]


# strings added to R so that every rule of the order decides some pair of R inside a part as well (a non-digit run
# that ends against one that goes on with '~', a letter, a digit or another character; the same in the revision)
R_EXTRA = ["a~", "a0", "0a", "a.", "aa", "0-.", "0-+", "0-a", "0-B", "0-a~"]


def route_strings(sp):
    """R: K (S-core + the short strings; thorough: + U_2), R_EXTRA, the colon set of S2 and every 8th other string of S2"""
    out = list(sp["k"])
    out += [s for s in (x.translate(sp.get("tr", {})) for x in R_EXTRA) if s not in out]
    out += [s for s in history_strings(sp) if s not in out]
    assert all(in_space(s) for s in out)
    return out


def _ops6(X, Y):
    return (X < Y, X <= Y, X == Y, X != Y, X >= Y, X > Y)


def _ops3(X, Y):
    return (X < Y, X == Y, X >= Y)


def _built_by_assignment(s):
    """two objects that hold the version s but were not constructed from it: one given the whole text, one given its
    parts one after the other; both hashed before (a stale cached hash would show)"""
    from debian.debian_support import Version
    v1 = Version("0")
    hash(v1)
    v1.full_version = s
    e, u, r = versyntax.parts(s)
    v2 = Version("0~")
    hash(v2)
    v2 < v1
    if e is not None:
        v2.epoch = e
    v2.upstream_version = u
    if r is not None:
        v2.debian_revision = r
    return v1, v2


def route_checks(x, y, e):
    """-> [(route, expected, thunk)] for the ordered pair (x, y) whose sign under dpkg's order is e"""
    import functools
    from debian import debian_support as ds
    X, Y = ds.Version(x), ds.Version(y)
    Sub = _subclass()
    K = functools.cmp_to_key(ds.version_compare)
    o6, o3 = OPS_FOR[e], (e < 0, e == 0, e >= 0)
    first_min, first_max = (Y if e > 0 else X), (Y if e < 0 else X)

    def assigned():
        x1, x2 = _built_by_assignment(x)
        y1, y2 = _built_by_assignment(y)
        return (_ops3(x1, y2), _ops3(x2, y1), _ops3(x1, Y), _ops3(X, y2), hash(x1) == hash(X), hash(x2) == hash(X),
                e != 0 or hash(x1) == hash(y2))

    def copies():
        xc, xd, xp = copy.copy(X), copy.deepcopy(X), pickle.loads(pickle.dumps(X))
        yc, yd, yp = copy.copy(Y), copy.deepcopy(Y), pickle.loads(pickle.dumps(Y))
        return (_ops3(xc, yd), _ops3(xd, yp), _ops3(xp, yc), hash(xc) == hash(xd) == hash(xp) == hash(X), type(xd) is type(xp) is type(X),
                e != 0 or hash(xp) == hash(yd))
    return [
        ("version-vs-str", o6, lambda: _ops6(X, y)),
        ("str-vs-version", o6, lambda: _ops6(x, Y)),
        ("version-vs-str-subclass", o3, lambda: _ops3(X, _Str(y))),
        ("NativeVersion", o3, lambda: _ops3(ds.NativeVersion(x), ds.NativeVersion(y))),
        ("version-vs-NativeVersion", o3, lambda: _ops3(X, ds.NativeVersion(y))),
        ("version-vs-BaseVersion", o3, lambda: _ops3(X, ds.BaseVersion(y))),
        ("version-vs-subclass", o6, lambda: _ops6(X, Sub(y))),
        ("subclass-vs-version", o6, lambda: _ops6(Sub(x), Y)),
        ("version_compare-objects", (e, e, e, e, e), lambda: (ds.version_compare(X, Y), ds.version_compare(x, Y), ds.version_compare(X, y),
                                                            ds.version_compare(_Str(x), ds.BaseVersion(y)),
                                                            ds.version_compare(ds.BaseVersion(x), ds.BaseVersion(y)))),
        ("cmp_to_key", (e < 0, e == 0, e > 0), lambda: (K(x) < K(y), K(x) == K(y), K(x) > K(y))),
        ("copies", (o3, o3, o3, True, True, True), copies),
        ("built-by-assignment", (o3, o3, o3, o3, True, True, True), assigned),
        ("set-dict-list-membership", (1 if e == 0 else 2, e == 0, e == 0, e == 0, int(e == 0), int(e != 0)),
         lambda: (len({X, Y}), Y in {X}, {X: 1}.get(Y) == 1, Y in [X], [X].count(Y), len({X} - {Y}))),
        ("min-max", (True, True), lambda: (min(X, Y) is first_min, max(X, Y) is first_max)),
        ("sorted-pair", (True, True, True), lambda: (_same(sorted([X, Y]), [X, Y] if e <= 0 else [Y, X]),
                                                      _same(sorted([X, Y], reverse=True), [X, Y] if e >= 0 else [Y, X]),
                                                      _same(sorted([x, y], key=K), [x, y] if e <= 0 else [y, x]))),
    ]


def _same(got, want):
    return len(got) == len(want) and all(g is w for g, w in zip(got, want))


def run_route_pair(a, b):
    """both directions of one unordered pair along every route -> [(sig, expected, observed)]"""
    c, comp, why = model_pair(a, b)
    bad = []
    for x, y, e in ((a, b, c), (b, a, -c)):
        try:
            checks = route_checks(x, y, e)
        except Exception as ex:
            return [("via-routes/construct/raises/" + type(ex).__name__, "objects for %r and %r" % (x, y), "%s: %s" % (type(ex).__name__, ex))]
        for route, want, thunk in checks:
            try:
                got = thunk()
            except Exception as ex:
                bad.append(("via-%s/raises/%s" % (route, type(ex).__name__), "%r for (%r, %r) (dpkg: %s)" % (want, x, y, WORD[e]),
                            "%s: %s" % (type(ex).__name__, ex)))
                continue
            if got != want:
                bad.append(("via-%s/order/%s/%s" % (route, comp, why), "%r for (%r, %r) (dpkg: %s)" % (want, x, y, WORD[e]), repr(got)))
        if a == b:
            break
    return bad


N_ROUTE_CALLS = 15


def unit_routes(part, sp, i):
    R = route_strings(sp)
    a = R[i]
    part.states += 1
    for b in R[i:]:
        bad = run_route_pair(a, b)
        n = 1 if a == b else 2
        part.transitions += n
        part.traces += n * N_ROUTE_CALLS
        part.evaluations += n * N_ROUTE_CALLS
        c = dpkgver.compare(a, b)
        part.outcomes["routes/%s" % WORD[c]] += 1
        if c == 0 and a != b:
            part.nontrivial += 1
        for sig, exp, obs in bad:
            part.violation(sig, {"k": "route-pair", "a": a, "b": b}, exp, obs, rank=len(a) + len(b))
    part.extra["route pairs (unordered)"] += len(R) - i
    if i % 37 == 0:
        part.sample({"k": "route-pair", "a": a, "b": R[-1 - i // 2]})
    return part


ARRANGEMENTS = ["as-enumerated", "reversed", "by-text", "interleaved", "by-text-reversed"]


def arrange(R, name):
    if name == "as-enumerated":
        return list(R)
    if name == "reversed":
        return list(R)[::-1]
    if name == "by-text":
        return sorted(R)
    if name == "by-text-reversed":
        return sorted(R, reverse=True)
    return list(R)[::2] + list(R)[1::2][::-1]


def run_route_sort(strings):
    """one list of version strings through every sorting entry point; expected: the stable sort by dpkg's key"""
    import bisect
    import functools
    import heapq
    from debian import debian_support as ds
    objs = [ds.Version(s) for s in strings]
    keys = [dpkgver.key(s) for s in strings]
    order = sorted(range(len(strings)), key=lambda i: keys[i])                    # stable
    rorder = sorted(range(len(strings)), key=lambda i: keys[i], reverse=True)     # stable as well
    want = [strings[i] for i in order]
    bad = []

    def texts(objs_):
        return [str(o) for o in objs_]

    def list_sort():
        l = list(objs)
        l.sort()
        return texts(l)

    def insort():
        l = []
        for o in objs:
            bisect.insort(l, o)
        return texts(l)

    def heap():
        h = list(objs)
        heapq.heapify(h)
        return [dpkgver.key(str(heapq.heappop(h))) for _ in range(len(objs))]
    K = functools.cmp_to_key(ds.version_compare)
    firstmin = strings[order[0]] if strings else None
    maxkey = keys[order[-1]] if strings else None
    firstmax = next(s for s, k in zip(strings, keys) if k == maxkey) if strings else None
    for route, fn, exp in (("sorted", lambda: texts(sorted(objs)), want),
                           ("list.sort", list_sort, want),
                           ("sorted-reverse", lambda: texts(sorted(objs, reverse=True)), [strings[i] for i in rorder]),
                           ("sorted-cmp_to_key", lambda: sorted(strings, key=K), want),
                           ("sorted-key-Version", lambda: sorted(strings, key=ds.Version), want),
                           ("bisect.insort", insort, want),
                           ("heapq", heap, [keys[i] for i in order]),
                           ("min", lambda: str(min(objs)), firstmin),
                           ("max", lambda: str(max(objs)), firstmax),
                           ("distinct-in-a-set", lambda: len(set(objs)), len(set(keys))),
                           ("distinct-dict-keys", lambda: len(dict.fromkeys(objs)), len(set(keys)))):
        try:
            got = fn()
        except Exception as ex:
            bad.append(("via-%s/raises/%s" % (route, type(ex).__name__), "sorted by dpkg's order", "%s: %s" % (type(ex).__name__, ex)))
            continue
        if got != exp:
            where = next((i for i, (g, w) in enumerate(zip(got, exp)) if g != w), None) if isinstance(exp, list) else None
            bad.append(("via-%s/order" % route, "first difference at position %r: %r" % (where, exp if where is None else exp[max(0, where - 1):where + 2]),
                        got if where is None else got[max(0, where - 1):where + 2]))
    return bad


def triple_strings(sp):
    """T3: 20 strings - K_EXTRA and 8 spellings of equal / neighbouring versions"""
    out = [s.translate(sp["tr"]) for s in K_EXTRA + ["1.0", "1.00", "0:1.0-0", "1.0~", "1.0-~", "1.a", "1.0+", "01"]]
    assert len(set(out)) == len(out) and all(in_space(s) for s in out)
    return out


def unit_route_sorts(part, sp, first, tier, seed):
    R = route_strings(sp)
    if first is None:
        for name in ARRANGEMENTS:
            bad = run_route_sort(arrange(R, name))
            part.states += 1
            part.transitions += 1
            part.traces += 11
            part.evaluations += 11
            part.outcomes["routes/sort of %d strings/%s" % (len(R), "VIOLATION" if bad else "agrees")] += 1
            for sig, exp, obs in bad:
                part.violation(sig, {"k": "route-sort", "arrangement": name, "tier": tier, "seed": seed}, exp, obs, rank=10 ** 6)
        part.sample({"k": "route-sort", "arrangement": ARRANGEMENTS[-1]})
        return part
    T = triple_strings(sp)
    a = T[first]
    for b in T:
        for c in T:
            bad = run_route_sort([a, b, c])
            part.transitions += 1
            part.traces += 11
            part.evaluations += 11
            if len({dpkgver.key(s) for s in (a, b, c)}) < 3:
                part.nontrivial += 1
            for sig, exp, obs in bad:
                part.violation(sig, {"k": "route-sort", "strings": [a, b, c]}, exp, obs, rank=len(a) + len(b) + len(c))
    part.outcomes["routes/sorts of ordered triples"] += len(T) ** 2
    part.sample({"k": "route-sort", "strings": [a, T[-1], T[len(T) // 2]]})
    return part


# ------------------------------------------------------------------------------------------------
# beyond the small scope: count ladders over the structure of a version (number of digit / non-digit runs, of dotted
# components, of hyphens and colons) and a size ladder over the length of one run

LADDER_SMALL = list(range(1, 41))
LADDER_BIG = [63, 64, 65, 100, 127, 128, 129, 255, 256, 257, 500, 999, 1000, 1001]
LADDER_THOROUGH = [2500, 2501, 5000]
# (position, separator kind, first run): n = number of runs, alternating digit / non-digit runs
# for the separators '-' and ':' (upstream position only) n = number of hyphens / colons (2n + 1 runs, digit runs at both ends)
LADDER_FAMILIES = ([("upstream", sep, "d") for sep in (".", "a", "~", "+", "mixed")] +
                   [("upstream", "a", "s"), ("upstream", "mixed", "s")] +
                   [("revision", sep, "d") for sep in (".", "a", "~", "+", "mixed")] +
                   [("revision", "a", "s"), ("revision", "mixed", "s")] +
                   [("upstream", "-", "d"), ("upstream", ":", "d")])
LADDER_MIXED = [".", "a", "+", "~", "B.", "~~", ".+"]
LADDER_DIGITS = ["1", "9", "10", "91"]
LADDER_BUMP = {".": "+", "a": "B", "B": "a", "+": ".", "~": "a", "-": ".", ":": "."}
LADDER_EXTENSIONS = ["~", "a", ".", "0", "1", "~1"]
# size ladder: the length of ONE run.  int() of more than 4300 digits is refused by Python >= 3.11 unless the limit is
# lifted; dpkg compares digit runs of any length.
SIZE_DIGIT_RUN = [997, 998, 999, 1000, 4095, 4096, 4097, 4299, 4300, 4301, 16383, 16384, 16385, 65535, 65536, 65537]
SIZE_OTHER_RUN = [997, 998, 999, 1000, 4095, 4096, 4097]
SIZE_OTHER_RUN_THOROUGH = [16383, 16384, 16385]


def ladder_counts(tier):
    return LADDER_SMALL + LADDER_BIG + ([] if tier == "quick" else LADDER_THOROUGH)


# quick tier: counts of 255 and more only for these families (a comparison of two versions of 1000 runs takes 1-2 ms)
LADDER_QUICK_WIDE = [("upstream", ".", "d"), ("upstream", "mixed", "s"), ("revision", "a", "d"), ("revision", "mixed", "d"),
                     ("upstream", "-", "d"), ("upstream", ":", "d")]


def ladder_groups(tier, fam):
    """the counts of one work unit: 1..40 in four groups, every larger count on its own"""
    big = [n for n in ladder_counts(tier)[40:] if tier != "quick" or n < 255 or fam in LADDER_QUICK_WIDE]
    return [LADDER_SMALL[i:i + 10] for i in range(0, 40, 10)] + [[n] for n in big]


def ladder_base_runs(sep, start, n):
    if sep in "-:":
        n, start = 2 * n + 1, "d"
    runs = []
    for j in range(n):
        if (j % 2 == 0) == (start == "d"):
            runs.append(LADDER_DIGITS[(j // 2) % len(LADDER_DIGITS)])
        else:
            runs.append(LADDER_MIXED[(j // 2) % len(LADDER_MIXED)] if sep == "mixed" else sep)
    return runs


def _bump(run):
    return "9" + run if run[0].isdigit() else LADDER_BUMP[run[0]] + run[1:]


def _changed(runs, i, fn):
    out = list(runs)
    out[i] = fn(out[i])
    return out


def ladder_variants(pos, sep, start, n, tr):
    """-> [(variant name, version string)]: the base string with n runs and its neighbours - one run changed (the last,
    the one before it, the middle one, the first), a leading zero in the last / first number, one more run after n
    identical runs (one string a proper prefix of the other), an explicit zero revision / zero epoch.  Strings outside
    the space (a body that ends with '-') and duplicates are dropped."""
    runs = ladder_base_runs(sep, start, n)
    m = len(runs)
    digit_at = [i for i, r in enumerate(runs) if r[0].isdigit()]
    cand = [("base", runs), ("last+", _changed(runs, m - 1, _bump))]
    if digit_at:
        cand.append(("last0", _changed(runs, digit_at[-1], lambda r: "0" + r)))
    if m >= 2:
        cand.append(("prev+", _changed(runs, m - 2, _bump)))
    cand.append(("mid+", _changed(runs, m // 2, _bump)))
    cand.append(("first+", _changed(runs, 0, _bump)))
    if digit_at:
        cand.append(("first0", _changed(runs, digit_at[0], lambda r: "00" + r)))
    for x in LADDER_EXTENSIONS:
        cand.append(("ext" + x, runs + [x]))
    prefix = "1.0-" if pos == "revision" else ("1:" if sep == ":" else "")
    out, seen = [], set()
    for name, r in cand:
        texts = [(name, prefix + "".join(r))]
        if name == "base" and pos == "upstream":
            texts.append(("rev0", prefix + "".join(r) + "-0"))
            if sep != ":":
                texts.append(("epoch0", "0:" + "".join(r)))
        for nm, t in texts:
            t = t.translate(tr)
            if t not in seen and in_space(t):
                seen.add(t)
                out.append((nm, t))
    return out


def size_variants(kind, L, tr):
    """versions with one run of exactly L characters (and neighbours of it), in upstream and in revision position"""
    if kind == "digit":
        runs = [("ones", "1" * L), ("last9", "1" * (L - 1) + "9"), ("first9", "9" + "1" * (L - 1)), ("zero-padded", "0" + "1" * (L - 1)),
                ("shorter", "1" * (L - 1)), ("longer", "1" * (L + 1)), ("zeros", "0" * L)]
        out = [("up/" + nm, "1." + r) for nm, r in runs] + [("rev/" + nm, "1.0-" + r) for nm, r in runs[:4]]
        if L <= 4300:        # the reference model reads an epoch with int()
            out.append(("epoch/zeros", "0" * L + ":1.0-" + "0" * L))
    else:
        runs = [("a", "a" * L), ("last-B", "a" * (L - 1) + "B"), ("last~", "a" * (L - 1) + "~"), ("shorter", "a" * (L - 1)),
                ("tildes", "~" * L), ("tildes-shorter", "~" * (L - 1)), ("dots", "." * L)]
        out = [("up/" + nm, "1" + r + "1") for nm, r in runs] + [("rev/" + nm, "1.0-1" + r) for nm, r in runs[:4]]
    out = [(nm, t.translate(tr)) for nm, t in out]
    assert all(in_space(t) for nm, t in out) and len({t for nm, t in out}) == len(out)
    return out


def ladder_strings(desc, tr):
    if desc["ladder"] == "size":
        return size_variants(desc["kind"], desc["n"], tr)
    return ladder_variants(desc["pos"], desc["sep"], desc["start"], desc["n"], tr)


def ladder_sig_prefix(desc):
    if desc["ladder"] == "size":
        return "size/%s-run/" % desc["kind"]
    return "ladder/%s/%s/" % ("hyphens" if desc["sep"] == "-" else "colons" if desc["sep"] == ":" else "runs-" + desc["pos"],
                              "sep-" + desc["sep"] + "-first-" + desc["start"])


def ladder_pairs(m, mode):
    """index pairs (i <= j) of the m variants - star: the base with itself and with every variant; chain: + every variant
    with the next one; clique: every pair"""
    if mode == "clique":
        return [(i, j) for i in range(m) for j in range(i, m)]
    return [(0, 0)] + [(0, j) for j in range(1, m)] + ([(j, j + 1) for j in range(1, m - 1)] if mode == "chain" else [])


def ladder_mode(desc, tier):
    if desc["ladder"] == "size":
        return "chain" if tier != "quick" or desc["kind"] == "digit" else "star"
    if tier == "quick":
        return "clique" if desc["n"] <= 4 else "chain" if desc["n"] <= 10 else "star"
    return "clique" if desc["n"] <= 40 else "chain"


def ladder_light(a, b, A, B, c):
    """the cheap form of run_pair: True when both directions answer as the model says"""
    from debian.debian_support import version_compare
    try:
        return (version_compare(a, b) == c and version_compare(b, a) == -c and (A < B, A == B, A > B) == (c < 0, c == 0, c > 0) and
                (B <= A, B != A) == (c >= 0, c != 0) and (c != 0 or hash(A) == hash(B)))
    except Exception:
        return False


def run_ladder(part, desc, seed, mode="star"):
    """all unordered pairs of the variants of one (family, n), both directions + reflexive, and the variants through the
    sorting routes"""
    tr = translation(seed)
    names = ladder_strings(desc, tr)
    pre = ladder_sig_prefix(desc)
    strings = [t for nm, t in names]
    objs = []
    for nm, t in names:
        try:
            objs.append(construct(t))
        except Exception as ex:
            objs.append(ex)
            part.violation(pre + "construct/raises/" + type(ex).__name__, dict(desc, seed=seed, a=nm, b=nm),
                           "Version(<%s>) is constructed" % nm, "%s: %s" % (type(ex).__name__, str(ex)[:200]), rank=desc["n"])
    use_keys = desc["ladder"] == "count"        # the key of a run of 65 537 digits is a big integer built digit by digit
    keys = [dpkgver.key(t) for t in strings] if use_keys else None
    part.states += len(strings)
    for i, j in ladder_pairs(len(names), mode):
        (na, a), (nb, b) = names[i], names[j]
        A, B = objs[i], objs[j]
        if isinstance(A, Exception) or isinstance(B, Exception):
            continue
        if j == i:
            B = construct(a)
        c, comp, why = dpkgver.explain(a, b)
        if use_keys and c != (keys[i] > keys[j]) - (keys[i] < keys[j]):
            raise AssertionError("dpkgver: compare and key order differ for %r %s %s" % (desc, na, nb))
        if not ladder_light(a, b, A, B, c):
            bad = run_pair(a, b, A, B, c, comp, why)
            if not bad:
                bad = [("order/history-dependent", "stable answers for (<%s>, <%s>)" % (na, nb),
                        "the first comparison disagreed with the model, the repeated one did not")]
            for sig, exp, obs in bad:
                part.violation(pre + sig, dict(desc, seed=seed, a=na, b=nb), _short(exp), _short(obs), rank=desc["n"])
        k = 1 if i == j else 2
        part.transitions += k
        part.traces += k
        part.evaluations += k
        part.outcomes["%s%s/%s/%s" % (pre.split("/")[0] + "/", WORD[c], comp, why)] += 1
        if i != j and (c == 0 or "-vs-" in why):
            part.nontrivial += 1
    if use_keys and mode != "star" and not any(isinstance(o, Exception) for o in objs):
        for sig, exp, obs in run_route_sort(strings[::-1]):
            part.violation(pre + sig, dict(desc, seed=seed, sort=True), _short(exp), _short(obs), rank=desc["n"])
        part.traces += 11
        part.evaluations += 11
    part.extra["%s cases (one per family and count / size)" % pre.split("/")[0]] += 1


def _short(x):
    x = x if isinstance(x, str) else repr(x)
    return x if len(x) <= 400 else x[:200] + " ...[%d characters]... " % (len(x) - 400) + x[-200:]


def unit_ladder(part, u, tier, seed):
    if u["k"] == "size":
        desc = {"ladder": "size", "kind": u["kind"], "n": u["n"]}
        run_ladder(part, desc, seed, ladder_mode(desc, tier))
        part.sample(dict(desc, seed=seed, a="up/ones" if u["kind"] == "digit" else "up/a", b="up/shorter"))
        return part
    pos, sep, start = LADDER_FAMILIES[u["fam"]]
    for n in u["ns"]:
        desc = {"ladder": "count", "pos": pos, "sep": sep, "start": start, "n": n}
        run_ladder(part, desc, seed, ladder_mode(desc, tier))
    part.max_depth = max(part.max_depth, max(u["ns"]))
    part.sample(dict(desc, seed=seed, a="base", b="last0"))
    return part


def replay_ladder(case):
    desc = {k: v for k, v in case.items() if k in ("ladder", "pos", "sep", "start", "n", "kind")}
    tr = translation(case.get("seed", 0))
    names = ladder_strings(desc, tr)
    pre = ladder_sig_prefix(desc)
    if case.get("sort"):
        return [(pre + sig, _short(exp), _short(obs)) for sig, exp, obs in run_route_sort([t for nm, t in names][::-1])]
    d = dict(names)
    a, b = d[case["a"]], d[case["b"]]
    try:
        A = construct(a)
        B = construct(b)
    except Exception as ex:
        return [(pre + "construct/raises/" + type(ex).__name__, "Version(<%s>) is constructed" % case["a"],
                 "%s: %s" % (type(ex).__name__, str(ex)[:200]))]
    c, comp, why = model_pair(a, b)
    return [(pre + sig, _short(exp), _short(obs)) for sig, exp, obs in run_pair(a, b, A, B, c, comp, why)]


def replay(case):
    if "ladder" in case:
        return replay_ladder(case)
    if case["k"] == "route-pair":
        return run_route_pair(case["a"], case["b"])
    if case["k"] == "route-sort":
        if "strings" in case:
            return run_route_sort(case["strings"])
        sp = space(case.get("tier", "quick"), case.get("seed", 0))
        return run_route_sort(arrange(route_strings(sp), case["arrangement"]))
    if case["k"] == "triple":
        return run_triple([construct(case[x]) for x in ("a", "b", "c")])
    a, b = case["a"], case["b"]
    try:
        A, B = construct(a), construct(b)
    except Exception as ex:
        return [("construct/raises/" + type(ex).__name__, "Version(%r) is constructed" % a, "%s: %s" % (type(ex).__name__, ex))]
    c, comp, why = model_pair(a, b)
    return run_pair(a, b, A, B, c, comp, why)


def repro_py(case):
    if "ladder" in case:
        if case.get("sort"):
            return "# see replay: the variants of %r through the sorting routes\n" % (case,)
        names = dict(ladder_strings({k: v for k, v in case.items() if k in ("ladder", "pos", "sep", "start", "n", "kind")},
                                    translation(case.get("seed", 0))))
        case = {"k": "pair", "a": names[case["a"]], "b": names[case["b"]]}
    if case["k"] == "triple":
        return ("from debian.debian_support import Version\n"
                "a, b, c = (Version(s) for s in %r)\n"
                "assert not (a <= b and b <= c) or a <= c\nassert not (a == b and b == c) or a == c\n"
                % ([case["a"], case["b"], case["c"]],))
    c = dpkgver.compare(case["a"], case["b"])
    return ("from debian.debian_support import Version, version_compare\n"
            "a, b = %r, %r          # dpkg --compare-versions says: a %s b\n"
            "A, B = Version(a), Version(b)\n"
            "assert version_compare(a, b) == %d and version_compare(b, a) == %d\n"
            "assert (A < B, A <= B, A == B, A != B, A >= B, A > B) == %r\n"
            "assert not (A == B) or hash(A) == hash(B), (hash(A), hash(B))\n"
            % (case["a"], case["b"], WORD[c], c, -c, OPS_FOR[c]))
