"""C04 - well-formed changelogs round-trip byte for byte through debian.changelog.Changelog.

Engine B over a grammar product.  A document is generated from components the check chose itself
(leading blank lines; per block: package, version, distributions, urgency value, urgency comment, extra
key=value pairs, change lines, author, date; blank-line separators between blocks), so the oracle compares
what the parser exposes with the *components*, never with another parse:

  * Changelog(text, strict=True) raises nothing and emits no warning;
  * str(changelog) == text, byte for byte;
  * len(changelog) == number of generated blocks and, block by block in file order, package,
    str(version), distributions, urgency, urgency_comment, other_pairs, changes(), author, date are the
    generated components.

Spaces: (1) the full product of single-block documents; (2) all ordered pairs and (3) all ordered triples
of blocks over a fixed 30-block pool, with every choice of 1-2 blank lines at each block boundary; all of
them with 0, 1 and 2 leading blank lines.
"""
import itertools
import warnings

from .. import core

ID = "C04"
LEVEL = "model_checking"
RULE = ("Engine B on a grammar product: states = distinct generator prefixes (partial component choices: leading "
        "blank lines, package, version, distributions, change-line prefix, urgency, extra pairs, author, date; for "
        "multi-block documents: leading blank lines, block, separator, block, ...); transitions = one-component "
        "extensions; traces = complete changelog texts parsed with Changelog(text, strict=True) and formatted with "
        "str(); evaluations = individual oracle comparisons (no exception/no warning, str()==text, block count, 9 "
        "attributes per block); non-trivial = documents with at least one change line that also use at least one "
        "optional grammar part (leading blank lines, several distributions, urgency comment, extra key=value pairs, "
        "epoch version, blank or whitespace-only change line, or a second block); sweep: one state / transition / trace "
        "per single-block document in which one grammar component carries one swept character")
BUDGET = {"quick": 240, "thorough": 3000}

POOL_SIZE = 30


def bounds(tier):
    return {
        "package": 3, "version": 3, "distributions": 4, "urgency": "3 (one with a comment)",
        "extra_pairs": "3 (none, one pair, two pairs incl. upper-case key and a value with an inner blank)",
        "change_line_shapes": 6,
        "change_lines_per_block": {"quick": "all sequences of length 0..2 (43)", "thorough": "all sequences of length 0..3 (259)"}[tier],
        "author_x_date": {"quick": "3 authors paired with 3 dates (3)", "thorough": "full product 3 x 3 (9)"}[tier],
        "leading_blank_lines": "0..2",
        "single_block_documents": {"quick": 3 * 41796, "thorough": 3 * 755244}[tier],
        "block_pool": POOL_SIZE,
        "pairs": "all 30^2 ordered pairs x separator of 1..2 blank lines x 0..2 leading blank lines",
        "triples": "all 30^3 ordered triples x (1..2)^2 separators x %s leading blank lines" % (
            "0 (quick tier, to stay inside the 30 s limit)" if tier == "quick" else "0..2"),
        "sweep": "one legal character at a time in one component of an otherwise fixed single block: " + ", ".join(
            "%s %s x %d" % (name, " / ".join(tpls).replace("%s", "<c>"), len(chars)) for name, tpls, chars in sweep_plan()),
    }


def assumptions():
    return [
        "a blank line between blocks / before the first block is the empty line (as in DESIGN.md); whitespace-only "
        "lines are generated only as change lines",
        "texts end with the newline of the last trailer line; lines are separated by \\n only",
        "urgency 'value[ comment]' is exposed as .urgency (value) and .urgency_comment (the rest, verbatim, "
        "including its leading blank) - that split is the documented ChangeBlock interface",
        "other_pairs is compared as a dict with the keys spelled as written (one generated key is upper-case)",
        "the text is given as str (the statement's observation point); bytes / line-list input forms are not explored",
        "seed rotates only letters/words inside components (package word, suite names, change text, author name); "
        "the classes of the six regexes see the same character classes for every seed",
        "sweep character sets: package and distribution names [-+.0-9a-zA-Z] (deb-changelog(5); upper case as in "
        "UNRELEASED), versions [A-Za-z0-9.+~-] and the epoch colon as '1:2', urgency values and keys [-0-9a-zA-Z], change "
        "text: printable ASCII U+0020..U+007E and 12 non-ASCII characters; other characters (control characters, line "
        "separators) are not well-formed changelog text and are not demanded",
    ]


# ------------------------------------------------------------------------------------------------
# components

def comps(seed):
    r = lambda xs: core.rep(seed, xs)  # noqa: E731
    word = r(["pkg", "foo", "zed", "qux"])
    short = r(["a0", "b1", "z9", "q5"])
    suite = r(["unstable", "testing", "stable", "sid"])
    suite2 = r(["frozen", "stable", "oldstable", "experimental"])
    x = r(["x", "w", "k", "m"])
    y = r(["y", "v", "j", "n"])
    e = r(["\u00e9", "\u00df", "\u00f1", "\u00f8"])
    E = r(["\u00c9", "\u00d6", "\u00d1", "\u00d8"])
    N = r(["N", "M", "Q", "Z"])
    return {
        "pkg": [word, "lib-x.y+z", short],
        "ver": ["1.0-1", "1:2.0~rc1-0ubuntu1", "0"],
        "dist": [suite, suite + " " + suite2, "bookworm-security", "a.b"],
        # (value, comment)
        "urg": [("low", ""), ("HIGH", ""), ("medium", " (see NEWS)")],
        # extra pairs, in header order
        "kv": [[], [["binary-only", "yes"]], [["X-a", "b"], ["y", "c d"]]],
        "chg": ["  * " + x, "  * " + e + " #1: " + y, "    cont", "", "   ", "  [ " + N + " ]"],
        "auth": ["A B <a@b.c>", E + " <>", x + " " + y + " z <q@r>"],
        "date": ["Mon, 01 Jan 2024 00:00:00 +0000", "Thu,  5 Feb 2009 11:22:33 -1200", "1 Jan 2024 0:00:00 +0100"],
    }


def mkblock(C, p, v, d, u, k, cs, a, dt):
    """cs = tuple of indexes into C['chg'] -> block as plain data (what the generator wrote)."""
    return [C["pkg"][p], C["ver"][v], C["dist"][d], C["urg"][u][0], C["urg"][u][1],
            [list(kv) for kv in C["kv"][k]], [C["chg"][i] for i in cs], C["auth"][a], C["date"][dt]]


# change-line index sequences used by the block pool: empty, single lines of each kind, blank first / last /
# both (the layout dch writes), continuation, whitespace-only last, two blanks, sub-heading
_POOL_CHG = [(), (0,), (3,), (4,), (0, 3), (3, 0), (1, 2), (5, 0), (0, 4), (3, 3), (3, 0, 3), (3, 5, 1, 2, 3)]


def pool(C):
    blocks = []
    for i in range(POOL_SIZE):
        blocks.append(mkblock(C, i % 3, (i // 3) % 3, (i + i // 4) % 4, (i // 2) % 3, (i // 5) % 3,
                              _POOL_CHG[i % len(_POOL_CHG)], (i + i // 3) % 3, (i // 4 + 2 * i) % 3))
    # harness self-check: the pool is 30 distinct blocks and uses every component value at least once
    assert len({repr(b) for b in blocks}) == POOL_SIZE
    for col, name in ((0, "pkg"), (1, "ver"), (2, "dist"), (7, "auth"), (8, "date")):
        assert {b[col] for b in blocks} == set(C[name]), name
    assert {(b[3], b[4]) for b in blocks} == set(C["urg"])
    assert {repr(b[5]) for b in blocks} == {repr(k) for k in C["kv"]}
    assert {l for b in blocks for l in b[6]} == set(C["chg"])
    return blocks


# ------------------------------------------------------------------------------------------------
# sweep: one legal character at a time

_LOWER = "abcdefghijklmnopqrstuvwxyz"
_DIGITS = "0123456789"
SWEEP_NON_ASCII = ["\u00e9", "\u00df", "\u03a9", "\u044f", "\u4e2d", "\u00e7", "\u00f1", "\u00f8", "\u0436", "\u00fc",
                   "\u03bb", "\u221a"]
# block column of each component (see mkblock)
_SWEEP_COL = {"package": 0, "version": 1, "distributions": 2, "urgency": 3, "key": 5, "change": 6}


def sweep_plan():
    """-> [(component, templates with %s for the swept character, characters)] in canonical order"""
    name_chars = list("-+." + _DIGITS + _LOWER + _LOWER.upper())
    word_chars = list("-" + _DIGITS + _LOWER + _LOWER.upper())
    return [
        ("package", ["a%sb"], name_chars),
        ("version", ["1%s2"], list(".+~-" + _DIGITS + _LOWER + _LOWER.upper()) + [":"]),
        ("distributions", ["a%sb", "unstable a%sb"], name_chars),
        ("urgency", ["a%sb"], word_chars),
        ("key", ["a%sb"], word_chars),
        ("change", ["  * x%sy"], [chr(cp) for cp in range(0x20, 0x7F)] + SWEEP_NON_ASCII),
    ]


def sweep_cases(component):
    base = ["pkg", "1.0-1", "unstable", "low", "", [], ["  * x"], "A B <a@b.c>", "Mon, 01 Jan 2024 00:00:00 +0000"]
    out = []
    for name, tpls, chars in sweep_plan():
        if name != component:
            continue
        for c in chars:
            for t in tpls:
                x = t % c
                b = list(base)
                if name == "key":
                    b[5] = [[x, "yes"]]
                elif name == "change":
                    b[6] = [x]
                else:
                    b[_SWEEP_COL[name]] = x
                out.append({"lead": 0, "blocks": [b], "seps": []})
    return out


# ------------------------------------------------------------------------------------------------
# rendering and the oracle (shared by run_unit and replay)

def header(b):
    return "%s (%s) %s; urgency=%s%s%s" % (b[0], b[1], b[2], b[3], b[4], "".join(", %s=%s" % (k, v) for k, v in b[5]))


def render(case):
    """-> (text, labels) ; labels[i] names the grammar part line i was generated from."""
    lines, labels = [], []
    for _ in range(case["lead"]):
        lines.append("")
        labels.append("leading")
    for bi, b in enumerate(case["blocks"]):
        if bi:
            for _ in range(case["seps"][bi - 1]):
                lines.append("")
                labels.append("separator")
        lines.append(header(b))
        labels.append("header")
        for c in b[6]:
            lines.append(c)
            labels.append("change")
        lines.append(" -- %s  %s" % (b[7], b[8]))
        labels.append("trailer")
    return "".join(l + "\n" for l in lines), labels


ATTRS = ("package", "version", "distributions", "urgency", "urgency_comment", "other_pairs", "changes", "author", "date")


def _observe(block, attr):
    if attr == "version":
        return str(block.version)
    if attr == "changes":
        return list(block.changes())
    if attr == "other_pairs":
        return dict(block.other_pairs)
    return getattr(block, attr)


def _expected(b):
    return {"package": b[0], "version": b[1], "distributions": b[2], "urgency": b[3], "urgency_comment": b[4],
            "other_pairs": {k: v for k, v in b[5]}, "changes": list(b[6]), "author": b[7], "date": b[8]}


def exec_case(case):
    """Run one generated document on the real code.  -> (violations, outcome class, evaluations)"""
    from debian.changelog import Changelog
    text, labels = render(case)
    nblocks = len(case["blocks"])
    bad = []
    ev = 1
    with warnings.catch_warnings(record=True) as w:
        warnings.simplefilter("always")
        try:
            c = Changelog(text, strict=True)
        except Exception as e:  # anything the parser raises on a well-formed text is a verdict
            return ([("changelog/parse/raises:%s" % type(e).__name__, "no exception", "%s: %s" % (type(e).__name__, e))],
                    "parse raises %s" % type(e).__name__, ev)
    ev += 1
    if w:
        bad.append(("changelog/parse/warning", "no warning", [str(x.message) for x in w]))
    ev += 1
    try:
        s = str(c)
    except Exception as e:
        s = None
        bad.append(("changelog/str/raises:%s" % type(e).__name__, "text reproduced", "%s: %s" % (type(e).__name__, e)))
    if s is not None and s != text:
        got = s.split("\n")
        want = text.split("\n")
        i = 0
        while i < len(got) and i < len(want) and got[i] == want[i]:
            i += 1
        where = labels[i] if i < len(labels) else "end"
        bad.append(("changelog/str/differs@%s" % where, text, s))
    ev += 1
    try:
        blocks = list(c)
        n = len(c)
    except Exception as e:
        bad.append(("changelog/blocks/raises:%s" % type(e).__name__, "%d blocks" % nblocks, "%s: %s" % (type(e).__name__, e)))
        return bad, "iteration raises", ev
    if n != nblocks or len(blocks) != nblocks:
        bad.append(("changelog/blocks/count", nblocks, (n, len(blocks))))
        return bad, "blocks=%d (wrote %d)" % (n, nblocks), ev
    shape = []
    for bi, (blk, b) in enumerate(zip(blocks, case["blocks"])):
        pos = "first" if bi == 0 else "later"
        exp = _expected(b)
        for attr in ATTRS:
            ev += 1
            want = exp[attr]
            try:
                got = _observe(blk, attr)
            except Exception as e:
                bad.append(("changelog/block/%s/raises:%s@%s" % (attr, type(e).__name__, pos), want,
                            "%s: %s" % (type(e).__name__, e)))
                continue
            if got != want or type(got) is not type(want):
                bad.append(("changelog/block/%s@%s" % (attr, pos), (bi, want), (bi, got)))
        shape.append("%dc%s%s" % (len(blk.changes()), "u" if blk.urgency_comment else "", "k%d" % len(blk.other_pairs)))
    # outcome class: what the parser made of the text (from the parsed object, not from the generator)
    if nblocks == 1:
        kinds = "".join("b" if l == "" else "w" if not l.strip() else "c" for l in blocks[0].changes())
        outcome = "1 block init=%d changes=[%s] %s" % (len(c.initial_blank_lines), kinds, shape[0])
    else:
        outcome = "%d blocks init=%d changes=%d urgc=%d pairs=%d" % (
            nblocks, len(c.initial_blank_lines), sum(len(b.changes()) for b in blocks),
            sum(1 for b in blocks if b.urgency_comment), sum(len(b.other_pairs) for b in blocks))
    if bad:
        outcome = "VIOLATION " + outcome
    return bad, outcome, ev


def nontrivial(case):
    blocks = case["blocks"]
    if not any(any(l.strip() for l in b[6]) for b in blocks):
        return False
    if len(blocks) > 1 or case["lead"]:
        return True
    b = blocks[0]
    return bool(" " in b[2] or b[4] or b[5] or ":" in b[1] or any(not l.strip() for l in b[6]))


# ------------------------------------------------------------------------------------------------
# work units

def _maxlen(tier):
    return 2 if tier == "quick" else 3


def _author_dates(tier):
    if tier == "quick":
        return [(0, 0), (1, 1), (2, 2)]
    return [(a, d) for a in range(3) for d in range(3)]


def _triple_leads(tier):
    # leading blank lines only interact with the first heading; pairs and single blocks carry all of 0..2
    return (0,) if tier == "quick" else (0, 1, 2)


def units(tier, seed):
    out = []
    for lead in range(3):
        for p in range(3):
            for v in range(3):
                for d in range(4):
                    out.append(("single", lead, p, v, d))
    for i in range(POOL_SIZE):
        out.append(("pair", i))
    for i in range(POOL_SIZE):
        for j in range(POOL_SIZE):
            out.append(("triple", i, j))
    out += [("sweep", name) for name, _t, _c in sweep_plan()]
    return out


def unit_cost(u, tier):
    if u[0] == "single":
        n = sum(6 ** L for L in range(_maxlen(tier) + 1))
        return 9 * n * len(_author_dates(tier))
    if u[0] == "pair":
        return 2 * POOL_SIZE * 3 * 2
    if u[0] == "sweep":
        return 130
    return 3 * POOL_SIZE * len(_triple_leads(tier)) * 4


def _do(part, case):
    bad, outcome, ev = exec_case(case)
    part.traces += 1
    part.evaluations += ev
    part.outcomes[outcome] += 1
    if nontrivial(case):
        part.nontrivial += 1
    for sig, exp, obs in bad:
        part.violation(sig, case, exp, obs)


def run_unit(u, tier, seed):
    part = core.Part()
    C = comps(seed)
    if u[0] == "single":
        _, lead, p, v, d = u
        # generator prefixes above the unit level are attributed to the first unit below them
        n = 1 + (d == 0) + (d == 0 and v == 0) + (d == 0 and v == 0 and p == 0)
        part.states += n
        part.transitions += n
        if (lead, p, v, d) == (0, 0, 0, 0):
            part.states += 1  # the root (empty prefix)
        ads = _author_dates(tier)
        maxlen = _maxlen(tier)
        part.max_depth = lead + 1 + maxlen + 1
        k = 0
        for L in range(maxlen + 1):
            for cs in itertools.product(range(6), repeat=L):
                part.states += 1
                part.transitions += 1
                for ui in range(3):
                    part.states += 1
                    part.transitions += 1
                    for ki in range(3):
                        part.states += 1
                        part.transitions += 1
                        last_a = None
                        for a, dt in ads:
                            if tier != "quick" and a != last_a:
                                part.states += 1      # author chosen, date still open
                                part.transitions += 1
                                last_a = a
                            part.states += 1
                            part.transitions += 1
                            case = {"lead": lead, "blocks": [mkblock(C, p, v, d, ui, ki, cs, a, dt)], "seps": []}
                            _do(part, case)
                            k += 1
                            if k in (1, 500):
                                part.sample(case)
        part.sample(case)
        part.extra["single-block documents"] += k
        return part
    if u[0] == "sweep":
        cases = sweep_cases(u[1])
        part.max_depth = 4
        for case in cases:
            part.states += 1
            part.transitions += 1
            bad, outcome, ev = exec_case(case)
            part.traces += 1
            part.evaluations += ev
            part.outcomes["sweep/%s: %s" % (u[1], outcome)] += 1
            if nontrivial(case):
                part.nontrivial += 1
            for sig, exp, obs in bad:
                part.violation(sig, case, exp, obs)
            part.extra["sweep documents"] += 1
        part.sample(cases[0])
        return part
    P = pool(C)
    if u[0] == "pair":
        i = u[1]
        part.max_depth = 2 + 2 + 5 + 2 + 7 + 2
        for lead in range(3):
            part.states += 1          # (lead, block i)
            part.transitions += 1
            for sep in (1, 2):
                part.states += 1
                part.transitions += 1
                for j in range(POOL_SIZE):
                    part.states += 1
                    part.transitions += 1
                    case = {"lead": lead, "blocks": [P[i], P[j]], "seps": [sep]}
                    _do(part, case)
                    part.extra["two-block documents"] += 1
        part.sample(case)
        return part
    _, i, j = u
    part.max_depth = 2 + 3 * 7 + 4
    for lead in _triple_leads(tier):
        for sep1 in (1, 2):
            part.states += 1              # (lead, block i, sep1, block j); shorter prefixes belong to the pair units
            part.transitions += 1
            for sep2 in (1, 2):
                part.states += 1
                part.transitions += 1
                for k in range(POOL_SIZE):
                    part.states += 1
                    part.transitions += 1
                    case = {"lead": lead, "blocks": [P[i], P[j], P[k]], "seps": [sep1, sep2]}
                    _do(part, case)
                    part.extra["three-block documents"] += 1
    if j == 0:
        part.sample(case)
    return part


# ------------------------------------------------------------------------------------------------

def replay(case):
    return exec_case(case)[0]


def repro_py(case):
    text, _ = render(case)
    exp = [[_expected(b)[a] for a in ATTRS] for b in case["blocks"]]
    return ("import warnings\nfrom debian.changelog import Changelog\n"
            "text = %r\nexpected = %r\n"
            "with warnings.catch_warnings(record=True) as w:\n"
            "    warnings.simplefilter('always')\n"
            "    c = Changelog(text, strict=True)\n"
            "assert not w, [str(x.message) for x in w]\n"
            "assert str(c) == text, str(c)\n"
            "assert len(c) == len(expected), len(c)\n"
            "for b, e in zip(c, expected):\n"
            "    got = [b.package, str(b.version), b.distributions, b.urgency, b.urgency_comment, dict(b.other_pairs),\n"
            "           list(b.changes()), b.author, b.date]\n"
            "    assert got == e, (got, e)\n" % (text, exp))
