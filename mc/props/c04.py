"""C04 - well-formed changelogs round-trip byte for byte through debian.changelog.Changelog.

Engine B over a grammar product.  A document is generated from components the check chose itself
(leading blank lines; per block: package, version, distributions, urgency value, urgency comment, extra
key=value pairs, change lines, author, date; blank-line separators between blocks), so the oracle compares
what the parser exposes with the *components*, never with another parse:

  * Changelog(text, strict=True) raises nothing and emits no warning;
  * str(changelog) == text, byte for byte;
  * len(changelog) == number of generated blocks and, block by block in file order, package,
    str(version), distributions, urgency, urgency_comment, other_pairs, changes(), author, date are the
    generated components.

Spaces: (1) the full product of single-block documents; (2) all ordered pairs and (3) all ordered triples
of blocks over a fixed 30-block pool, with every choice of 1-2 blank lines at each block boundary; all of
them with 0, 1 and 2 leading blank lines (thorough tier: change-line sequences up to length 4 with the full author x
date product and of length 5 with the authors paired with the dates; pairs over the pool x the full author x date product
= 270 blocks, triples over the pool x 3 author/date pairings = 90 blocks, and all ordered quadruples over the pool with
every choice of separators - see bounds()); (4) near-duplicates: a set of 25 "twin" blocks that differ from one base
block in exactly one detail (amount/kind/presence of white space inside the urgency comment, a key=value value, the
change text, the author name or the date; letter case of a key, value, urgency value, comment, package, distribution,
author; order of the extra pairs): each alone, all ordered pairs and triples of them in one text, every ordered pair
with an ordinary block between them, and all ordered pairs of them as two single-block texts parsed one after the
other in one process ("session": state kept between blocks, documents or Changelog objects shows as a wrong
attribute or a str() difference, because the expected values are the generator's components); the product of all
urgency spellings x all extra-pair spellings on single blocks; (5) longer-than-usual components (64-character package
name, 80-character distribution list, 200-character change line, 6 extra pairs, all of them together), alone and
paired with every pool block in both orders; (6) input forms: the twin, long-component and pool blocks, alone and as
two-block texts, with 0-2 leading blank lines, handed to the constructor in every documented input type (str, bytes,
list/tuple/generator of str lines, text and binary file objects, list/generator of bytes lines) - same oracle per form;
(7) routes: the same documents, three-block documents over the same blocks and the sweep documents through every other
public way in and out: the lenient constructor, keyword / positional arguments, allow_empty_author, parse_changelog on a
fresh and on a used object, max_blocks (all, more than all, every k < n: the first k blocks and their text), Latin-1
bytes with encoding=, real files; bytes(), write_to_open_file, str/bytes of the blocks, copies and pickles; subscripts,
len, the version list, the version parts and the top-block properties - all against the generator's components.

Beyond the small scope (signatures ladder/... and size/...): count ladders - n distributions, n extra settings, n change
lines, n blank / whitespace-only lines (in a block, leading, between blocks), n blocks for every n in 1..40 and 63..5000;
a size ladder - whole texts of exactly 997 .. 262 145 bytes with a line end placed next to every multiple of 65 536 (and a
two-byte character across it), one long change line / setting value / maintainer name, and single lines of exactly L
characters; each document as str, bytes, lines, BytesIO, StringIO and bytes lines.  Documents are regenerated from
(ladder, arrangement, n, seed) - see ladder_doc().
"""
import collections
import copy
import io
import itertools
import os
import pickle
import tempfile
import warnings

from .. import core

ID = "C04"
LEVEL = "model_checking"
RULE = ("Engine B on a grammar product: states = distinct generator prefixes (partial component choices: leading "
        "blank lines, package, version, distributions, change-line prefix, urgency, extra pairs, author, date; for "
        "multi-block documents: leading blank lines, block, separator, block, ...); transitions = one-component "
        "extensions; traces = complete changelog texts parsed with Changelog(text, strict=True) and formatted with "
        "str(); evaluations = individual oracle comparisons (no exception/no warning, str()==text, block count, 9 "
        "attributes per block); non-trivial = documents with at least one change line that also use at least one "
        "optional grammar part (leading blank lines, several distributions, urgency comment, extra key=value pairs, "
        "epoch version, blank or whitespace-only change line, or a second block); sweep: one state / transition / trace "
        "per single-block document in which one grammar component carries one swept character; near-duplicate and "
        "long-component documents: one state / transition per block appended (sessions: per document appended), traces = "
        "texts parsed (a session of two texts parsed one after the other in the same process counts two), all of them "
        "non-trivial when they have a change line (they carry a comment and extra pairs, or a second block); input "
        "forms: one state / transition per document, one trace per (document, input form): the same text as str, bytes, "
        "list / tuple / generator of str lines (with and without newlines), io.StringIO, io.BytesIO, list / generator of "
        "bytes lines, every form checked against the generator's components; routes: one state / transition per "
        "document, one trace per parse made along a route, evaluations = oracle comparisons per route (the 4 + 9 per block "
        "of the plain oracle for every parsing route, one per formatting route, about 20 + 4 per block for the reading "
        "routes); ladders / sizes (beyond the small scope): one state / transition per generated document, one trace per (document, "
        "input form), all non-trivial")
BUDGET = {"quick": 240, "thorough": 3000}

POOL_SIZE = 30
FORM_UNITS = 6
ROUTE_UNITS = 12
PRISTINE_IMPORTS = ["debian.changelog"]     # what mc.zygote imports before it forks one child per case


def bounds(tier):
    out = {
        "package": 3, "version": 3, "distributions": 4, "urgency": "3 (one with a comment)",
        "extra_pairs": "3 (none, one pair, two pairs incl. upper-case key and a value with an inner blank)",
        "change_line_shapes": 6,
        "change_lines_per_block": {
            "quick": "all sequences of length 0..2 (43)",
            "thorough": "all sequences of length 0..%d (%d) with the full author x date product; all %d sequences of length "
                        "%d with the 3 authors paired with the 3 dates" % (
                            _maxlen(tier), sum(6 ** L for L in range(_maxlen(tier) + 1)), 6 ** DEEP_LEN, DEEP_LEN)}[tier],
        "author_x_date": {"quick": "3 authors paired with 3 dates (3)", "thorough": "full product 3 x 3 (9)"}[tier],
        "leading_blank_lines": "0..2",
        "single_block_documents": 108 * 9 * (sum(6 ** L for L in range(_maxlen(tier) + 1)) * len(_author_dates(tier)) +
                                             (6 ** DEEP_LEN * 3 if tier != "quick" else 0)),
        "block_pool": POOL_SIZE if tier == "quick" else
        "%d; pairs: the %d blocks x the full author x date product = %d blocks; triples: the %d blocks x 3 author/date "
        "pairings = %d blocks; four-block documents: the %d blocks" % (
            POOL_SIZE, POOL_SIZE, len(_AD_SHIFTS_PAIRS[tier]) * POOL_SIZE, POOL_SIZE, len(_AD_SHIFTS_TRIPLES[tier]) * POOL_SIZE,
            POOL_SIZE),
        "pairs": "all %d^2 ordered pairs x separator of 1..2 blank lines x 0..2 leading blank lines"
                 % (len(_AD_SHIFTS_PAIRS[tier]) * POOL_SIZE),
        "triples": "all %d^3 ordered triples x (1..2)^2 separators x %s leading blank lines" % (
            len(_AD_SHIFTS_TRIPLES[tier]) * POOL_SIZE,
            "0 (quick tier, to stay inside the 30 s limit)" if tier == "quick" else "0..2"),
        "near_duplicates": (
            "%d twin blocks = 1 base block + %d one-detail variants (urgency comment: two blanks / tab / two leading blanks / "
            "no inner blank / letter case; urgency value case x2; extra pairs: value with two blanks / tab / no blank / other "
            "case, key case x2, pair order; package case; distribution case; change text: two blanks / case / deeper "
            "indent; author: two blanks / name case / address case; date: two blanks / one-digit day): each alone x 0..2 "
            "leading blank lines; all %d ordered pairs x separator 1..2; all %d ordered triples (separators 1,1); all ordered "
            "pairs with each of 2 ordinary pool blocks in between; all %d ordered pairs as a session of two single-block "
            "texts (two Changelog objects, same process).  Of these, the %d twins alone, and the 127 ordered pairs that are "
            "at most one detail of one column apart (base/base, base/variant, variant/base, two variants of one column) as "
            "a two-block text (one-line separator) and as a session, are each evaluated in a process of their own forked "
            "from a zygote that imported the library and never ran it (mc.pristine), i.e. independent of anything "
            "parsed before; all others run in the worker process" % (TWINS, TWINS - 1, TWINS ** 2, TWINS ** 3, TWINS ** 2, TWINS)),
        "urgency_x_pairs_spellings": "%d urgency spellings (3 of the product, %d white-space/case variants, %d comments with "
                                     "parentheses: %r, %d comments with a semicolon: %r) x %d extra-pair spellings (3 of the "
                                     "product, %d white-space/case/order variants, %d with parentheses in values: %r, %d with a "
                                     "semicolon in a value: %r) (the %d combinations of the single-block "
                                     "product left out) x %d change-line sequences x 0..2 leading blank lines on one block"
                                     % (N_URG_ALL, len(_ND_COMMENTS) + 2, len(_PAREN_COMMENTS), _PAREN_COMMENTS,
                                        len(_SEMI_COMMENTS), _SEMI_COMMENTS, N_KV_ALL,
                                        len(_ND_KV), len(_PAREN_KV), [", ".join("%s=%s" % (k, v) for k, v in kv) for kv in _PAREN_KV],
                                        len(_SEMI_KV), [", ".join("%s=%s" % (k, v) for k, v in kv) for kv in _SEMI_KV],
                                        9, len(_POOL_CHG)),
        "input_forms": "%d forms %r x documents over %d blocks (%d twins, 5 long-component blocks, %d pool blocks): each "
                       "block alone and followed by the next block of the list (separator 1 or 2 blank lines), x 0..2 "
                       "leading blank lines = %d documents, %d parses"
                       % (len(FORMS), FORMS, TWINS + 5 + POOL_SIZE, TWINS, POOL_SIZE, (TWINS + 5 + POOL_SIZE) * 2 * 3,
                          (TWINS + 5 + POOL_SIZE) * 2 * 3 * len(FORMS)),
        "routes": "%d documents (each of the %d input-forms blocks alone and followed by the next block, x 0..2 leading blank "
                  "lines; one three-block document per block) and the %d sweep documents x {Changelog(text) lenient; "
                  "file= and every other argument by keyword; all arguments positional; allow_empty_author=True; "
                  "Changelog().parse_changelog(text) with its default (strict), strict=True, strict=False; max_blocks = n, "
                  "10**6 (everything), every k in 0..n-1 (the first k blocks, text up to heading k+1), parse_changelog("
                  "max_blocks=1); parse_changelog on an object that parsed another text / aborted a strict parse / parsed "
                  "leniently with warnings / was built with new_block / parsed the same text before; Latin-1 bytes, bytes "
                  "lines and BytesIO with encoding='latin-1' (also bytes() of the result), and the encoding given at the "
                  "call; a real text-mode and a real binary file} - each judged by the full oracle - and on the parsed "
                  "object {str() twice, bytes(), write_to_open_file, initial_blank_lines + str(block) / bytes(block) / "
                  "str(c[i]), copy.copy, copy.deepcopy, pickle (the copies judged by the full oracle, and the original again "
                  "after editing each copy)}, {c[i] for -n <= i < n, c[n], len, versions, get_versions, c[version text], "
                  "c[Version], epoch / upstream_version / debian_revision / full_version of every block's version, "
                  "package, get_package, version, get_version, full_version, epoch, upstream_version, debian_revision, "
                  "debian_version, distributions, urgency, author, date of the changelog}"
                  % (len(route_docs(comps(0))), TWINS + 5 + POOL_SIZE, sum(len(sweep_cases(n)) for n in dict.fromkeys(
                      n for n, _t, _c in sweep_plan()))),
        "long_components": "5 blocks (package name of 64 characters; 7 distributions, 80+ characters; change line of exactly "
                           "200 characters; 6 extra pairs; all four together): alone x 0..2 leading blank lines, and paired "
                           "with each of the 30 pool blocks in both orders x separator 1..2",
        "sweep": "one legal character at a time in one component of an otherwise fixed single block: " + ", ".join(
            "%s %s x %d" % (name, " / ".join(tpls).replace("%s", "<c>"), len(chars)) for name, tpls, chars in sweep_plan()),
    }
    out["count_ladders"] = {
        "counts": "every n in 1..40 and %r (both tiers)" % (LADDER_BIG,),
        "ladders": ["%s / %s" % la for la in LADDERS],
        "what": "an otherwise simple one-block document (two blocks for the separator ladder, n blocks for the blocks ladder) in "
                "which one repeatable element occurs n times: n distributions in the heading; n extra key=value settings behind "
                "urgency (with and without an urgency comment); n change lines (items / the six line kinds in turn / one item and "
                "n-1 continuation lines); n consecutive blank lines first, in the middle and last in a block, n whitespace-only "
                "lines, n leading blank lines, n blank lines between two blocks; n blocks (every block with its own version and "
                "change text; components and separators varied, or uniform one-line blocks)",
        "input_forms": LADDER_FORMS, "oracle": "the plain oracle of every other family (no exception, no warning, str() == text, block "
                                               "count, 9 attributes per block) for every input form"}
    out["size_ladder"] = {
        "total_bytes": SIZE_L,
        "styles": ["%s%s" % (st, "" if w is None else " / line end at %s" % (
            {-1: "65536k - 1 (the next line starts on the multiple)", 0: "65536k", 1: "65536k + 1",
             "mb": "65536k + 1 behind a two-byte character that straddles the multiple"}[w])) for st, w in SIZE_STYLES],
        "what": "whole texts whose UTF-8 form has exactly L bytes: 'lines' = blocks of 25 change lines of 60 characters, with "
                "one change line padded so that its newline falls on the stated byte next to EVERY multiple of 65 536 inside the "
                "text and another one so that the text ends at exactly L; 'one-line' = one block with one change line of "
                "about L characters (blanks, 'word:', ' -- ', '<', '>', ';' inside); 'setting-value' = a heading whose extra "
                "setting has a value of about L characters; 'author' = a maintainer name of about L characters (with ' <word>' inside)",
        "lines_of_exactly_L": "styles change-line-of-L / heading-of-L / trailer-of-L: a one-block text in which that one line has "
                              "exactly L characters (L from the same list)",
        "input_forms": LADDER_FORMS}
    if tier != "quick":
        out["quadruples"] = ("all %d^4 ordered quadruples over the %d-block pool x (1..2)^3 separators, no leading blank line"
                             % (POOL_SIZE, POOL_SIZE))
    return out


def assumptions():
    return [
        "a blank line between blocks / before the first block is the empty line (as in DESIGN.md); whitespace-only "
        "lines are generated only as change lines",
        "texts end with the newline of the last trailer line; lines are separated by \\n only",
        "urgency 'value[ comment]' is exposed as .urgency (value) and .urgency_comment (the rest, verbatim, "
        "including its leading blank) - that split is the documented ChangeBlock interface",
        "other_pairs is compared as a dict with the keys spelled as written (one generated key is upper-case)",
        "the text is given as str (the statement's observation point) everywhere except in the input-forms family, "
        "where a subset of the documents is also given in each other input type the constructor documents (param file: "
        "'str, list of str, or file-like ... an iterator of lines such as a filehandle'; type comment IterableDataSource = "
        "bytes | str | IO[str] | Iterable[str] | Iterable[bytes]); all ten forms are accepted by the unchanged library; "
        "lines of the line-wise forms are the generator's own lines (not a re-split of the text), bytes are UTF-8",
        "urgency comments and extra-pair values are free text without ',' (the heading is split at commas by dpkg and by "
        "the library alike); parentheses in them need not balance; they may contain ';' (the heading regex of dpkg and of "
        "the library ends the distributions at the first ';' of the line and takes everything behind it as the key=value "
        "list; the unchanged library reads 'urgency=low (a;b)' as urgency 'low' with the comment ' (a;b)')",
        "routes: max_blocks=k (k < n) is taken at its documented meaning - parsing stops at heading k+1, so the object holds "
        "the first k blocks and formats to the text ahead of that heading (the separating blank lines included); the "
        "version parts expected of block.version / Changelog.epoch etc. are the generator's split of the version text "
        "(epoch before the first colon, revision after the last hyphen; mc/models/versyntax.parts); "
        "other_keys_normalised() re-spells keys by design and is not compared; non-Latin-1 documents skip the Latin-1 routes",
        "ladders and sizes: deb-changelog(5) and the library set no limit on the number of distributions, settings, change "
        "lines, blank lines or blocks, nor on the length of a line or of the text; keys of the settings ladder are distinct "
        "(k0, k1, ... - a repeated key is not well-formed); ladder documents are regenerated from (ladder, arrangement, n, "
        "seed) on replay; the sizes are UTF-8 byte counts (all filler is ASCII, the one two-byte character of the 'mb' style "
        "is counted as two)",
        "seed rotates only letters/words inside components (package word, suite names, change text, author name); "
        "the classes of the six regexes see the same character classes for every seed",
        "near-duplicates: white space INSIDE the urgency comment, inside a key=value value, inside change text, inside the "
        "author name and after the comma of the date is part of what was written and has to come back verbatim (blank runs "
        "and a tab; the heading and trailer regexes accept them and the unchanged library keeps them); white space that "
        "deb-changelog(5) leaves open is NOT generated: none at the end of a heading/value, none after '=' or before ',', "
        "exactly one blank between distributions and before them; keys that differ only in letter case occur in different "
        "blocks only (within one heading they would be a repeated key, i.e. not well-formed)",
        "a session is two well-formed texts given to two Changelog objects one after the other in one process; the "
        "statement quantifies over texts, so each of them has to satisfy it whatever was parsed before",
        "sweep character sets: package and distribution names [-+.0-9a-zA-Z] (deb-changelog(5); upper case as in "
        "UNRELEASED), versions [A-Za-z0-9.+~-] and the epoch colon as '1:2' (also '1:2:3', '1:2:3-4', '1-2-3': further colons after an epoch and all hyphens but the last belong to the upstream version), urgency values and keys [-0-9a-zA-Z], values of extra settings: printable ASCII without ',' (a value runs up to the next comma; '=' and ';' are ordinary characters of it), maintainer name and address: printable ASCII (further '<' and '>' included: the address is what stands between the LAST ' <' and the last '>' before the date), change "
        "text: printable ASCII U+0020..U+007E and 12 non-ASCII characters; other characters (control characters, line "
        "separators) are not well-formed changelog text and are not demanded",
    ]


# ------------------------------------------------------------------------------------------------
# components

def comps(seed):
    r = lambda xs: core.rep(seed, xs)  # noqa: E731
    word = r(["pkg", "foo", "zed", "qux"])
    short = r(["a0", "b1", "z9", "q5"])
    suite = r(["unstable", "testing", "stable", "sid"])
    suite2 = r(["frozen", "stable", "oldstable", "experimental"])
    x = r(["x", "w", "k", "m"])
    y = r(["y", "v", "j", "n"])
    e = r(["\u00e9", "\u00df", "\u00f1", "\u00f8"])
    E = r(["\u00c9", "\u00d6", "\u00d1", "\u00d8"])
    N = r(["N", "M", "Q", "Z"])
    return {
        "pkg": [word, "lib-x.y+z", short],
        "ver": ["1.0-1", "1:2.0~rc1-0ubuntu1", "0"],
        "dist": [suite, suite + " " + suite2, "bookworm-security", "a.b"],
        # (value, comment)
        "urg": [("low", ""), ("HIGH", ""), ("medium", " (see NEWS)")],
        # extra pairs, in header order
        "kv": [[], [["binary-only", "yes"]], [["X-a", "b"], ["y", "c d"]]],
        "chg": ["  * " + x, "  * " + e + " #1: " + y, "    cont", "", "   ", "  [ " + N + " ]"],
        "auth": ["A B <a@b.c>", E + " <>", x + " " + y + " z <q@r>"],
        "date": ["Mon, 01 Jan 2024 00:00:00 +0000", "Thu,  5 Feb 2009 11:22:33 -1200", "1 Jan 2024 0:00:00 +0100"],
    }


# comment / extra-pair spellings that differ from an entry of comps() only in white space or letter case
_ND_COMMENTS = [" (see  NEWS)", " (see\tNEWS)", "  (see NEWS)", " (seeNEWS)", " (See news)"]
_ND_KV = [[["X-a", "b"], ["y", "c  d"]], [["X-a", "b"], ["y", "c\td"]], [["X-a", "b"], ["y", "cd"]],
          [["X-a", "b"], ["y", "C D"]], [["x-a", "b"], ["y", "c d"]], [["X-a", "b"], ["Y", "c d"]],
          [["y", "c d"], ["X-a", "b"]]]
# comments / values with parentheses that do not balance (or balance only across a comma): every one is also followed by
# further ", key=value" pairs in the spelling product
_PAREN_COMMENTS = [" (", " (a", " a)", " (sorry :-( )", " )(", " (see NEWS) (b"]
_PAREN_KV = [[["a", "("], ["b", ")"]], [["b", ")"], ["a", "("]], [["a", "(x"], ["b", "y)"]], [["a", "("], ["y", "c d"]],
             [["a", "(("], ["b", "c"], ["X-a", "d"]]]
# comments / values with a semicolon: the heading's own ';' (the one that ends the distributions) is the FIRST one of the
# line; whatever follows it is the key=value list, semicolons included
_SEMI_COMMENTS = [" (a;b)", " ;x"]
_SEMI_KV = [[["k", "a;b"]]]
N_URG_ALL = 3 + len(_ND_COMMENTS) + 2 + len(_PAREN_COMMENTS) + len(_SEMI_COMMENTS)
N_KV_ALL = 3 + len(_ND_KV) + len(_PAREN_KV) + len(_SEMI_KV)
TWINS = 25


def urg_all(C):
    return (list(C["urg"]) + [("medium", c) for c in _ND_COMMENTS] + [("MEDIUM", " (see NEWS)"), ("Medium", " (see NEWS)")] +
            [("low", c) for c in _PAREN_COMMENTS + _SEMI_COMMENTS])


def kv_all(C):
    return [[list(kv) for kv in k] for k in C["kv"]] + [[list(kv) for kv in k] for k in _ND_KV + _PAREN_KV + _SEMI_KV]


def twins(C):
    """-> [base block, variant, ...]: every variant differs from the base block in ONE column, and there only in the
    amount / kind / presence of white space, in letter case, or in the order of the extra pairs."""
    word, suite = C["pkg"][0], C["dist"][0]
    x = C["chg"][0][4:]
    base = [word, "1.0-1", suite, "medium", " (see NEWS)", [["X-a", "b"], ["y", "c d"]], ["  * " + x + " y"],
            "A B <a@b.c>", "Mon, 01 Jan 2024 00:00:00 +0000"]
    var = [(4, c) for c in _ND_COMMENTS]
    var += [(3, "MEDIUM"), (3, "Medium")]
    var += [(5, k) for k in _ND_KV]
    var += [(0, word.capitalize()), (2, suite.upper())]
    var += [(6, ["  * " + x + "  y"]), (6, ["  * " + x.upper() + " Y"]), (6, ["   * " + x + " y"])]
    var += [(7, "A  B <a@b.c>"), (7, "a b <a@b.c>"), (7, "A B <A@b.c>")]
    var += [(8, "Mon,  01 Jan 2024 00:00:00 +0000"), (8, "Mon, 1 Jan 2024 00:00:00 +0000")]
    out = [base]
    for col, val in var:
        b = [list(map(list, c)) if i == 5 else list(c) if i == 6 else c for i, c in enumerate(base)]
        b[col] = [list(kv) for kv in val] if col == 5 else val
        out.append(b)
    # harness self-check: distinct blocks, none of them a pool block or a block of the single-block product
    assert len(out) == TWINS and len({repr(b) for b in out}) == TWINS
    assert all(b[6][0] not in C["chg"] for b in out)
    return out


def _twin_col(T, i):
    """the column in which twin i differs from the base block (None for the base block itself)"""
    for col in range(9):
        if T[i][col] != T[0][col]:
            return col
    return None


def closest(T, i, j):
    """True for the ordered pairs of twins that are at most one detail of ONE column apart: (base, base), (base, v),
    (v, base) and (v, w) for two different variants of the same column.  These are evaluated in pristine library
    state (twin-pristine units), all other ordered pairs in the worker process."""
    if i == 0 or j == 0:
        return True
    return i != j and _twin_col(T, i) == _twin_col(T, j)


def long_blocks(C):
    """-> 5 blocks with one (the last: every) component at the longest plausible length"""
    word, suite2 = C["pkg"][0], C["dist"][1]
    x = C["chg"][0][4:]
    pkg = ("lib" + word + "-" + "x.y+z-0123456789-" * 4)[:63] + "a"
    dist = suite2 + " bookworm-security bookworm-backports bookworm-updates oldstable-proposed-updates a.b"
    chg = ("  * " + (x + " lorem ipsum #1: dolor, ") * 10)[:199] + "z"
    kv = [["binary-only", "yes"], ["X-a", "b"], ["y", "c d"], ["k4", "v"], ["k5", "1 2  3"], ["Z-6", "w (v)"]]
    assert len(pkg) == 64 and len(dist) >= 80 and len(dist.split()) == 7 and len(chg) == 200
    base = [word, "1.0-1", C["dist"][0], "low", "", [], ["  * " + x], "A B <a@b.c>", "Mon, 01 Jan 2024 00:00:00 +0000"]
    out = []
    for cols in ({0: pkg}, {2: dist}, {6: ["  * " + x, chg, "    cont"]}, {5: kv},
                 {0: pkg, 2: dist, 6: [chg], 5: kv, 4: " (see NEWS)"}):
        b = list(base)
        for col, val in cols.items():
            b[col] = val
        b[5] = [list(p) for p in b[5]]
        b[6] = list(b[6])
        out.append(b)
    return out


def form_blocks(C):
    """blocks of the input-forms family: the twins, the long-component blocks, the pool"""
    out = twins(C) + long_blocks(C) + pool(C)
    assert len(out) % FORM_UNITS == 0
    return out


def mkblock(C, p, v, d, u, k, cs, a, dt):
    """cs = tuple of indexes into C['chg'] -> block as plain data (what the generator wrote)."""
    return [C["pkg"][p], C["ver"][v], C["dist"][d], C["urg"][u][0], C["urg"][u][1],
            [list(kv) for kv in C["kv"][k]], [C["chg"][i] for i in cs], C["auth"][a], C["date"][dt]]


# change-line index sequences used by the block pool: empty, single lines of each kind, blank first / last /
# both (the layout dch writes), continuation, whitespace-only last, two blanks, sub-heading
_POOL_CHG = [(), (0,), (3,), (4,), (0, 3), (3, 0), (1, 2), (5, 0), (0, 4), (3, 3), (3, 0, 3), (3, 5, 1, 2, 3)]


def pool(C):
    blocks = []
    for i in range(POOL_SIZE):
        blocks.append(mkblock(C, i % 3, (i // 3) % 3, (i + i // 4) % 4, (i // 2) % 3, (i // 5) % 3,
                              _POOL_CHG[i % len(_POOL_CHG)], (i + i // 3) % 3, (i // 4 + 2 * i) % 3))
    # harness self-check: the pool is 30 distinct blocks and uses every component value at least once
    assert len({repr(b) for b in blocks}) == POOL_SIZE
    for col, name in ((0, "pkg"), (1, "ver"), (2, "dist"), (7, "auth"), (8, "date")):
        assert {b[col] for b in blocks} == set(C[name]), name
    assert {(b[3], b[4]) for b in blocks} == set(C["urg"])
    assert {repr(b[5]) for b in blocks} == {repr(k) for k in C["kv"]}
    assert {l for b in blocks for l in b[6]} == set(C["chg"])
    return blocks


# multi-block pools: the pool blocks with their author / date replaced.  Shift k stands for (author + k // 3, date + k % 3)
# (mod 3), so shift 0 is the pool block itself; the pools of pairs, triples and quadruples are nested (each contains the
# next), which is what the prefix accounting of the units relies on.
_AD_SHIFTS_PAIRS = {"quick": (0,), "thorough": tuple(range(9))}       # thorough: the full author x date product
_AD_SHIFTS_TRIPLES = {"quick": (0,), "thorough": (0, 4, 8)}           # thorough: three pairings (every author, every date)


def shifted_pool(C, shifts):
    """-> len(shifts) * POOL_SIZE distinct blocks: for every shift (in the given order) the pool with author and date
    moved on by it; the first POOL_SIZE blocks are the pool itself when shifts[0] == 0"""
    P = pool(C)
    out = []
    for k in shifts:
        for b in P:
            a, d = C["auth"].index(b[7]), C["date"].index(b[8])
            nb = [list(map(list, c)) if i == 5 else list(c) if i == 6 else c for i, c in enumerate(b)]
            nb[7] = C["auth"][(a + k // 3) % 3]
            nb[8] = C["date"][(d + k % 3) % 3]
            out.append(nb)
    assert len({repr(b) for b in out}) == len(out)
    return out


def pair_pool(C, tier):
    return shifted_pool(C, _AD_SHIFTS_PAIRS[tier])


def triple_pool(C, tier):
    return shifted_pool(C, _AD_SHIFTS_TRIPLES[tier])


# ------------------------------------------------------------------------------------------------
# sweep: one legal character at a time

_LOWER = "abcdefghijklmnopqrstuvwxyz"
_DIGITS = "0123456789"
SWEEP_NON_ASCII = ["\u00e9", "\u00df", "\u03a9", "\u044f", "\u4e2d", "\u00e7", "\u00f1", "\u00f8", "\u0436", "\u00fc",
                   "\u03bb", "\u221a"]
# block column of each component (see mkblock)
_SWEEP_COL = {"package": 0, "version": 1, "distributions": 2, "urgency": 3, "key": 5, "change": 6}


def sweep_plan():
    """-> [(component, templates with %s for the swept character, characters)] in canonical order"""
    name_chars = list("-+." + _DIGITS + _LOWER + _LOWER.upper())
    word_chars = list("-" + _DIGITS + _LOWER + _LOWER.upper())
    return [
        ("package", ["a%sb"], name_chars),
        ("version", ["1%s2"], list(".+~-" + _DIGITS + _LOWER + _LOWER.upper()) + [":"]),
        # the same character twice (a second hyphen or colon belongs to the upstream version), and after an epoch
        ("version", ["1%s2%s3", "1:2%s3-4"], list(".+~-:")),
        ("distributions", ["a%sb", "unstable a%sb"], name_chars),
        ("urgency", ["a%sb"], word_chars),
        ("key", ["a%sb"], word_chars),
        ("change", ["  * x%sy"], [chr(cp) for cp in range(0x20, 0x7F)] + SWEEP_NON_ASCII),
        # the value of an extra key=value setting (everything up to the next comma) and the maintainer part of the trailer
        ("value", ["x%sy"], [chr(cp) for cp in range(0x21, 0x7F) if chr(cp) != ","] + SWEEP_NON_ASCII),
        ("author", ["A%sB <a@b.c>", "A B <a%sb@c>"], [chr(cp) for cp in range(0x21, 0x7F)] + SWEEP_NON_ASCII),
        # change lines whose text is a marker of another layer of the format, indented like any change line
        ("change-marker", ["  pkg (1.0-1) unstable; urgency=low%s", "  -- A B <a@b.c>  Mon, 01 Jan 2024 00:00:00 +0000%s",
                           "  vim: ts=2%s", "  Local variables:%s", "  # comment%s", "  -----BEGIN PGP SIGNATURE-----%s",
                           "  Old Changelog:%s", "  $Id: x $%s", "  /* c */%s"], [""]),
    ]


def sweep_cases(component):
    base = ["pkg", "1.0-1", "unstable", "low", "", [], ["  * x"], "A B <a@b.c>", "Mon, 01 Jan 2024 00:00:00 +0000"]
    out = []
    for name, tpls, chars in sweep_plan():
        if name != component:
            continue
        for c in chars:
            for t in tpls:
                x = t.replace("%s", c)
                b = list(base)
                if name == "key":
                    b[5] = [[x, "yes"]]
                elif name == "value":
                    b[5] = [["k", x]]
                elif name == "author":
                    b[7] = x
                elif name in ("change", "change-marker"):
                    b[6] = ["  * x", x] if name == "change-marker" else [x]
                else:
                    b[_SWEEP_COL[name]] = x
                out.append({"lead": 0, "blocks": [b], "seps": []})
    return out


# ------------------------------------------------------------------------------------------------
# rendering and the oracle (shared by run_unit and replay)

def header(b):
    return "%s (%s) %s; urgency=%s%s%s" % (b[0], b[1], b[2], b[3], b[4], "".join(", %s=%s" % (k, v) for k, v in b[5]))


def render(case):
    """-> (text, labels) ; labels[i] names the grammar part line i was generated from."""
    lines, labels = [], []
    for _ in range(case["lead"]):
        lines.append("")
        labels.append("leading")
    for bi, b in enumerate(case["blocks"]):
        if bi:
            for _ in range(case["seps"][bi - 1]):
                lines.append("")
                labels.append("separator")
        lines.append(header(b))
        labels.append("header")
        for c in b[6]:
            lines.append(c)
            labels.append("change")
        lines.append(" -- %s  %s" % (b[7], b[8]))
        labels.append("trailer")
    return "".join(l + "\n" for l in lines), labels


# input forms of one text (the constructor's documented types); "str" is what every other family uses
FORMS = ["str", "bytes", "list of str lines with newlines", "list of str lines without newlines", "tuple of str lines",
         "generator of str lines with newlines", "io.StringIO", "io.BytesIO", "list of bytes lines with newlines",
         "generator of bytes lines without newlines"]


def make_input(text, form):
    """the text in the given input form; line-wise forms are built from the generator's lines (every line of a
    rendered text ends with \\n and contains no other line boundary)"""
    lines = text.split("\n")[:-1]
    if form == "str":
        return text
    if form == "bytes":
        return text.encode("utf-8")
    if form == "list of str lines with newlines":
        return [l + "\n" for l in lines]
    if form == "list of str lines without newlines":
        return list(lines)
    if form == "tuple of str lines":
        return tuple(lines)
    if form == "generator of str lines with newlines":
        return (l + "\n" for l in lines)
    if form == "io.StringIO":
        return io.StringIO(text)
    if form == "io.BytesIO":
        return io.BytesIO(text.encode("utf-8"))
    if form == "list of bytes lines with newlines":
        return [(l + "\n").encode("utf-8") for l in lines]
    if form == "generator of bytes lines without newlines":
        return (l.encode("utf-8") for l in lines)
    raise ValueError(form)


ATTRS = ("package", "version", "distributions", "urgency", "urgency_comment", "other_pairs", "changes", "author", "date")


def _observe(block, attr):
    if attr == "version":
        return str(block.version)
    if attr == "changes":
        return list(block.changes())
    if attr == "other_pairs":
        return dict(block.other_pairs)
    return getattr(block, attr)


def _expected(b):
    return {"package": b[0], "version": b[1], "distributions": b[2], "urgency": b[3], "urgency_comment": b[4],
            "other_pairs": {k: v for k, v in b[5]}, "changes": list(b[6]), "author": b[7], "date": b[8]}


def exec_case(case):
    """Run one generated document (or a session: several documents, one after the other, each with its own Changelog
    object) on the real code.  -> (violations, outcome class, evaluations)"""
    if "ladder" in case:
        return exec_ladder(case)[:3]
    if "session" in case:
        bad, outs, ev = [], [], 0
        for di, doc in enumerate(case["session"]):
            b, o, e = _exec_doc(doc)
            # a text that fails only after another one was parsed is a different defect from one that fails alone
            bad += [(sig + ("+after-another-text" if di else ""), exp, obs) for sig, exp, obs in b]
            outs.append(o)
            ev += e
        return bad, "session: " + " | ".join(outs), ev
    if case.get("routes"):
        return _exec_routes(case)[:3]
    if case.get("forms"):
        # the same text in every input form.  What already fails for the str form is reported under its plain
        # signature; a form that fails differently from str gets a signature naming the form.
        bad, ev, outs = [], 0, collections.Counter()
        plain = set()
        for form in FORMS:
            b, o, e = _exec_doc(case, form)
            ev += e
            outs[o] += 1
            if form == "str":
                plain = {sig for sig, _e, _o in b}
                bad += b
            else:
                bad += [("%s+input=%s" % (sig, form.replace(" ", "-")), exp, "%s: %r" % (form, obs))
                        for sig, exp, obs in b if sig not in plain]
        o = " | ".join("%s x%d" % kv for kv in sorted(outs.items()))
        return bad, "forms: " + o, ev
    return _exec_doc(case)


def _exec_doc(case, form="str"):
    from debian.changelog import Changelog
    text, labels = render(case)
    with warnings.catch_warnings(record=True) as w:
        warnings.simplefilter("always")
        try:
            c = Changelog(text if form == "str" else make_input(text, form), strict=True)
        except Exception as e:  # anything the parser raises on a well-formed text is a verdict
            return ([("changelog/parse/raises:%s" % type(e).__name__, "no exception", "%s: %s" % (type(e).__name__, e))],
                    "parse raises %s" % type(e).__name__, 1)
    return _judge(c, w, text, labels, case["blocks"])


def _judge(c, w, text, labels, want_blocks):
    """the oracle for one parsed object: no warning, str() == text, the blocks are the generator's components"""
    nblocks = len(want_blocks)
    bad = []
    ev = 1
    ev += 1
    if w:
        bad.append(("changelog/parse/warning", "no warning", [str(x.message) for x in w]))
    ev += 1
    try:
        s = str(c)
    except Exception as e:
        s = None
        bad.append(("changelog/str/raises:%s" % type(e).__name__, "text reproduced", "%s: %s" % (type(e).__name__, e)))
    if s is not None and s != text:
        got = s.split("\n")
        want = text.split("\n")
        i = 0
        while i < len(got) and i < len(want) and got[i] == want[i]:
            i += 1
        where = labels[i] if i < len(labels) else "end"
        bad.append(("changelog/str/differs@%s" % where, text, s))
    ev += 1
    try:
        blocks = list(c)
        n = len(c)
    except Exception as e:
        bad.append(("changelog/blocks/raises:%s" % type(e).__name__, "%d blocks" % nblocks, "%s: %s" % (type(e).__name__, e)))
        return bad, "iteration raises", ev
    if n != nblocks or len(blocks) != nblocks:
        bad.append(("changelog/blocks/count", nblocks, (n, len(blocks))))
        return bad, "blocks=%d (wrote %d)" % (n, nblocks), ev
    shape = []
    for bi, (blk, b) in enumerate(zip(blocks, want_blocks)):
        pos = "first" if bi == 0 else "later"
        exp = _expected(b)
        for attr in ATTRS:
            ev += 1
            want = exp[attr]
            try:
                got = _observe(blk, attr)
            except Exception as e:
                bad.append(("changelog/block/%s/raises:%s@%s" % (attr, type(e).__name__, pos), want,
                            "%s: %s" % (type(e).__name__, e)))
                continue
            if got != want or type(got) is not type(want):
                bad.append(("changelog/block/%s@%s" % (attr, pos), (bi, want), (bi, got)))
        shape.append("%dc%s%s" % (len(blk.changes()), "u" if blk.urgency_comment else "", "k%d" % len(blk.other_pairs)))
    # outcome class: what the parser made of the text (from the parsed object, not from the generator)
    if nblocks == 0:
        outcome = "0 blocks init=%d" % len(c.initial_blank_lines)
    elif nblocks == 1:
        kinds = "".join("b" if l == "" else "w" if not l.strip() else "c" for l in blocks[0].changes())
        outcome = "1 block init=%d changes=[%s] %s" % (len(c.initial_blank_lines), kinds, shape[0])
    else:
        outcome = "%d blocks init=%d changes=%d urgc=%d pairs=%d" % (
            nblocks, len(c.initial_blank_lines), sum(len(b.changes()) for b in blocks),
            sum(1 for b in blocks if b.urgency_comment), sum(len(b.other_pairs) for b in blocks))
    if bad:
        outcome = "VIOLATION " + outcome
    return bad, outcome, ev


# ------------------------------------------------------------------------------------------------
# the other ways in: the same well-formed text through every other public parsing route, and the parsed object
# through every other public way of formatting and reading it - always against the generator's components

BIG = 10 ** 6
NPARSES = [0]


def _parse(fn):
    """-> (Changelog | None, warnings, exception | None)"""
    NPARSES[0] += 1
    with warnings.catch_warnings(record=True) as w:
        warnings.simplefilter("always")
        try:
            return fn(), list(w), None
        except Exception as e:
            return None, list(w), e


def _used_objects():
    """(name, maker) of Changelog objects that have been used before the text is parsed on them"""
    from debian.changelog import Changelog
    other = ("\n\nother (9:9-9) oldstable; urgency=critical (c), K-1=v w\n\n  * earlier text\n\n"
             " -- Someone Else <s@e>  Sat, 06 Jan 2024 01:02:03 +0000\n\n")

    def parsed():
        return Changelog(other + other.lstrip("\n").replace("9:9-9", "8"), strict=True)

    def aborted():
        c = Changelog()
        try:
            with warnings.catch_warnings():
                warnings.simplefilter("ignore")
                c.parse_changelog("# lead\n" + other + "junk line\n" + other, strict=True)
        except Exception:
            pass
        return c

    def warned():
        with warnings.catch_warnings():
            warnings.simplefilter("ignore")
            return Changelog("junk\n" + other + "other (1) x; urgency=low\n  * no trailer\n")

    def built():
        c = Changelog()
        c.new_block(package="np", version="2.0", distributions="experimental", urgency="medium", author="N <n@n>",
                    date="Wed, 03 Jan 2024 00:00:00 +0000", changes=["", "  * nc", ""], other_pairs={"k": "v"})
        return c
    return [("after-another-text", parsed), ("after-aborted-strict-parse", aborted), ("after-lenient-parse-with-warnings", warned),
            ("after-building", built)]


def _truncated(case, k):
    """what max_blocks=k leaves of the document: (expected text, labels, blocks)"""
    sub = {"lead": case["lead"], "blocks": case["blocks"][:k], "seps": case["seps"][:max(k - 1, 0)]}
    text, labels = render(sub)
    if 0 < k < len(case["blocks"]):
        # the blank lines ahead of heading k+1 were read (they follow block k) before parsing stopped
        text += "\n" * case["seps"][k - 1]
        labels = labels + ["separator"] * case["seps"][k - 1]
    return text, labels, sub["blocks"]


def parse_routes(case, text):
    """-> [(route name, thunk -> Changelog, truncate-to | None)]"""
    from debian.changelog import Changelog
    n = len(case["blocks"])

    def method(obj=None, src=None, **kw):
        def go():
            c = obj() if obj is not None else Changelog()
            c.parse_changelog(text if src is None else src, **kw)
            return c
        return go
    out = [
        ("lenient-constructor", lambda: Changelog(text), None),
        ("keyword-file", lambda: Changelog(file=text, strict=True, max_blocks=None, allow_empty_author=False, encoding="utf-8"), None),
        ("positional", lambda: Changelog(text, None, False, True, "utf-8"), None),
        ("allow-empty-author", lambda: Changelog(text, allow_empty_author=True, strict=True), None),
        ("parse_changelog", method(), None),
        ("parse_changelog-strict", method(strict=True, allow_empty_author=True), None),
        ("parse_changelog-lenient", method(strict=False), None),
        ("max-blocks=all", lambda: Changelog(text, max_blocks=n, strict=True), None),
        ("max-blocks=big", lambda: Changelog(text, strict=True, max_blocks=BIG), None),
    ]
    for k in range(n):
        out.append(("max-blocks=0" if k == 0 else "max-blocks=k<n", (lambda k: lambda: Changelog(text, max_blocks=k, strict=True))(k), k))
    if n > 1:
        out.append(("parse_changelog-max-blocks=1", method(max_blocks=1), 1))
    for i, (name, mk) in enumerate(_used_objects()):
        out.append(("second-parse/" + name, method(obj=mk), None))
        # ... the second text handed over in the other input forms (each form has its own branch in the parser)
        out.append(("second-parse-lines/" + name, method(obj=mk, src=text.splitlines(True)), None))
        if i == 0:
            out.append(("second-parse-stringio/" + name, method(obj=mk, src=io.StringIO(text)), None))
            out.append(("second-parse-bytes/" + name, method(obj=mk, src=text.encode("utf-8")), None))
            out.append(("second-parse-generator/" + name, method(obj=mk, src=(l for l in text.splitlines(True))), None))

    def twice():
        c = Changelog(text, strict=True)
        c.parse_changelog(text)
        return c
    out.append(("second-parse/same-text-twice", twice, None))
    try:
        b = text.encode("latin-1")
    except UnicodeEncodeError:
        b = None
    if b is not None:
        lines = text.split("\n")[:-1]
        out += [
            ("latin-1-bytes", lambda: Changelog(b, strict=True, encoding="latin-1"), None),
            ("latin-1-bytes-lines", lambda: Changelog([(l + "\n").encode("latin-1") for l in lines], strict=True, encoding="latin-1"), None),
            ("latin-1-bytesio", lambda: Changelog(io.BytesIO(b), strict=True, encoding="latin-1"), None),
            ("latin-1-at-the-call", method(obj=lambda: Changelog(encoding="ascii"), src=b, encoding="latin-1"), None),
        ]
    return out


def _with_files(text, fn):
    d = tempfile.mkdtemp(prefix="c04-", dir="/dev/shm" if os.path.isdir("/dev/shm") else None)
    try:
        path = os.path.join(d, "changelog")
        with open(path, "w", encoding="utf-8", newline="\n") as f:
            f.write(text)
        return fn(path)
    finally:
        for name in os.listdir(d):
            os.unlink(os.path.join(d, name))
        os.rmdir(d)


def _value(fn):
    try:
        return fn()
    except Exception as e:
        return "<raises %s: %s>" % (type(e).__name__, e)


def format_routes(c, enc="utf-8"):
    """-> [(route, thunk)] every public way of getting the text (as str) out of a parsed object"""
    def via_file():
        f = io.StringIO()
        c.write_to_open_file(f)
        return f.getvalue()

    def lead():
        return "".join(l + "\n" for l in c.initial_blank_lines)
    return [("str-twice", lambda: (str(c), str(c))[1]),
            ("bytes", lambda: bytes(c).decode(enc)),
            ("write_to_open_file", via_file),
            ("str-of-blocks", lambda: lead() + "".join(str(b) for b in c)),
            ("bytes-of-blocks", lambda: lead() + b"".join(bytes(b) for b in c).decode(enc)),
            ("str-of-indexed-blocks", lambda: lead() + "".join(str(c[i]) for i in range(len(c)))),
            ("copy", lambda: str(copy.copy(c))),
            ("deepcopy", lambda: str(copy.deepcopy(c))),
            ("pickle", lambda: str(pickle.loads(pickle.dumps(c)))),
            ("str-after-the-others", lambda: str(c))]


def _which(it, got):
    """a block named by its position (object addresses differ from run to run)"""
    if isinstance(got, str):
        return got
    for i, b in enumerate(it):
        if b is got:
            return "block %d" % i
    return "a %s that is not a block of the changelog" % type(got).__name__


def read_routes(c, want_blocks):
    """-> [(sig, expected, observed)]: subscripts, len, the version list and the top-block properties against the
    generator's components"""
    from ..models import versyntax
    bad = []
    n = len(want_blocks)
    it = list(c)
    if len(it) != n:
        return []            # reported by the plain oracle
    for i in range(-n, n):
        got = _value(lambda: c[i])
        if got is not it[i]:
            bad.append(("changelog/via=index/block", "block %d" % (i % n), _which(it, got)))
            break
    got = _value(lambda: c[n])
    if not (isinstance(got, str) and got.startswith("<raises IndexError")):
        bad.append(("changelog/via=index/past-the-end", "IndexError", _which(it, got)))
    vers = [b[1] for b in want_blocks]
    for name, fn in (("versions", lambda: [str(v) for v in c.versions]), ("get_versions", lambda: [str(v) for v in c.get_versions()])):
        got = _value(fn)
        if got != vers:
            bad.append(("changelog/via=%s" % name, vers, got))
    for i, b in enumerate(want_blocks):
        first = vers.index(b[1])
        for name, key in (("version-text", lambda: b[1]), ("version-object", lambda: it[i].version)):
            got = _value(lambda: c[key()])
            if got is not it[first]:
                bad.append(("changelog/via=index/%s" % name, "block %d (the first with version %s)" % (first, b[1]), _which(it, got)))
        e, u, r = versyntax.parts(b[1])
        got = _value(lambda: (it[i].version.epoch, it[i].version.upstream_version, it[i].version.debian_revision,
                              it[i].version.full_version))
        if got != (e, u, r, b[1]):
            bad.append(("changelog/via=block-version-parts@%s" % ("first" if i == 0 else "later"), (e, u, r, b[1]), got))
    if n:
        b = want_blocks[0]
        e, u, r = versyntax.parts(b[1])
        for name, fn, want in (
                ("package", lambda: c.package, b[0]), ("get_package", lambda: c.get_package(), b[0]),
                ("version", lambda: str(c.version), b[1]), ("get_version", lambda: str(c.get_version()), b[1]),
                ("full_version", lambda: c.full_version, b[1]), ("epoch", lambda: c.epoch, e),
                ("upstream_version", lambda: c.upstream_version, u), ("debian_revision", lambda: c.debian_revision, r),
                ("debian_version", lambda: c.debian_version, r), ("distributions", lambda: c.distributions, b[2]),
                ("urgency", lambda: c.urgency, b[3]), ("author", lambda: c.author, b[7]), ("date", lambda: c.date, b[8])):
            got = _value(fn)
            if got != want:
                bad.append(("changelog/via=property/%s" % name, want, got))
    return bad


def _exec_routes(case):
    """-> (violations, outcome, evaluations, parses)"""
    from debian.changelog import Changelog
    n0 = NPARSES[0]
    text, labels = render(case)
    bad, outcome, ev = _exec_doc(case)
    if bad:
        return bad, outcome, ev, 1          # fails on the plain route already: reported under its plain signature
    routes = 0
    for name, thunk, trunc in parse_routes(case, text):
        c, w, e = _parse(thunk)
        routes += 1
        if e is not None:
            bad.append(("changelog/parse/raises:%s+via=%s" % (type(e).__name__, name), "no exception",
                        "%s: %s: %s" % (name, type(e).__name__, e)))
            continue
        t, lb, wb = (text, labels, case["blocks"]) if trunc is None else _truncated(case, trunc)
        if name.startswith("latin-1") and name != "latin-1-at-the-call":     # bytes() uses the encoding of the object
            got = _value(lambda: bytes(c))
            ev += 1
            if got != t.encode("latin-1"):
                bad.append(("changelog/bytes+via=%s" % name, t.encode("latin-1"), got))
        b2, _o, e2 = _judge(c, w, t, lb, wb)
        ev += e2
        bad += [("%s+via=%s" % (sig, name), exp, "%s: %r" % (name, obs)) for sig, exp, obs in b2]

    def from_files(path):
        out = []
        for name, mode, kw in (("text-file", "r", {"encoding": "utf-8"}), ("binary-file", "rb", {})):
            with open(path, mode, **kw) as f:
                out.append((name,) + _parse(lambda: Changelog(f, strict=True)))
        return out
    for name, c, w, e in _with_files(text, from_files):
        routes += 1
        if e is not None:
            bad.append(("changelog/parse/raises:%s+via=%s" % (type(e).__name__, name), "no exception", "%s: %s" % (type(e).__name__, e)))
            continue
        b2, _o, e2 = _judge(c, w, text, labels, case["blocks"])
        ev += e2
        bad += [("%s+via=%s" % (sig, name), exp, "%s: %r" % (name, obs)) for sig, exp, obs in b2]
    c, w, e = _parse(lambda: Changelog(text, strict=True))
    for name, fn in format_routes(c):
        got = _value(fn)
        routes += 1
        ev += 1
        if got != text:
            bad.append(("changelog/via=%s/text" % name, text, got))
    # a deep copy is independent of the original
    for name, mk in (("deepcopy", lambda: copy.deepcopy(c)), ("pickle", lambda: pickle.loads(pickle.dumps(c)))):
        c2 = mk()
        b2, _o, e2 = _judge(c2, [], text, labels, case["blocks"])
        ev += e2
        bad += [("%s+via=%s" % (sig, name), exp, "%s: %r" % (name, obs)) for sig, exp, obs in b2]
        for blk in c2:
            blk.add_change("  * only in the copy")
            blk.package = "copy"
            blk.other_pairs["only"] = "copy"
        c2.initial_blank_lines.append("")
        b2, _o, e2 = _judge(c, [], text, labels, case["blocks"])
        ev += e2
        bad += [("%s+via=original-after-editing-its-%s" % (sig, name), exp, obs) for sig, exp, obs in b2]
    b2 = read_routes(c, case["blocks"])
    ev += 20 + 4 * len(case["blocks"])
    routes += 20
    bad += b2
    return bad, "routes: %d block(s), %d routes agree" % (len(case["blocks"]), routes) if not bad else "routes: VIOLATION", ev, NPARSES[0] - n0


def route_docs(C):
    """documents of the routes family: the documents of the input-forms family and three-block documents over the same
    blocks"""
    B = form_blocks(C)
    out = []
    for i in range(len(B)):
        for lead in range(3):
            out.append(_doc(lead, [B[i]], []))
            out.append(_doc(lead, [B[i], B[(i + 1) % len(B)]], [1 + i % 2]))
        out.append(_doc(i % 3, [B[i], B[(i + 7) % len(B)], B[(i + 1) % len(B)]], [1 + i % 2, 2 - i % 2]))
    return out


# ------------------------------------------------------------------------------------------------
# beyond the small scope: count ladders (one repeatable element of the grammar n times in an otherwise simple document)
# and a size ladder (whole texts of exactly L bytes with a line end placed on / next to the multiples of 65 536).
# A case is a compact description; the document is regenerated from it (ladder_doc) for execution and replay.

LADDER_SMALL = list(range(1, 41))
LADDER_BIG = [63, 64, 65, 100, 127, 128, 129, 255, 256, 257, 999, 1000, 1001, 1025, 2500, 2501, 5000]
# (ladder, arrangement): what is repeated n times
LADDERS = [("distributions", "plain"),
           ("settings", "plain"), ("settings", "after-urgency-comment"),
           ("change-lines", "items"), ("change-lines", "kinds"), ("change-lines", "continuations"),
           ("blank-lines", "first-in-block"), ("blank-lines", "mid-block"), ("blank-lines", "last-in-block"),
           ("blank-lines", "whitespace-only-mid-block"), ("blank-lines", "leading"), ("blank-lines", "separator"),
           ("blocks", "varied"), ("blocks", "one-line-changes")]
# the largest count run per ladder (quick, thorough): every case up to 5000 runs in well under a second
LADDER_MAX = {}
LADDER_FORMS = ["str", "bytes", "list of str lines without newlines", "io.BytesIO", "io.StringIO", "list of bytes lines with newlines"]
SIZE_L = [997, 998, 999, 1000, 4095, 4096, 4097, 16383, 16384, 16385, 65535, 65536, 65537, 131071, 131072, 131073, 196608,
          262143, 262144, 262145]
SIZE_BLOCK = 65536
# where the line end that is placed next to every multiple of 65 536 inside the text goes: the newline is the byte just
# before the multiple (-1: the next line starts exactly on it), the byte on it (0), the byte after it (+1), or a two-byte
# character straddles the multiple and the newline follows it ("mb")
SIZE_STYLES = [("lines", -1), ("lines", 0), ("lines", 1), ("lines", "mb"), ("one-line", None), ("setting-value", None), ("author", None),
               ("change-line-of-L", None), ("heading-of-L", None), ("trailer-of-L", None)]
_FILL = "lorem ipsum: dolor sit -- amet <consectetur> ; urgency=low; x "
_FILL_PLAIN = "lorem ipsum: dolor sit amet "
_FILL_AUTHOR = "lorem <ipsum> dolor: sit amet "      # the address is what stands behind the LAST ' <' (see assumptions)


def ladder_counts(ladder, tier):
    top = LADDER_MAX.get(ladder, (5000, 5000))[0 if tier == "quick" else 1]
    return [n for n in LADDER_SMALL + LADDER_BIG if n <= top]


def _filled(prefix, length, fill=_FILL):
    """a string of exactly `length` characters that starts with prefix and does not end with a blank"""
    assert length >= len(prefix) + 1, (prefix, length)
    body = (prefix + fill * ((length - len(prefix)) // len(fill) + 1))[:length]
    return body[:-1] + "z" if body[-1] == " " else body


def ladder_doc(case):
    """the generated document {"lead", "blocks", "seps"} of a ladder / size case"""
    C = comps(case.get("seed", 0))
    word, suite, x, y = C["pkg"][0], C["dist"][0], C["chg"][0][4:], C["chg"][1][-1]
    auth, date = C["auth"][0], C["date"][0]
    base = [word, "1.0-1", suite, "low", "", [], ["  * " + x], auth, date]
    if case["ladder"] == "size":
        return size_doc(C, case["n"], case["arr"], case["where"])
    ladder, arr, n = case["ladder"], case["arr"], case["n"]
    lead, blocks, seps = 0, [base], []
    if ladder == "distributions":
        base[2] = " ".join("%s-%d" % (suite, i) for i in range(n))
    elif ladder == "settings":
        vals = ["v", "c d", "yes", "1 2  3", "w (v)"]
        base[5] = [["%s%d" % ("kK"[i % 7 == 3], i), vals[i % len(vals)] + str(i)] for i in range(n)]
        if arr == "after-urgency-comment":
            base[3], base[4] = "medium", " (see NEWS)"
    elif ladder == "change-lines":
        if arr == "items":
            base[6] = ["  * %s %d" % (x, i) for i in range(n)]
        elif arr == "continuations":
            base[6] = ["  * %s" % x] + ["    cont %d" % i for i in range(1, n)]
        else:
            kinds = C["chg"]
            base[6] = [kinds[i % 6] + (" %d" % i if kinds[i % 6].strip() and i % 6 != 5 else "") for i in range(n)]
    elif ladder == "blank-lines":
        blank = [""] * n
        if arr == "first-in-block":
            base[6] = blank + ["  * " + x]
        elif arr == "mid-block":
            base[6] = ["  * " + x] + blank + ["  * " + y]
        elif arr == "last-in-block":
            base[6] = ["  * " + x] + blank
        elif arr == "whitespace-only-mid-block":
            base[6] = ["  * " + x] + [" " * (1 + i % 4) for i in range(n)] + ["  * " + y]
        elif arr == "leading":
            lead = n
        else:
            blocks, seps = [base, [word, "0.9-1", suite, "low", "", [], ["  * " + y], auth, date]], [n]
    elif ladder == "blocks":
        blocks = []
        for i in range(n):
            chg = ["  * %s %d" % (x, i)] if arr == "one-line-changes" else [
                (C["chg"][k] + (" %d" % i if C["chg"][k].strip() and k != 5 else "")) for k in _POOL_CHG[i % len(_POOL_CHG)]]
            blocks.append([C["pkg"][i % 3] if arr == "varied" else word, "%d.%d-1" % (n - i, i % 10), C["dist"][i % 4] if arr == "varied" else suite,
                           C["urg"][i % 3][0], C["urg"][i % 3][1], [list(kv) for kv in C["kv"][i % 3]] if arr == "varied" else [],
                           chg, C["auth"][i % 3], C["date"][(i // 3) % 3]])
        seps = [1 + (i % 2 if arr == "varied" else 0) for i in range(n - 1)]
    else:
        raise ValueError(ladder)
    return {"lead": lead, "blocks": blocks, "seps": seps}


def _blen(s):
    return len(s.encode("utf-8"))


def size_doc(C, L, style, where):
    """a well-formed document whose UTF-8 form has exactly L bytes (see SIZE_STYLES)"""
    word, suite, x = C["pkg"][0], C["dist"][0], C["chg"][0][4:]
    auth, date = C["auth"][0], C["date"][0]
    assert _blen(auth) == len(auth) and _blen(word + suite + x) == len(word + suite + x)
    trailer = len(" -- %s  %s\n" % (auth, date))
    if style.endswith("-of-L"):
        # one LINE of exactly L characters (the text is about 100 bytes longer)
        b = [word, "1.0-1", suite, "low", "", [], ["  * " + x], auth, date]
        if style == "change-line-of-L":
            b[6] = ["  * " + x, _filled("  * ", L), "    cont"]
        elif style == "heading-of-L":
            b[5] = [["k", _filled("v ", L - len(header(b)) - len(", k="), _FILL_PLAIN)]]
            assert len(header(b)) == L
        else:
            b[7] = _filled("A ", L - len(" --  <a@b.c>  " + date), _FILL_AUTHOR) + " <a@b.c>"
            assert len(" -- %s  %s" % (b[7], date)) == L
        return {"lead": 0, "blocks": [b], "seps": []}
    if style != "lines":
        b = [word, "1.0-1", suite, "low", "", [], ["  * " + x], auth, date]
        rest = L - _blen(render({"lead": 0, "blocks": [b], "seps": []})[0])
        if style == "one-line":
            b[6] = ["  * " + x, _filled("  * ", rest - 1)]
        elif style == "setting-value":
            b[5] = [["k", _filled("v ", rest - len(", k="), _FILL_PLAIN)]]
        else:
            b[7] = _filled("A ", rest + len("A B"), _FILL_AUTHOR) + " <a@b.c>"
        doc = {"lead": 0, "blocks": [b], "seps": []}
    else:
        final = L - trailer - 1                      # index of the newline of the last change line
        shift = 1 if where == "mb" else where
        targets = [t for t in (m * SIZE_BLOCK + shift for m in range(1, L // SIZE_BLOCK + 1)) if t < final - 200] + [final]
        blocks, off = [], 0
        while targets:
            b = [word, "%d.0-1" % (1000000 - len(blocks)), suite, "low", "", [], [], auth, date]
            off += (1 if blocks else 0) + len(header(b)) + 1
            blocks.append(b)
            while targets:
                gap = targets[0] - off               # length of a line whose newline is the byte at targets[0]
                assert gap >= 8, (L, where, gap)
                if gap > 140:
                    line = _filled("  * %s %d " % (x, len(b[6])), 60)
                else:
                    t = targets.pop(0)
                    if where == "mb" and t != final:
                        line = _filled("  * ", gap - 2) + "é"     # its two bytes are the last before and the first of the block
                    else:
                        line = _filled("  * ", gap)
                b[6].append(line)
                off += _blen(line) + 1
                if not targets or (len(b[6]) >= 25 and targets[0] - off > 800):
                    break
            off += trailer
        doc = {"lead": 0, "blocks": blocks, "seps": [1] * (len(blocks) - 1)}
    assert _blen(render(doc)[0]) == L, (L, style, where)
    return doc


def exec_ladder(case):
    """one ladder / size document in every form of LADDER_FORMS -> (violations, outcome, evaluations, parses)"""
    doc = ladder_doc(case)
    if case["ladder"] == "size":
        pre = "size/%s/" % case["arr"]
        tag = "size/%s: " % case["arr"]
    else:
        pre = "ladder/%s/%s/" % (case["ladder"], case["arr"])
        tag = "ladder/%s: " % case["ladder"]
    bad, ev, outs, plain = [], 0, collections.Counter(), set()
    for form in LADDER_FORMS:
        b, o, e = _exec_doc(doc, form)
        ev += e
        outs["VIOLATION" if b else "ok"] += 1
        shape = o
        if form == "str":
            plain = {sig for sig, _e, _o in b}
            bad += [(pre + sig, exp, obs) for sig, exp, obs in b]
        else:
            bad += [("%s%s+input=%s" % (pre, sig, form.replace(" ", "-")), exp, "%s: %r" % (form, obs))
                    for sig, exp, obs in b if sig not in plain]
    if case["ladder"] == "size" or case["n"] > 40:
        shape = "large"
    elif case["ladder"] in ("change-lines", "blank-lines") and case["n"] > 3:
        shape = "more than 3 lines in the block"
    return bad, tag + shape + " / " + " ".join("%s x%d" % kv for kv in sorted(outs.items())), ev, len(LADDER_FORMS)


def ladder_cases(u, tier, seed):
    if u[0] == "ladder":
        ladder, arr = LADDERS[u[1]]
        ns = ladder_counts(ladder, tier)
        ns = ns[:40] if u[2] == "small" else ns[40:]
        return [{"ladder": ladder, "arr": arr, "n": n, "seed": seed} for n in ns]
    style, where = SIZE_STYLES[u[1]]
    return [{"ladder": "size", "arr": style, "where": where, "n": L, "seed": seed} for L in SIZE_L]


def run_ladder_unit(part, u, tier, seed):
    cases = ladder_cases(u, tier, seed)
    for case in cases:
        bad, outcome, ev, parses = exec_ladder(case)
        part.states += 1
        part.transitions += 1
        part.traces += parses
        part.evaluations += ev
        part.nontrivial += 1
        part.outcomes[outcome] += 1
        part.max_depth = max(part.max_depth, case["n"] if u[0] == "ladder" else 0)
        for sig, exp, obs in bad:
            part.violation(sig, case, exp, obs, rank=case["n"])
    part.extra["ladder documents (beyond the small scope)" if u[0] == "ladder" else "size-ladder documents"] += len(cases)
    part.sample(cases[0])
    part.sample(cases[-1])
    return part


def nontrivial(case):
    if "session" in case:
        return all(nontrivial(d) for d in case["session"])
    blocks = case["blocks"]
    if not any(any(l.strip() for l in b[6]) for b in blocks):
        return False
    if len(blocks) > 1 or case["lead"]:
        return True
    b = blocks[0]
    return bool(" " in b[2] or b[4] or b[5] or ":" in b[1] or any(not l.strip() for l in b[6]))


# ------------------------------------------------------------------------------------------------
# work units

def _maxlen(tier):
    return 2 if tier == "quick" else 4


DEEP_LEN = 5          # thorough: change-line sequences of this length with the authors paired with the dates
TRIPLE_GROUP = 10     # thorough: second blocks per triple unit


def _author_dates(tier):
    if tier == "quick":
        return [(0, 0), (1, 1), (2, 2)]
    return [(a, d) for a in range(3) for d in range(3)]


def _triple_leads(tier):
    # leading blank lines only interact with the first heading; pairs and single blocks carry all of 0..2
    return (0,) if tier == "quick" else (0, 1, 2)


def units(tier, seed):
    # near-duplicate, spelling and long-component documents come first: they are one- to three-block documents over
    # one small base block, and a defect that needs an earlier heading (state kept between blocks / texts) shows in
    # their very first unit when the units are re-run sequentially.  The twin-pristine units evaluate every case in a
    # process of its own whose library state is the one right after import (rank 0: such a violation replays as it
    # is); every other violation has rank = number of blocks, so that a failure which may depend on what the worker
    # process parsed before is never preferred to a self-contained one.
    out = [("twin-pristine", g) for g in range(TWINS // 5)]
    out += [("twin-single",)]
    out += [("twin-pair", i) for i in range(TWINS)]
    out += [("twin-triple", i) for i in range(TWINS)]
    out += [("spelling", lead) for lead in range(3)]
    out += [("long", i) for i in range(5)]
    out += [("forms", g) for g in range(FORM_UNITS)]
    out += [("routes", g) for g in range(ROUTE_UNITS)]
    out += [("routes-sweep", name) for name in dict.fromkeys(name for name, _t, _c in sweep_plan())]
    for lead in range(3):
        for p in range(3):
            for v in range(3):
                for d in range(4):
                    out.append(("single", lead, p, v, d))
    if tier != "quick":
        for lead in range(3):
            for p in range(3):
                for v in range(3):
                    for d in range(4):
                        out += [("single-deep", lead, p, v, d, c0) for c0 in range(6)]
    npairs = len(_AD_SHIFTS_PAIRS[tier]) * POOL_SIZE
    ntriples = len(_AD_SHIFTS_TRIPLES[tier]) * POOL_SIZE
    for i in range(npairs):
        out.append(("pair", i))
    for i in range(ntriples):
        if tier == "quick":
            for j in range(ntriples):
                out.append(("triple", i, j))
        else:
            out += [("triple", i, (j, min(j + TRIPLE_GROUP, ntriples))) for j in range(0, ntriples, TRIPLE_GROUP)]
    if tier != "quick":
        out += [("quad", i, j) for i in range(POOL_SIZE) for j in range(POOL_SIZE)]
    out += [("sweep", name) for name in dict.fromkeys(name for name, _t, _c in sweep_plan())]
    # beyond the small scope
    out += [("ladder", i, g) for i in range(len(LADDERS)) for g in ("small", "big")]
    out += [("size", i) for i in range(len(SIZE_STYLES))]
    return out


def unit_cost(u, tier):
    if u[0] == "ladder":
        return 20000 if u[2] == "big" else 3000
    if u[0] == "size":
        return 20000
    if u[0] == "twin-pristine":
        return 30 * (5 + 2 * 5 * 7)
    if u[0] == "twin-single":
        return 2 * TWINS
    if u[0] == "twin-pair":
        return 4 * TWINS
    if u[0] == "twin-triple":
        return 3 * TWINS ** 2 + 3 * 2 * TWINS
    if u[0] == "spelling":
        return N_URG_ALL * N_KV_ALL * len(_POOL_CHG)
    if u[0] == "long":
        return 3 + 2 * 2 * 2 * POOL_SIZE
    if u[0] == "forms":
        return 2 * 3 * 10 * ((TWINS + 5 + POOL_SIZE) // FORM_UNITS)
    if u[0] == "routes":
        return 7 * 40 * ((TWINS + 5 + POOL_SIZE) // ROUTE_UNITS)
    if u[0] == "routes-sweep":
        return 130 * 35
    if u[0] == "single":
        n = sum(6 ** L for L in range(_maxlen(tier) + 1))
        return 9 * n * len(_author_dates(tier))
    if u[0] == "single-deep":
        return 9 * 6 ** (DEEP_LEN - 1) * 3
    if u[0] == "pair":
        return 2 * POOL_SIZE * len(_AD_SHIFTS_PAIRS[tier]) * 3 * 2
    if u[0] == "sweep":
        return 130
    if u[0] == "quad":
        return 4 * POOL_SIZE ** 2 * 8
    nj = u[2][1] - u[2][0] if isinstance(u[2], tuple) else 1
    return 3 * POOL_SIZE * len(_AD_SHIFTS_TRIPLES[tier]) * len(_triple_leads(tier)) * 4 * nj


def _rank(case):
    return sum(len(d["blocks"]) for d in case["session"]) if "session" in case else len(case["blocks"])


def _do(part, case, tag=""):
    rank = _rank(case)
    n0 = NPARSES[0]
    bad, outcome, ev = exec_case(case)
    part.traces += (len(case["session"]) if "session" in case else len(FORMS) if case.get("forms") else
                    1 + NPARSES[0] - n0 if case.get("routes") else 1)
    part.evaluations += ev
    part.outcomes[tag + outcome] += 1
    if nontrivial(case):
        part.nontrivial += 1
    for sig, exp, obs in bad:
        part.violation(sig, case, exp, obs, rank=rank)


def _doc(lead, blocks, seps):
    return {"lead": lead, "blocks": blocks, "seps": seps}


def _run_extra_unit(part, u, C):
    """near-duplicate (twin), spelling and long-component units"""
    kind = u[0]
    n = 0
    case = None
    if kind.startswith("twin"):
        T = twins(C)
        tag = "twin: "
    if kind == "twin-pristine":
        # lead 0 singles, pairs with a one-line separator and the sessions: each case in a fresh child of a process
        # that has imported the library and never run it (no memo, no cache, no class-level scratch data filled)
        from ..pristine import Pristine
        part.max_depth = 3
        mine = range(5 * u[1], 5 * u[1] + 5)
        close = [(T[i], T[j]) for i in mine for j in range(TWINS) if closest(T, i, j)]
        cases = [_doc(0, [T[i]], []) for i in mine]
        cases += [_doc(0, [a, b], [1]) for a, b in close]
        cases += [{"session": [_doc(0, [a], []), _doc(0, [b], [])]} for a, b in close]
        Z = Pristine(ID)
        try:
            for case in cases:
                bad = Z.replay(case)
                ntexts = len(case["session"]) if "session" in case else 1
                part.traces += ntexts
                # a passing text costs 4 document-level and 9 per-block comparisons (see _exec_doc)
                part.evaluations += len(bad) if bad else 4 * ntexts + 9 * _rank(case)
                part.nontrivial += 1
                part.outcomes["twin/pristine: %s %s" % (
                    "session of 2 texts" if "session" in case else "%d block(s)" % len(case["blocks"]),
                    "VIOLATION" if bad else "ok")] += 1
                for sig, exp, obs in bad:
                    part.violation(sig, case, exp, obs, rank=0)
                n += 1
        finally:
            Z.close()
        part.extra["sessions of two single-block texts"] += len(close)
        part.extra["texts evaluated in pristine library state"] += part.traces
        case = cases[-1]
    elif kind == "twin-single":
        part.max_depth = 2 + 1
        for lead in (1, 2):                # lead 0: twin-pristine
            part.states += 1
            part.transitions += 1
            for b in T:
                case = _doc(lead, [b], [])
                _do(part, case, tag)
                n += 1
    elif kind == "twin-pair":
        i = u[1]
        a = T[i]
        part.max_depth = 1 + 1 + 1
        n += 3
        for j, b in enumerate(T):
            pristine = closest(T, i, j)    # then the one-line separator and the session belong to twin-pristine
            for sep in (1, 2):
                if sep == 2 or not pristine:
                    case = _doc(0, [a, b], [sep])
                    _do(part, case, tag)
                    n += 1
            if not pristine:
                case = {"session": [_doc(0, [a], []), _doc(0, [b], [])]}
                _do(part, case, tag)
                part.extra["sessions of two single-block texts"] += 1
                n += 1
    elif kind == "twin-triple":
        a = T[u[1]]
        P = pool(C)
        part.max_depth = 1 + 2 + 2
        for b in T:
            n += 1                         # (a, b): shorter prefixes belong to the twin-pair units
            for c in T:
                case = _doc(0, [a, b, c], [1, 1])
                _do(part, case, tag)
                n += 1
        for mid in (P[0], P[11]):
            n += 1
            for c in T:
                case = _doc(0, [a, mid, c], [1, 1])
                _do(part, case, tag)
                n += 1
    elif kind == "spelling":
        lead = u[1]
        word, suite = C["pkg"][0], C["dist"][0]
        U, K = urg_all(C), kv_all(C)
        part.max_depth = lead + 1 + 5 + 1
        for ui, (uv, uc) in enumerate(U):
            n += 1
            for ki, kv in enumerate(K):
                if ui < 3 and ki < 3:
                    continue               # these belong to the single-block product
                n += 1
                for cs in _POOL_CHG:
                    b = [word, "1.0-1", suite, uv, uc, [list(p) for p in kv], [C["chg"][i] for i in cs],
                         C["auth"][0], C["date"][0]]
                    case = _doc(lead, [b], [])
                    _do(part, case, "spelling: ")
                    n += 1
    elif kind == "forms":
        B = form_blocks(C)
        per = len(B) // FORM_UNITS
        part.max_depth = 2 + 2 + 7 + 1
        for i in range(per * u[1], per * (u[1] + 1)):
            for lead in range(3):
                for blocks, seps in (([B[i]], []), ([B[i], B[(i + 1) % len(B)]], [1 + i % 2])):
                    case = dict(_doc(lead, blocks, seps), forms=1)
                    _do(part, case, "")
                    n += 1
    else:
        L = long_blocks(C)[u[1]]
        P = pool(C)
        part.max_depth = 2 + 1 + 7 + 2
        for lead in range(3):
            case = _doc(lead, [L], [])
            _do(part, case, "long: ")
            n += 1
        for sep in (1, 2):
            for b in P:
                for blocks in ([L, b], [b, L]):
                    case = _doc(0, blocks, [sep])
                    _do(part, case, "long: ")
                    n += 1
    part.states += n
    part.transitions += n
    part.extra["(document, input form) parses" if kind == "forms" else "%s documents" % kind.split("-")[0]] += part.traces
    part.sample(case)
    return part


def run_unit(u, tier, seed):
    part = core.Part()
    C = comps(seed)
    if u[0] in ("ladder", "size"):
        return run_ladder_unit(part, u, tier, seed)
    if u[0].startswith("twin") or u[0] in ("spelling", "long", "forms"):
        return _run_extra_unit(part, u, C)
    if u[0] in ("routes", "routes-sweep"):
        if u[0] == "routes":
            D = route_docs(C)
            per = len(D) // ROUTE_UNITS
            cases = D[per * u[1]: per * (u[1] + 1)]
            part.max_depth = 2 + 3 * 7 + 4
        else:
            cases = sweep_cases(u[1])
            part.max_depth = 4
        for case in cases:
            case = dict(case, routes=1)
            part.states += 1
            part.transitions += 1
            _do(part, case, "")
        part.extra["(document, route) evaluations"] += part.traces
        part.sample(case)
        return part
    if u[0] == "single":
        _, lead, p, v, d = u
        # generator prefixes above the unit level are attributed to the first unit below them
        n = 1 + (d == 0) + (d == 0 and v == 0) + (d == 0 and v == 0 and p == 0)
        part.states += n
        part.transitions += n
        if (lead, p, v, d) == (0, 0, 0, 0):
            part.states += 1  # the root (empty prefix)
        ads = _author_dates(tier)
        maxlen = _maxlen(tier)
        part.max_depth = lead + 1 + maxlen + 1
        k = 0
        for L in range(maxlen + 1):
            for cs in itertools.product(range(6), repeat=L):
                part.states += 1
                part.transitions += 1
                for ui in range(3):
                    part.states += 1
                    part.transitions += 1
                    for ki in range(3):
                        part.states += 1
                        part.transitions += 1
                        last_a = None
                        for a, dt in ads:
                            if tier != "quick" and a != last_a:
                                part.states += 1      # author chosen, date still open
                                part.transitions += 1
                                last_a = a
                            part.states += 1
                            part.transitions += 1
                            case = {"lead": lead, "blocks": [mkblock(C, p, v, d, ui, ki, cs, a, dt)], "seps": []}
                            _do(part, case)
                            k += 1
                            if k in (1, 500):
                                part.sample(case)
        part.sample(case)
        part.extra["single-block documents"] += k
        return part
    if u[0] == "single-deep":
        # change-line sequences of length DEEP_LEN that start with shape c0; authors paired with dates as in the quick
        # tier; shorter sequences (and the prefixes above the first change line) belong to the "single" units
        _, lead, p, v, d, c0 = u
        ads = _author_dates("quick")
        part.max_depth = lead + 1 + DEEP_LEN + 1
        k = 0
        for rest in itertools.product(range(6), repeat=DEEP_LEN - 1):
            cs = (c0,) + rest
            part.states += 1
            part.transitions += 1
            for ui in range(3):
                part.states += 1
                part.transitions += 1
                for ki in range(3):
                    part.states += 1
                    part.transitions += 1
                    for a, dt in ads:
                        part.states += 1
                        part.transitions += 1
                        case = {"lead": lead, "blocks": [mkblock(C, p, v, d, ui, ki, cs, a, dt)], "seps": []}
                        _do(part, case)
                        k += 1
        if (p, v, d, c0) == (0, 0, 0, 0):
            part.sample(case)
        part.extra["single-block documents"] += k
        return part
    if u[0] == "sweep":
        cases = sweep_cases(u[1])
        part.max_depth = 4
        for case in cases:
            part.states += 1
            part.transitions += 1
            bad, outcome, ev = exec_case(case)
            part.traces += 1
            part.evaluations += ev
            part.outcomes["sweep/%s: %s" % (u[1], outcome)] += 1
            if nontrivial(case):
                part.nontrivial += 1
            for sig, exp, obs in bad:
                part.violation(sig, case, exp, obs, rank=1)
            part.extra["sweep documents"] += 1
        part.sample(cases[0])
        return part
    if u[0] == "quad":
        # (block i, sep1, block j, sep2, block k, sep3, block l) over the pool; shorter prefixes belong to the triple units
        P = pool(C)
        _, i, j = u
        part.max_depth = 4 * 7 + 6
        for sep1 in (1, 2):
            for sep2 in (1, 2):
                for k in range(POOL_SIZE):
                    for sep3 in (1, 2):
                        part.states += 1
                        part.transitions += 1
                        for l in range(POOL_SIZE):
                            part.states += 1
                            part.transitions += 1
                            case = {"lead": 0, "blocks": [P[i], P[j], P[k], P[l]], "seps": [sep1, sep2, sep3]}
                            _do(part, case)
                            part.extra["four-block documents"] += 1
        if j == 0:
            part.sample(case)
        return part
    if u[0] == "pair":
        P = pair_pool(C, tier)
        i = u[1]
        part.max_depth = 2 + 2 + 5 + 2 + 7 + 2
        for lead in range(3):
            part.states += 1          # (lead, block i)
            part.transitions += 1
            for sep in (1, 2):
                part.states += 1
                part.transitions += 1
                for j in range(len(P)):
                    part.states += 1
                    part.transitions += 1
                    case = {"lead": lead, "blocks": [P[i], P[j]], "seps": [sep]}
                    _do(part, case)
                    part.extra["two-block documents"] += 1
        part.sample(case)
        return part
    P = triple_pool(C, tier)
    _, i, js = u
    part.max_depth = 2 + 3 * 7 + 4
    for j in (range(*js) if isinstance(js, tuple) else (js,)):
        for lead in _triple_leads(tier):
            for sep1 in (1, 2):
                part.states += 1              # (lead, block i, sep1, block j); shorter prefixes belong to the pair units
                part.transitions += 1
                for sep2 in (1, 2):
                    part.states += 1
                    part.transitions += 1
                    for k in range(len(P)):
                        part.states += 1
                        part.transitions += 1
                        case = {"lead": lead, "blocks": [P[i], P[j], P[k]], "seps": [sep1, sep2]}
                        _do(part, case)
                        part.extra["three-block documents"] += 1
        if j == 0:
            part.sample(case)
    return part


# ------------------------------------------------------------------------------------------------

def replay(case):
    return exec_case(case)[0]


def repro_py(case):
    if "ladder" in case:
        return ("# the document is generated from the case description: see mc/props/c04.py ladder_doc()\n"
                "import sys\nsys.path.insert(0, '/verif')\nfrom mc.props import c04\n"
                "bad = c04.replay(%r)\nassert not bad, bad[0]\n" % (case,))
    if case.get("forms"):
        text = render(case)[0]
        exp = [[_expected(b)[a] for a in ATTRS] for b in case["blocks"]]
        return ("import io, warnings\nfrom debian.changelog import Changelog\n"
                "text = %r\nexpected = %r\nlines = text.split('\\n')[:-1]\n"
                "forms = {'str': lambda: text, 'bytes': lambda: text.encode('utf-8'),\n"
                "         'list of str lines with newlines': lambda: [l + '\\n' for l in lines],\n"
                "         'list of str lines without newlines': lambda: list(lines), 'tuple of str lines': lambda: tuple(lines),\n"
                "         'generator of str lines with newlines': lambda: (l + '\\n' for l in lines),\n"
                "         'io.StringIO': lambda: io.StringIO(text), 'io.BytesIO': lambda: io.BytesIO(text.encode('utf-8')),\n"
                "         'list of bytes lines with newlines': lambda: [(l + '\\n').encode('utf-8') for l in lines],\n"
                "         'generator of bytes lines without newlines': lambda: (l.encode('utf-8') for l in lines)}\n"
                "for name, mk in forms.items():\n"
                "    with warnings.catch_warnings(record=True) as w:\n"
                "        warnings.simplefilter('always')\n"
                "        c = Changelog(mk(), strict=True)\n"
                "    assert not w, (name, [str(x.message) for x in w])\n"
                "    assert str(c) == text, (name, str(c))\n"
                "    assert len(c) == len(expected), (name, len(c))\n"
                "    for b, e in zip(c, expected):\n"
                "        got = [b.package, str(b.version), b.distributions, b.urgency, b.urgency_comment, dict(b.other_pairs),\n"
                "               list(b.changes()), b.author, b.date]\n"
                "        assert got == e, (name, got, e)\n" % (text, exp))
    docs = case["session"] if "session" in case else [case]
    texts = [render(d)[0] for d in docs]
    exp = [[[_expected(b)[a] for a in ATTRS] for b in d["blocks"]] for d in docs]
    return ("import warnings\nfrom debian.changelog import Changelog\n"
            "texts = %r\nexpected = %r\n"
            "for text, exp in zip(texts, expected):   # one Changelog object per text, in this order\n"
            "    with warnings.catch_warnings(record=True) as w:\n"
            "        warnings.simplefilter('always')\n"
            "        c = Changelog(text, strict=True)\n"
            "    assert not w, [str(x.message) for x in w]\n"
            "    assert str(c) == text, str(c)\n"
            "    assert len(c) == len(exp), len(c)\n"
            "    for b, e in zip(c, exp):\n"
            "        got = [b.package, str(b.version), b.distributions, b.urgency, b.urgency_comment, dict(b.other_pairs),\n"
            "               list(b.changes()), b.author, b.date]\n"
            "        assert got == e, (got, e)\n" % (texts, exp))
