"""C01 - the format-preserving (repro) deb822 parser is lossless.

Engine B.  Two input spaces, both walked exhaustively to the stated length:
  (a) "shapes": sequences of line shapes (one shape per tokenizer / _build_* branch), each sequence in the three
      termination modes of the statement: every line "\\n"-terminated; every line but the last; no line
      terminated (two or more lines; the dump must then be the lines each followed by "\\n");
  (b) "chars": all strings over {letter, ':', ' ', '#', "\\n", "\\t"} cut into lines at "\\n" only (never with
      str.splitlines, which also cuts at \\x0c, \\x85, ...).
Oracle (nothing else): tokenize_deb822_file(lines) and parse_deb822_file(lines, accept_files_with_error_tokens=True,
accept_files_with_duplicated_fields=True) do not raise, the token texts concatenate to the expected text and
.dump() returns the expected text.
"""
import io
import itertools
import os
import re
import tempfile

from .. import core
from . import _doc

ID = "C01"
LEVEL = "model_checking"
RULE = ("Engine B walk of two input tries.  shapes: a state is a sequence of line shapes (trie node), a transition "
        "appends one shape, a trace is one (sequence, termination mode) document run through tokenizer and parser; "
        "chars: a state is a string over 6 character classes, a transition appends one character, a trace is the "
        "string cut at \\n and run through tokenizer and parser.  evaluations = text equalities evaluated (token "
        "concatenation, dump).  A document is non-trivial when it has two or more lines of at least two different "
        "line classes (blank / whitespace-only / comment / indented / with colon / other), i.e. an adjacency of "
        "classes is exercised.  sweep: a state is one (code point, template) document, a transition puts the code point "
        "into the template, a trace is that document in one termination mode (counted apart from shapes / chars, with "
        "which a few sweep documents coincide).  routes: a state is one document of the short shape / character spaces, a trace "
        "is that document taken through every other documented kind of input, flag combination and way of writing it out (one "
        "evaluation per document).  ladder: a state is one generated document (a count or a length varied in an otherwise "
        "plain document), a trace is that document through tokenizer and parser (and, where stated, the routes).  Outcome classes = sequence of top-level parts of the parsed file (P paragraph, "
        "W whitespace, C comment, E error) or the exception class; extra = adjacent token-kind pairs seen.")
BUDGET = {"quick": 240, "thorough": 3000}

MODES = ("nl", "open-last", "no-nl")

# index of the shapes that form the 12-shape core (used one line deeper than the full alphabet)
CORE_IDX = (0, 1, 3, 4, 6, 8, 9, 11, 16, 19, 21, 26)


def shapes(seed):
    """Line shapes without their terminator; Sigma_1 of DESIGN.md plus one (the last, see assumptions())."""
    A = core.rep(seed, ["A", "Q", "X", "Z"])          # field-name letter (upper case: 'a: B' is its case variant)
    B = core.rep(seed, ["B", "R", "Y", "M"])          # a second field name
    b = core.rep(seed, ["b", "v", "7", "+"])          # value character
    c = core.rep(seed, ["c", "w", "3", "~"])          # comment / continuation character
    e = core.rep(seed, ["é", "ß", "λ", "中"])   # non-ASCII, non-whitespace
    f = core.rep(seed, ["\x0c", "\x0b", "\x1f", "\x85"])           # matches \s, is neither space nor tab nor \n
    return [
        "", " ", "\t", f,                                           # 0-3   blank, whitespace-only
        "#" + c, "#",                                                # 4-5   comments
        A + ": " + b, A + ":" + b, A + ":", A + ": ", A + ":\t" + b + " \t", A.lower() + ": " + B,   # 6-11 fields
        B + ": #x", B + ":: y", A + ": " + e, A + ": " + b + "\r",  # 12-15 fields with odd values
        " " + c, "\t" + c, " .", " #n", " k: v",                    # 16-20 continuation-looking
        "junk", ": x", "-x: y", e + ": x", A + " " + b + ": " + c,  # 21-25 invalid
        " " + c + " \t",                                            # 26    continuation with trailing whitespace
    ]


def alphabet(seed):
    return [core.rep(seed, ["A", "q", "Z", "b"]), ":", " ", "#", "\n", "\t"]


def _depths(tier):
    # (full alphabet max length, core alphabet extra length, character level max length)
    return {"quick": (3, 4, 6), "thorough": (4, 5, 8)}[tier]


def bounds(tier):
    n, nc, m = _depths(tier)
    return dict(_bounds(tier), routes=_routes_bounds(tier), ladders=_ladder_bounds(tier), recovery="every shape sequence of length <= 2 (terminated / open last line) parsed right after each of %d aborted parses (mixed termination, undecodable bytes, failing iterator, strict-mode rejections)" % len(aborts()))


def _ladder_bounds(tier):
    ds = ladder_descs(tier)
    return {"count_ladder_lines": "runs of n lines of one kind (%s) after / between / before ordinary lines (position first, "
                                  "middle, last; n > 40 in the quick tier: one position in rotation), every termination mode, "
                                  "n in 1..40, %s: %d documents (signatures ladder/<kind>/...)"
                                  % (", ".join(LINE_RUNS), sorted({d["n"] for d in ds["lines"] if d["n"] > 40}), len(ds["lines"])),
            "count_ladder_chars": "one line with a run of n characters (%s), n in 1..40, %s: %d documents "
                                  "(signatures ladder-chars/<kind>/...)"
                                  % (", ".join(CHAR_RUNS), sorted({d["n"] for d in ds["chars"] if d["n"] > 40}), len(ds["chars"])),
            "size_ladder": "one line of L characters (+ its prefix) as %s, L in %s, content %s placed just before / at / across "
                           "every multiple of 4096 (256 below 4097), in the middle and at the end of a document, termination mode "
                           "in rotation: %d documents (signatures size/<kind>/<content>/...)"
                           % (", ".join(SIZE_KINDS), sorted({d["n"] for d in ds["size"]}), ", ".join(SIZE_CONTENTS), len(ds["size"])),
            "ladder_routes": "every size document, and the count documents with n in %s (middle position; above 129 in the quick "
                             "tier the kinds blank, field, cont, paragraph), are also taken through every other kind of "
                             "input (byte lines, file objects, real files ...), flag combination and way of writing out"
                             % (ROUTE_NS,)}


def _route_depths(tier):
    # (full shape alphabet max length, core alphabet length, character level max length) of the routes pass
    return {"quick": (2, 3, 4), "thorough": (3, 4, 6)}[tier]


def _routes_bounds(tier):
    n, nc, m = _route_depths(tier)
    return ("the other ways in and out, each against the same expected text: input as %s; flag combinations other than the "
            "accepting mode (may refuse with ValueError exactly when the accepting parse shows an error element / a paragraph "
            "with a repeated field, otherwise lossless); output through %s; a second dump, a dump after every field has been "
            "read in every way, two documents tokenized in lock-step; on all shape sequences of length <= %d and character "
            "strings of length <= %d, every termination mode the input kind can express; everything but the input kinds also "
            "on the core sequences of length %d"
            % (", ".join(INPUT_KINDS), ", ".join(OUTPUT_ROUTES), n, m, nc))


def _bounds(tier):
    n, nc, m = _depths(tier)
    return {"shapes": "all sequences of length 1..%d over %d line shapes, plus length %d over the %d-shape core"
                      % (n, len(shapes(0)), nc, len(CORE_IDX)),
            "termination_modes": ["every line ends in \\n", "every line but the last (last line non-empty)",
                                  "no line (2+ lines)"],
            "chars": "all strings of length 0..%d over {letter, ':', ' ', '#', '\\n', '\\t'}, cut at \\n" % m,
            "shape_alphabet": shapes(0), "core_shapes": [shapes(0)[i] for i in CORE_IDX],
            "sweep": "one foreign character at a time: each of the %d code points of sweep_code_points() (U+0000..U+024F "
                     "without \\n, every other Unicode white space / line separator, other decimal digits, look-alikes, "
                     "astral and private-use samples) as c in the %d documents %r, every termination mode"
                     % (len(sweep_code_points()), len(SWEEP_TEMPLATES), [[l.replace("%", "<c>") for l in t] for t in SWEEP_TEMPLATES])}


def assumptions():
    return [
        "domain: an empty unterminated line ('' as the last or only line) is not a line; mixed termination is outside "
        "the quantifier (DESIGN.md C01 Domain)",
        "shape alphabet = the 26 shapes of DESIGN.md plus ' c \\t' (continuation line with trailing whitespace): "
        "no DESIGN shape puts whitespace at the end of a continuation line, so the continuation branch's "
        "line[1:-1] slicing was only reached with trailing whitespace at character level, length 7",
        "the seed rotates letters, the non-ASCII character and the non-space \\s character; shapes are the same",
        "characters outside the representatives are explored one at a time only (the sweep): a single foreign code point "
        "in otherwise plain one- and two-line documents, never two foreign characters together nor one inside the longer "
        "shape sequences",
        "sweep: the only code point left out is \\n (the statement: no newline inside a line); \\r, \\x0b, \\x0c, "
        "\\x1c-\\x1e, \\x85, U+2028 and U+2029 are ordinary text here - lines are given to the parser as a list and the "
        "module never cuts with str.splitlines",
        "routes: file objects cut their content into lines themselves, so they are given documents in which every line "
        "but possibly the last is terminated; a text-mode file object (newline='') also cuts at \\r, so documents containing "
        "\\r are not given to it",
        "routes: with accept_files_with_error_tokens / accept_files_with_duplicated_fields left at False the parser may "
        "refuse (ValueError) exactly the documents in which the accepting parse shows an error element / a paragraph with "
        "a repeated field name (the parameters' documentation); whatever it returns must dump to the input",
        "routes: reading fields between parse and dump may raise on odd documents (not judged here); only the dump "
        "afterwards is",
        "routes: copy.copy / copy.deepcopy / pickle of a parsed file are not documented and not driven",
        "ladders: documents beyond the small scope vary ONE thing (a count or a length) in an otherwise plain document; the "
        "counts stop at 1001 lines in the quick tier (5000 thorough; 5000 characters in a run), lengths at 65537 characters "
        "(262145 and 2 x / 3 x 65536 thorough); the file-object routes cut lines themselves, so a lone CR inside a long line is "
        "not given to a text-mode file object (as in the routes pass)",
    ]


# ------------------------------------------------------------------------------------------------ sweep

# '%' marks where the swept character goes; one document per template
SWEEP_TEMPLATES = [["%"], ["A%: b"], ["A: %"], ["A: b%"], ["%A: b"], [" %"], ["#%"], ["A: b", "%"], ["A: b", " %"]]
SWEEP_CHUNK = 48


def sweep_code_points():
    cps = [cp for cp in range(0, 0x250) if cp != 0x0A]
    # every other character str.isspace() / \\s knows, and the other two str.splitlines separators
    cps += [0x1680] + list(range(0x2000, 0x200B)) + [0x2028, 0x2029, 0x202F, 0x205F, 0x3000]
    for base in (0x660, 0x966, 0xFF10):                               # other decimal digits
        cps += [base, base + 9]
    cps += [0x391, 0x410, 0x4E2D, 0xFF21, 0xFF1A, 0xFF03, 0x200B, 0x200D, 0xFEFF, 0xE000, 0xFFFD, 0xFFFF, 0x1D7CE, 0x1F600, 0x10FFFF]
    return cps


def sweep_docs(cp):
    """-> the documents (lists of line bodies, no terminators) for one code point, without repetitions"""
    c = chr(cp)
    out = []
    for t in SWEEP_TEMPLATES:
        d = [l.replace("%", c) for l in t]
        if d not in out:
            out.append(d)
    return out


def sweep_bytes(lines):
    """differential: parse + dump and the token texts of the lines given as UTF-8 bytes equal those of the str lines"""
    from debian._deb822_repro.parsing import parse_deb822_file
    from debian._deb822_repro.tokens import tokenize_deb822_file
    acc = dict(accept_files_with_error_tokens=True, accept_files_with_duplicated_fields=True)

    def both(src):
        out = []
        for f in (lambda x: parse_deb822_file(x, **acc).dump(), lambda x: "".join(t.text for t in tokenize_deb822_file(x))):
            try:
                out.append(("ok", f(list(src))))
            except Exception as e:
                out.append(("raises", type(e).__name__))
        return out
    a = both(lines)
    b = both([l.encode("utf-8") for l in lines])
    if a != b:
        return [("via-bytes-list/sweep/differs-from-str-lines", a, b)]
    return []


def unit_sweep(part, lo, hi):
    cps = sweep_code_points()[lo:hi]
    for cp in cps:
        for seq in sweep_docs(cp):
            part.states += 1
            part.transitions += 1
            for mode in MODES:
                if mode == "no-nl" and len(seq) < 2:
                    continue            # a single unterminated line is the open-last case
                lines = lines_for(seq, mode)
                case = {"space": "sweep", "mode": mode, "lines": lines}
                part.traces += 1
                if _nontrivial(lines):
                    part.nontrivial += 1
                for sig, exp, obs in execute(lines, part):
                    part.violation(sig, case, exp, obs, rank=100)
                if cp >= 0x80:
                    # the same lines as UTF-8 bytes: every line is decoded on its own and must give the same document
                    for sig, exp, obs in sweep_bytes(lines):
                        part.violation(sig, dict(case, bytes=True), exp, obs, rank=101)
                    part.traces += 1
    part.max_depth = 2
    part.sample({"space": "sweep", "mode": "nl", "lines": lines_for(sweep_docs(cps[0])[1], "nl")})
    return part


# ------------------------------------------------------------------------------------------------ one case

def lines_for(seq, mode):
    if mode == "nl":
        return [s + "\n" for s in seq]
    if mode == "open-last":
        return [s + "\n" for s in seq[:-1]] + [seq[-1]]
    return list(seq)


def in_domain(lines):
    """The quantifier of the statement: all terminated but possibly the last, or (2+ lines) none terminated."""
    if any("\n" in l[:-1] for l in lines):
        return False
    term = [l.endswith("\n") for l in lines]
    if len(lines) >= 2 and not any(term):
        return True
    if not all(term[:-1]):
        return False
    return not lines or lines[-1] != ""


def mode_of(lines):
    term = [l.endswith("\n") for l in lines]
    if all(term):
        return "nl"
    if len(lines) >= 2 and not any(term):
        return "no-nl"
    return "open-last"


def expected_text(lines):
    if mode_of(lines) == "no-nl":
        return "".join(l + "\n" for l in lines)
    return "".join(lines)


_SLUG = re.compile(r"[^a-z]+")


def _exc_sig(e):
    words = _SLUG.sub(" ", str(e).lower()).split()[:9]
    return "%s/%s" % (type(e).__name__, "-".join(words) or "no-message")


def _diff_kind(exp, got):
    if not isinstance(got, str):
        return "not-a-string"
    if len(got) < len(exp):
        return "text-lost"
    if len(got) > len(exp):
        return "text-added"
    return "text-changed"


_KIND = {}


def _kind(tok):
    c = type(tok)
    k = _KIND.get(c)
    if k is None:
        k = _KIND[c] = c.__name__.replace("Deb822", "").replace("Token", "")
    return k


def execute(lines, part=None):
    """Run one document through the implementation.  -> list of (sig, expected, observed)."""
    from debian._deb822_repro.parsing import parse_deb822_file, Deb822ParagraphElement, Deb822ErrorElement, \
        Deb822CommentElement
    from debian._deb822_repro.tokens import tokenize_deb822_file
    exp = expected_text(lines)
    mode = mode_of(lines)
    bad = []
    tok_exc = None
    try:
        toks = list(tokenize_deb822_file(list(lines)))
        tk = "".join(t.text for t in toks)
    except Exception as e:  # the statement says: succeeds
        tok_exc = _exc_sig(e)
        bad.append(("tokenize/raises/%s/%s" % (tok_exc, mode), "token texts concatenate to %r" % exp,
                    "%s: %s" % (type(e).__name__, e)))
        toks = None
    else:
        if tk != exp:
            bad.append(("tokenize/%s/%s" % (_diff_kind(exp, tk), mode), exp, tk))
    try:
        f = parse_deb822_file(list(lines), accept_files_with_error_tokens=True,
                              accept_files_with_duplicated_fields=True)
        d = f.dump()
    except Exception as e:
        s = _exc_sig(e)
        # the parser consumes the tokenizer: the same exception is the same failure, reported once
        if s != tok_exc:
            bad.append(("parse/raises/%s/%s" % (s, mode), "dump() == %r" % exp, "%s: %s" % (type(e).__name__, e)))
        f = None
    else:
        if tok_exc is not None:
            bad.append(("parse/succeeds-but-tokenize-raises/%s" % mode, "both succeed", "tokenize: " + tok_exc))
        if d != exp:
            bad.append(("parse/dump-%s/%s" % (_diff_kind(exp, d), mode), exp, d))
    # the same lines supplied as a one-shot iterator and as a generator (documented input: any iterable of lines)
    for kind, mk in (("iterator", lambda: iter(list(lines))), ("generator", lambda: (l for l in list(lines)))):
        try:
            tk2 = "".join(t.text for t in tokenize_deb822_file(mk()))
            d2 = parse_deb822_file(mk(), accept_files_with_error_tokens=True,
                                   accept_files_with_duplicated_fields=True).dump()
        except Exception as e:
            if not bad:
                bad.append(("one-shot-%s/raises/%s/%s" % (kind, _exc_sig(e), mode), "same as for a list",
                            "%s: %s" % (type(e).__name__, e)))
            continue
        if not bad and (tk2 != exp or d2 != exp):
            bad.append(("one-shot-%s/%s/%s" % (kind, _diff_kind(exp, d2 if d2 != exp else tk2), mode), exp,
                        d2 if d2 != exp else tk2))
    if part is not None:
        part.evaluations += 2
        if f is None:
            part.outcomes["raises:" + (bad[-1][0].split("/")[2] if bad else "?")] += 1
        else:
            cls = []
            for p in f.iter_parts():
                if isinstance(p, Deb822ParagraphElement):
                    cls.append("P")
                elif isinstance(p, Deb822ErrorElement):
                    cls.append("E")
                elif isinstance(p, Deb822CommentElement):
                    cls.append("C")
                else:
                    cls.append("W" if getattr(p, "is_whitespace", False) else "<%s>" % _kind(p))
            part.outcomes["".join(cls) or "empty"] += 1
        if toks is not None:
            prev = "^"
            for t in toks:
                k = _kind(t)
                part.extra["tok2:%s>%s" % (prev, k)] += 1
                prev = k
            part.extra["tok2:%s>$" % prev] += 1
    return bad


# ------------------------------------------------------------------------------------------------ routes

INPUT_KINDS = ("tuple", "bytes-list", "bytes-generator", "binary file object", "text file object", "real binary file",
               "real text file", "collections.deque")
OUTPUT_ROUTES = ("dump(fd)", "convert_to_text()", "iter_tokens()", "iter_parts()", "iter_recurse() tokens",
                 "per-part dump()/convert_to_text()")
OTHER_DOC = ["B: x\n", " y\n", "\n", "#c\n", "junk\n", "A:\n"]


def _inputs(lines, scratch):
    """(kind, factory) for every other documented way of handing the same lines to the library"""
    import collections
    text = "".join(lines)
    out = [("tuple", lambda: tuple(lines)), ("deque", lambda: collections.deque(lines))]
    try:
        blines = [l.encode("utf-8") for l in lines]
    except UnicodeEncodeError:
        return out
    out += [("bytes-list", lambda: list(blines)), ("bytes-generator", lambda: (b for b in blines))]
    if mode_of(lines) != "no-nl" and lines:
        data = text.encode("utf-8")
        out.append(("binary-file-object", lambda: io.BytesIO(data)))

        def real_binary():
            with open(os.path.join(scratch, "doc"), "wb") as fd:
                fd.write(data)
            return open(os.path.join(scratch, "doc"), "rb")
        out.append(("real-binary-file", real_binary))
        if "\r" not in text:
            out.append(("text-file-object", lambda: io.StringIO(text, newline="")))

            def real_text():
                with open(os.path.join(scratch, "doc"), "wb") as fd:
                    fd.write(data)
                return open(os.path.join(scratch, "doc"), "r", encoding="utf-8", newline="")
            out.append(("real-text-file", real_text))
    return out


def _read_everything(f):
    """every read-only way of looking at a parsed file; what it returns or raises is not judged here"""
    from debian._deb822_repro import LIST_SPACE_SEPARATED_INTERPRETATION as WS
    for probe in (lambda: f.is_valid_file, f.find_first_error_element, lambda: len(list(f))):
        try:
            probe()
        except Exception:
            pass
    for p in f:
        views = [p, p.configured_view(discard_comments_on_read=False, auto_map_initial_line_whitespace=False,
                                      auto_map_final_newline_in_multiline_values=False), p.as_interpreted_dict_view(WS)]
        for v in views:
            try:
                for k in list(v.keys()):
                    x = v[k]
                    if v is views[2]:
                        list(x)
                v.get("zz-absent")
                len(v)
                "a" in v
            except Exception:
                pass
        try:
            for kv in p.iter_parts():
                kv.field_name
                kv.value_element.convert_to_text()
                kv.comment_element and kv.comment_element.convert_to_text()
            p.has_duplicate_fields
            p.dump()
        except Exception:
            pass


def execute_routes(lines, scratch, inputs=True):
    """the same document through the other entry points (unless inputs=False) and exits.
    -> list of (sig, expected, observed)"""
    from debian._deb822_repro.parsing import parse_deb822_file, Deb822ParagraphElement, Deb822DuplicateFieldsParagraphElement
    from debian._deb822_repro.tokens import tokenize_deb822_file, Deb822Token
    exp = expected_text(lines)
    mode = mode_of(lines)
    bad = []
    acc = dict(accept_files_with_error_tokens=True, accept_files_with_duplicated_fields=True)

    def note(sig, want, got):
        bad.append(("via-%s/%s" % (sig, mode), want, got))

    # --- input kinds
    for kind, mk in (_inputs(lines, scratch) if inputs else ()):
        for what in ("tokenize", "parse"):
            src = mk()
            try:
                if what == "tokenize":
                    got = "".join(t.text for t in tokenize_deb822_file(src))
                else:
                    got = parse_deb822_file(src, **acc).dump()
            except Exception as e:
                note("%s/%s/raises/%s" % (kind, what, _exc_sig(e)), exp, "%s: %s" % (type(e).__name__, e))
                continue
            finally:
                if hasattr(src, "close"):
                    src.close()
            if got != exp:
                note("%s/%s/%s" % (kind, what, _diff_kind(exp, got)), exp, got)
    # --- the reference parse, then every way out of it
    try:
        f = parse_deb822_file(list(lines), **acc)
        d = f.dump()
    except Exception:
        return bad          # (reported by the main walk)
    if d != exp:
        return bad
    outs = []
    try:
        b = io.BytesIO()
        f.dump(b)
        outs.append(("dump-fd", b.getvalue(), exp.encode("utf-8")))
        outs.append(("convert-to-text", f.convert_to_text(), exp))
        outs.append(("iter-tokens", "".join(t.text for t in f.iter_tokens()), exp))
        outs.append(("iter-parts", "".join(x.convert_to_text() for x in f.iter_parts()), exp))
        outs.append(("iter-recurse", "".join(t.text for t in f.iter_recurse(only_element_or_token_type=Deb822Token)), exp))
        pieces = []
        for x in f.iter_parts():
            if isinstance(x, Deb822ParagraphElement):
                pb = io.BytesIO()
                x.dump(pb)
                if pb.getvalue().decode("utf-8") != x.dump():
                    outs.append(("paragraph-dump-fd", pb.getvalue().decode("utf-8"), x.dump()))
                pieces.append(x.dump())
            else:
                pieces.append(x.convert_to_text())
        outs.append(("part-dumps", "".join(pieces), exp))
        outs.append(("second-dump", f.dump(), exp))
        _read_everything(f)
        outs.append(("dump-after-reading", f.dump(), exp))
    except Exception as e:
        note("output/raises/%s" % _exc_sig(e), exp, "%s: %s" % (type(e).__name__, e))
    for name, got, want in outs:
        if got != want:
            note("%s/%s" % (name, _diff_kind(want, got) if isinstance(got, str) else "bytes-differ"), want, got)
    # --- the other flag combinations
    has_error = f.find_first_error_element() is not None
    has_dup = any(isinstance(p, Deb822DuplicateFieldsParagraphElement) and
                  len({str(k).lower() for k in p.keys()}) < len(list(p.keys())) for p in f)
    for e_flag, d_flag in ((False, False), (True, False), (False, True)):
        name = "flags-errors-%s-duplicates-%s" % ("ok" if e_flag else "refused", "ok" if d_flag else "refused")
        may_refuse = (has_error and not e_flag) or (has_dup and not d_flag)
        try:
            got = parse_deb822_file(list(lines), accept_files_with_error_tokens=e_flag,
                                    accept_files_with_duplicated_fields=d_flag).dump()
        except ValueError as e:
            if not may_refuse:
                note(name + "/refuses-a-clean-document", exp, "ValueError: %s" % e)
            continue
        except Exception as e:
            note("%s/raises/%s" % (name, _exc_sig(e)), exp, "%s: %s" % (type(e).__name__, e))
            continue
        if got != exp:
            note("%s/%s" % (name, _diff_kind(exp, got)), exp, got)
        elif may_refuse:
            note(name + "/accepts-what-it-should-refuse", "ValueError", got)
    # --- two documents tokenized in lock-step (every token stream is a generator with its own state)
    try:
        a, b = tokenize_deb822_file(list(lines)), tokenize_deb822_file(list(OTHER_DOC))
        ta, tb = [], []
        for x, y in itertools.zip_longest(a, b):
            if x is not None:
                ta.append(x.text)
            if y is not None:
                tb.append(y.text)
        if "".join(ta) != exp or "".join(tb) != "".join(OTHER_DOC):
            note("lock-step-tokenizers/" + _diff_kind(exp, "".join(ta)), (exp, "".join(OTHER_DOC)), ("".join(ta), "".join(tb)))
    except Exception as e:
        note("lock-step-tokenizers/raises/%s" % _exc_sig(e), exp, "%s: %s" % (type(e).__name__, e))
    return bad


def _route_docs(which, L, pre, seed):
    if which == "chars":
        al = alphabet(seed)
        for rest in itertools.product(al, repeat=L):
            yield cut("".join(rest))
        return
    sh = shapes(seed)
    idx = list(range(len(sh))) if which == "full" else list(CORE_IDX)
    head = [] if pre is None else [idx[pre]]
    for rest in itertools.product(idx, repeat=L - len(head)):
        seq = [sh[i] for i in head + list(rest)]
        for mode in MODES:
            if mode == "open-last" and seq[-1] == "":
                continue            # domain: an empty unterminated line is not a line
            if mode == "no-nl" and L < 2:
                continue            # a single unterminated line is the open-last case
            yield lines_for(seq, mode)


def unit_routes(part, which, L, pre, tier, seed):
    import shutil
    scratch = tempfile.mkdtemp(prefix="c01-routes-")
    try:
        for lines in _route_docs(which, L, pre, seed):
            part.states += 1
            part.transitions += 1
            part.traces += 1
            part.evaluations += 1
            if _nontrivial(lines):
                part.nontrivial += 1
            # the kinds of input differ in how a line reaches the tokenizer, not in how lines combine: they are driven on
            # the full-alphabet and character-level documents; the longer core sequences are for the ways out
            inputs = which != "core"
            bad = execute_routes(lines, scratch, inputs)
            part.outcomes["routes/" + ("violation" if bad else mode_of(lines))] += 1
            for sig, exp, obs in bad:
                part.violation(sig, {"space": "routes", "mode": mode_of(lines), "lines": lines, "inputs": inputs}, exp, obs,
                               rank=len(lines))
        part.sample({"space": "routes", "mode": "nl", "lines": ["A: b\n", " c\n"]})
    finally:
        shutil.rmtree(scratch, ignore_errors=True)
    part.max_depth = L
    return part


def _line_class(body):
    if body == "":
        return 0
    if body.isspace():
        return 1
    if body[0] == "#":
        return 2
    if body[0] in " \t":
        return 3
    return 4 if ":" in body else 5


def _nontrivial(lines):
    return len(lines) >= 2 and len({_line_class(l[:-1] if l.endswith("\n") else l) for l in lines}) >= 2


def cut(s):
    """Cut a string into lines at "\\n" only (keeping the terminators)."""
    out = s.split("\n")
    last = out.pop()
    out = [l + "\n" for l in out]
    if last:
        out.append(last)
    return out


# ------------------------------------------------------------------------------------------------ units

# ---------------------------------------------------------------- recovery: a valid parse after an aborted one

def aborts():
    """inputs outside the statement's quantifier (or failing for environmental reasons) on which a parse may raise"""
    def failing_iter():
        yield "A: b\n"
        yield "# c\n"
        yield "C: d\n"
        raise IOError("read error injected by the harness")
    return [
        ("mixed-termination-1", lambda: ["# c\n", "A: b", "y\n"], {}),
        ("mixed-termination-2", lambda: ["A: b\n", "C: d\n", ""], {}),
        ("mixed-termination-3", lambda: ["junk\n", "A: b\n", " c\n", "B: c", "D: e\n"], {}),
        ("mixed-termination-4", lambda: ["A: b", "C: d\n"], {}),
        ("undecodable-bytes", lambda: [b"A: b\n", b"#c\n", b"B: \xff\xfe\n", b"C: d\n"], {}),
        ("iterator-raises", failing_iter, {}),
        ("strict-error-tokens", lambda: ["A: b\n", "junk\n", "C: d\n"], {"strict": True}),
        ("strict-duplicates", lambda: ["#c\n", "A: b\n", "A: c\n", "D: e\n"], {"strict": True}),
        ("empty-middle-line", lambda: ["A: b\n", "", "C: d\n"], {}),
    ]


def do_abort(i):
    """-> name of the exception class raised by the aborted parse (or 'no-exception')"""
    from debian._deb822_repro.parsing import parse_deb822_file
    from debian._deb822_repro.tokens import tokenize_deb822_file
    _name, mk, opts = aborts()[i]
    out = "no-exception"
    for fn in (lambda x: list(tokenize_deb822_file(x)),
               (lambda x: parse_deb822_file(x)) if opts.get("strict") else
               (lambda x: parse_deb822_file(x, accept_files_with_error_tokens=True,
                                            accept_files_with_duplicated_fields=True))):
        try:
            fn(mk())
        except Exception as e:
            out = type(e).__name__
    return out


def unit_recover(part, ai, seed):
    sh = shapes(seed)
    name = aborts()[ai][0]
    for L in (1, 2):
        for ix in itertools.product(range(len(sh)), repeat=L):
            seq = [sh[i] for i in ix]
            for mode in ("nl", "open-last"):
                if mode == "open-last" and seq[-1] == "":
                    continue
                lines = lines_for(seq, mode)
                case = {"space": "recover", "abort": ai, "mode": mode, "lines": lines}
                exc = do_abort(ai)
                part.states += 1
                part.transitions += 1
                part.traces += 1
                part.nontrivial += 1
                for sig, exp, obs in execute(lines, part):
                    part.violation("after-aborted-parse/" + sig, case, exp, obs, rank=L)
    part.outcomes["recover/%s/%s" % (name, exc)] += 1
    part.sample({"space": "recover", "abort": ai, "mode": "nl", "lines": lines_for([sh[6], sh[4]], "nl")})
    return part


def units(tier, seed):
    n, nc, m = _depths(tier)
    ns = len(shapes(seed))
    out = []
    for L in range(1, n + 1):
        plen = max(0, L - 2)
        for pre in itertools.product(range(ns), repeat=plen):
            out.append(("shapes", "full", L, pre))
    plen = max(0, nc - 3)
    for pre in itertools.product(range(len(CORE_IDX)), repeat=plen):
        out.append(("shapes", "core", nc, pre))
    for L in range(0, m + 1):
        plen = max(0, L - 5)
        for pre in itertools.product(range(6), repeat=plen):
            out.append(("chars", "", L, pre))
    ncp = len(sweep_code_points())
    for lo in range(0, ncp, SWEEP_CHUNK):
        out.append(("sweep", "", lo, min(lo + SWEEP_CHUNK, ncp)))
    for ai in range(len(aborts())):
        out.append(("recover", "", ai, ()))
    rn, rnc, rm = _route_depths(tier)
    for L in range(1, rn + 1):
        for pre in (range(ns) if L > 1 else [None]):
            out.append(("routes", "full", L, pre))
    for pre in range(len(CORE_IDX)):
        out.append(("routes", "core", rnc, pre))
    for L in range(0, rm + 1):
        out.append(("routes", "chars", L, None))
    out += scale_units(tier)
    return out


def unit_cost(u, tier):
    space, which, L, pre = u
    if space == "ladder":
        return 2000 + 40 * sum(d["n"] for d in pre) // (40 if which == "size" else 1)
    if space == "routes":
        return 40 * (6 ** L if which == "chars" else 3 * (len(shapes(0)) if which == "full" else len(CORE_IDX)) ** (L - (pre is not None and L > 1)))
    if space == "sweep":
        return (pre - L) * len(SWEEP_TEMPLATES) * 3 * 2
    if space == "recover":
        return 4000
    if space == "shapes":
        base = len(shapes(0)) if which == "full" else len(CORE_IDX)
        return 3 * L * base ** (L - len(pre))
    return L * 6 ** (L - len(pre)) / 3.0


def run_unit(u, tier, seed):
    part = core.Part()
    space, which, L, pre = u
    if space == "ladder":
        return unit_ladder(part, which, pre)
    if space == "sweep":
        return unit_sweep(part, L, pre)
    if space == "recover":
        return unit_recover(part, L, seed)
    if space == "routes":
        return unit_routes(part, which, L, pre, tier, seed)
    part.max_depth = L
    if space == "shapes":
        sh = shapes(seed)
        idx = list(range(len(sh))) if which == "full" else list(CORE_IDX)
        for rest in itertools.product(idx, repeat=L - len(pre)):
            ix = tuple(idx[i] for i in pre) + rest
            seq = [sh[i] for i in ix]
            part.states += 1
            part.transitions += 1
            for mode in MODES:
                if mode == "open-last" and seq[-1] == "":
                    continue            # domain: an empty unterminated line is not a line
                if mode == "no-nl" and L < 2:
                    continue            # a single unterminated line is the open-last case
                lines = lines_for(seq, mode)
                case = {"space": "shapes", "mode": mode, "lines": lines}
                part.traces += 1
                if _nontrivial(lines):
                    part.nontrivial += 1
                for sig, exp, obs in execute(lines, part):
                    part.violation(sig, case, exp, obs)
        part.sample({"space": "shapes", "mode": "nl", "lines": lines_for([sh[i] for i in ix], "nl")})
    else:
        al = alphabet(seed)
        head = "".join(al[i] for i in pre)
        for rest in itertools.product(al, repeat=L - len(pre)):
            s = head + "".join(rest)
            part.states += 1
            if L:
                part.transitions += 1
            lines = cut(s)
            case = {"space": "chars", "mode": mode_of(lines), "lines": lines}
            part.traces += 1
            if _nontrivial(lines):
                part.nontrivial += 1
            for sig, exp, obs in execute(lines, part):
                part.violation(sig, case, exp, obs)
        part.sample({"space": "chars", "mode": mode_of(lines), "lines": lines})
    return part


def replay(case):
    if case.get("space") == "ladder":
        return execute_ladder(case["desc"])
    lines = list(case["lines"])
    if case.get("bytes"):
        return sweep_bytes(lines)
    if not in_domain(lines):
        return []
    if case.get("space") == "recover":
        do_abort(case["abort"])
        return [("after-aborted-parse/" + b[0],) + tuple(b[1:]) for b in execute(lines)]
    if case.get("space") == "routes":
        scratch = tempfile.mkdtemp(prefix="c01-routes-")
        try:
            return execute_routes(lines, scratch, case.get("inputs", True))
        finally:
            import shutil
            shutil.rmtree(scratch, ignore_errors=True)
    return execute(lines)


def repro_py(case):
    if case.get("space") == "ladder":
        return ("# generated document: mc/props/c01.py ladder_lines(%r)\nimport sys\nsys.path.insert(0, '/verif')\n"
                "from mc.props import c01\nprint(c01.execute_ladder(%r))\n" % (case["desc"], case["desc"]))
    lines = list(case["lines"])
    note = ""
    if case.get("space") == "routes":
        note = ("# routes case: the signature names the entry point (input kind / flag combination) or the exit (dump(fd), "
                "convert_to_text(), ...)\n# that disagrees; mc/props/c01.py execute_routes() runs them all on these lines\n")
    return (note + "from debian._deb822_repro import parse_deb822_file\n"
            "from debian._deb822_repro.tokens import tokenize_deb822_file\n"
            "lines = %r\nexpected = %r\n"
            "assert ''.join(t.text for t in tokenize_deb822_file(list(lines))) == expected\n"
            "f = parse_deb822_file(list(lines), accept_files_with_error_tokens=True, "
            "accept_files_with_duplicated_fields=True)\n"
            "assert f.dump() == expected\n" % (lines, expected_text(lines)))


# ------------------------------------------------------------------------------------------------ beyond the small scope

LINE_RUNS = ("blank", "ws", "ws-mixed", "comment", "field", "dup-field", "cont", "junk", "paragraph", "blank-ws",
             "field-comment", "cont-comment", "mixed")
CHAR_RUNS = ("space-after-colon", "space-after-colon-empty", "trailing-space", "trailing-tab", "cont-leading",
             "cont-trailing", "ws-only", "tabs-only", "colons", "hashes", "name", "inner-spaces", "comment-spaces")
SIZE_KINDS = ("value", "value-padded", "comment", "cont", "bare", "ws", "name")
SIZE_CONTENTS = ("plain", "blank", "colon", "multibyte", "hash", "tab", "cr", "straddle")


# counts at which a document is also taken through the other kinds of input / flags / ways of writing it out
ROUTE_NS = (5, 9, 17, 25, 33, 65, 129, 257, 1001, 2501)


def _line_run(kind, n):
    """-> (lines that must precede the run, the run: n elements of the kind)"""
    r = range(1, n + 1)
    if kind == "blank":
        return [], [""] * n
    if kind == "ws":
        return [], [" "] * n
    if kind == "ws-mixed":
        return [], [(" ", "\t", "  \t")[i % 3] for i in r]
    if kind == "comment":
        return [], ["#c %d" % i for i in r]
    if kind == "field":
        return [], ["K%d: v%d" % (i, i) for i in r]
    if kind == "dup-field":
        return [], ["A: v%d" % i for i in r]
    if kind == "cont":
        return ["L: first"], [" line %d" % i for i in r]
    if kind == "junk":
        return [], ["junk %d" % i for i in r]
    if kind == "paragraph":
        out = []
        for i in r:
            out += ["P: %d" % i, ""]
        return [], out[:-1]
    if kind == "blank-ws":
        return [], ["" if i % 2 else " " for i in r]
    if kind == "field-comment":
        return [], ["#c %d" % i if i % 2 else "K%d: v" % i for i in r]
    if kind == "cont-comment":
        return ["L: first"], [" line %d" % i if i % 2 else "#in %d" % i for i in r]
    if kind == "mixed":
        cyc = ["", "#c", "K%d: v", " cont", " ", "junk", "K%d:", "\tcont \t"]
        return [], [cyc[i % len(cyc)] % i if "%d" in cyc[i % len(cyc)] else cyc[i % len(cyc)] for i in r]
    raise AssertionError(kind)


def _char_run(kind, n):
    """-> (lines that must precede it, one line with n repetitions of a character)"""
    sp = " " * n
    return {"space-after-colon": ([], "A:" + sp + "b"), "space-after-colon-empty": ([], "A:" + sp),
            "trailing-space": ([], "A: b" + sp), "trailing-tab": ([], "A: b" + "\t" * n),
            "cont-leading": (["L: first"], sp + "c"), "cont-trailing": (["L: first"], " c" + sp),
            "ws-only": ([], sp), "tabs-only": ([], "\t" * n), "colons": ([], "A" + ":" * n + " b"),
            "hashes": ([], "#" * n + "c"), "name": ([], "N" * n + ": b"), "inner-spaces": ([], "A: b" + sp + "c"),
            "comment-spaces": ([], "#" + sp)}[kind]


def ladder_lines(desc):
    """compact description -> the lines of the document.  {"fam": "lines" | "chars" | "size", "kind": ..., "n": count or
    length, "pos": "first" | "mid" | "last", "mode": one of MODES, "content": (size) what sits at the block boundaries}"""
    fam, kind, n, pos = desc["fam"], desc["kind"], desc["n"], desc.get("pos", "mid")
    if fam == "lines":
        head, run = _line_run(kind, n)
    elif fam == "chars":
        head, line = _char_run(kind, n)
        run = [line]
    else:
        content = desc.get("content", "plain")
        head = []
        if kind == "ws":
            run = [(" " if content != "tab" else "\t") * n]
        else:
            pre = {"value": "A: ", "value-padded": "A:\t ", "comment": "#", "cont": " ", "bare": "", "name": ""}[kind]
            if kind == "cont":
                head = ["L: first"]
            # (straddle: the two-byte characters sit across the 4096-byte block boundaries of the file when the line comes first)
            t = _doc.sized_text(n, content, lead=len(pre) + (len("L: first\n") if kind == "cont" else 0))
            run = [pre + t + {"value-padded": " \t", "name": ": v"}.get(kind, "")]
    if pos == "first":
        seq = head + run + ["B: c", " d"]
    elif pos == "mid":
        seq = ["A: b"] + head + run + ["B: c"]
    else:
        seq = ["A: b"] + head + run
    return lines_for(seq, desc["mode"])


def execute_ladder(desc, part=None):
    lines = ladder_lines(desc)
    if not in_domain(lines):
        return []
    bad = execute(lines, part)
    if desc.get("routes") and not bad:
        scratch = tempfile.mkdtemp(prefix="c01-ladder-")
        try:
            bad = execute_routes(lines, scratch, True)
        finally:
            import shutil
            shutil.rmtree(scratch, ignore_errors=True)
    return [("%s/%s/%s" % ({"lines": "ladder", "chars": "ladder-chars", "size": "size"}[desc["fam"]], desc["kind"] +
                           ("/" + desc["content"] if desc["fam"] == "size" else ""), sig), exp, obs) for sig, exp, obs in bad]


def _short(x):
    return x if not isinstance(x, str) or len(x) < 400 else x[:180] + " ...(%d characters)... " % len(x) + x[-180:]


def ladder_descs(tier):
    """-> {"lines": [...], "chars": [...], "size": [...]} in canonical (smallest first) order"""
    NS = _doc.LADDER_NS
    out = {"lines": [], "chars": [], "size": []}
    line_ns = NS["small"] + NS["mid"] + ([1000, 1001] if tier == "quick" else NS["big"] + NS["huge"])
    for n in line_ns:
        for kind in LINE_RUNS:
            for pi, pos in enumerate(("mid", "last", "first")):
                if n > 40 and pos != ("mid", "last", "first")[n % 3] and tier == "quick":
                    continue
                for mode in MODES:
                    out["lines"].append({"fam": "lines", "kind": kind, "n": n, "pos": pos, "mode": mode,
                                         "routes": n in ROUTE_NS and (pos == "mid" or n > 40) and
                                         (n <= 129 or tier != "quick" or kind in ("blank", "field", "cont", "paragraph"))})
    for n in NS["small"] + NS["mid"] + NS["big"] + NS["huge"]:
        for kind in CHAR_RUNS:
            for pos in ("mid", "last", "first"):
                if n > 40 and pos == "first":
                    continue
                for mode in MODES:
                    out["chars"].append({"fam": "chars", "kind": kind, "n": n, "pos": pos, "mode": mode,
                                         "routes": n in ROUTE_NS and pos == "mid"})
    for L in _doc.SIZE_LS + [2 * 65536, 3 * 65536]:
        if tier == "quick" and L > 65537:
            continue
        for kind in SIZE_KINDS:
            for ci, content in enumerate(SIZE_CONTENTS):
                if kind == "ws" and content not in ("plain", "tab"):
                    continue
                if kind == "name" and content not in ("plain", "multibyte", "hash"):
                    continue
                if content == "straddle" and (kind == "name" or L < 4095):
                    continue
                for pi, pos in enumerate(("mid", "last", "first")):
                    if pos == "first" and content not in ("plain", "straddle", "cr"):
                        continue
                    mode = MODES[(ci + pi + L) % 3]
                    out["size"].append({"fam": "size", "kind": kind, "n": L, "content": content, "pos": pos, "mode": mode,
                                        "routes": True})
    for k in out:
        out[k] = [d for d in out[k] if in_domain(ladder_lines(dict(d, n=min(d["n"], 8)))) or d["fam"] == "size"]
    return out


def scale_units(tier):
    ds = ladder_descs(tier)
    out = []
    for fam, chunks in (("lines", 24), ("chars", 8), ("size", 16)):
        for k in range(chunks):
            out.append(("ladder", fam, k, tuple(ds[fam][k::chunks])))
    return out


def unit_ladder(part, fam, descs):
    for desc in descs:
        lines = ladder_lines(desc)
        if not in_domain(lines):
            continue
        part.states += 1
        part.transitions += 1
        part.traces += 1
        if _nontrivial(lines):
            part.nontrivial += 1
        bad = execute_ladder(desc, part)
        if desc.get("routes"):
            part.evaluations += 1
        part.outcomes["ladder/%s/%s/%s" % (fam, desc["kind"], "violation" if bad else desc["mode"])] += 1
        for sig, exp, obs in bad:
            part.violation(sig, {"space": "ladder", "desc": desc}, _short(exp), _short(obs), rank=desc["n"])
    part.max_depth = max([part.max_depth] + [d["n"] for d in descs])
    if descs:
        part.sample({"space": "ladder", "desc": descs[0]})
    return part
